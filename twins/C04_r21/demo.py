"""Equivalence demo for r21: WavRiffChunkStruct (smpl_extract/formats/wav.py)
- one RIFF sub-chunk: 4-byte id, 32-bit length prefix, body picked by the id.

An inline copy of the ORIGINAL declaration (literal Struct with
Switch(this.riff_id, {...})) is compared with the struct exported by the tree:
 1. declaration shape: field names/types, the Prefixed length field, the
    Switch key function (repr and value on many contexts), the cases mapping
    (same keys, same order, the very same body subcon objects), default,
    flagbuildnone, sizeof;
 2. build / parse of single chunks: every id x many bodies, ids given as label,
    integer, enum string, unknown ids, malformed objects, truncated input ->
    same bytes / same parsed value or same exception;
 3. the order of context lookups while building (logging mapping);
 4. whole files: export_wav through the tree's RiffStruct vs. the same chain
    rebuilt around the original chunk struct, byte for byte, plus an
    independent RIFF walker over every written file.
Exit 0 when everything agrees, 1 otherwise.
"""
import io
import itertools
import os
import shutil
import struct
import sys
import tempfile

from construct.core import Const
from construct.core import GreedyRange
from construct.core import Int32ul
from construct.core import Prefixed
from construct.core import Struct
from construct.core import Switch
from construct.expr import this
from construct.lib.containers import Container

from smpl_extract.data_streams import DataStream
from smpl_extract.data_streams import Endianess
from smpl_extract.data_streams import StreamEncoding
from smpl_extract.formats import wav as fw
from smpl_extract.formats.wav import WavDataChunkStruct
from smpl_extract.formats.wav import WavFormatChunkContainer
from smpl_extract.formats.wav import WavFormatChunkStruct
from smpl_extract.formats.wav import WavLoopContainer
from smpl_extract.formats.wav import WavRiffChunkType
from smpl_extract.formats.wav import WavSampleChunkContainer
from smpl_extract.formats.wav import WavSampleChunkStruct
from smpl_extract.generalized import wav as gw
from smpl_extract.generalized.sample import LoopRegion
from smpl_extract.generalized.sample import Sample
from smpl_extract.midi import MidiNote


# ---- verbatim copy of the original declaration ---------------------------
OrigWavRiffChunkStruct = Struct(
    "riff_id"   / WavRiffChunkType,
    "data"      / Prefixed(Int32ul,
        Switch(this.riff_id, {
            WavRiffChunkType.FMT:  WavFormatChunkStruct,
            WavRiffChunkType.SMPL: WavSampleChunkStruct,
            WavRiffChunkType.DATA: WavDataChunkStruct
        })
    )
)
# -------------------------------------------------------------------------
NEW = fw.WavRiffChunkStruct
OLD = OrigWavRiffChunkStruct

failures = []
checks = 0


def check(cond, msg):
    global checks
    checks += 1
    if not cond:
        failures.append(msg)
        if len(failures) <= 20:
            print("MISMATCH:", msg[:300])


def outcome(f):
    try:
        r = f()
        return ("ok", type(r).__name__, r)
    except Exception as e:  # noqa: BLE001
        return ("exc", type(e).__name__, str(e))


def plain(x):
    """parsed containers -> comparable plain data (drops the _io entries)"""
    if isinstance(x, dict):
        return [(k, plain(v)) for k, v in x.items() if k != "_io"]
    if isinstance(x, (list, tuple)):
        return [plain(v) for v in x]
    if callable(x) and not isinstance(x, type):
        try:
            return ("lazy", plain(x()))
        except Exception as e:  # noqa: BLE001
            return ("lazy-exc", type(e).__name__, str(e))
    return (type(x).__name__, x)


# ---- 1. declaration shape ------------------------------------------------
check(type(NEW) is type(OLD) is Struct, "not a Struct")
check([sc.name for sc in NEW.subcons] == [sc.name for sc in OLD.subcons]
      == ["riff_id", "data"], "field names")
check(NEW.subcons[0].subcon is OLD.subcons[0].subcon is WavRiffChunkType,
      "riff_id subcon")
np_, op_ = NEW.subcons[1].subcon, OLD.subcons[1].subcon
check(type(np_) is type(op_) is Prefixed, "data is not Prefixed")
check(np_.lengthfield is op_.lengthfield is Int32ul, "length field")
check(np_.includelength == op_.includelength, "includelength")
ns, os_ = np_.subcon, op_.subcon
check(type(ns) is type(os_) is Switch, "body is not a Switch")
check(repr(ns.keyfunc) == repr(os_.keyfunc) == "this['riff_id']",
      "keyfunc repr: %r vs %r" % (ns.keyfunc, os_.keyfunc))
check(type(ns.keyfunc) is type(os_.keyfunc), "keyfunc type")
check(list(ns.cases.keys()) == list(os_.cases.keys()), "case keys / order")
check([type(k) for k in ns.cases] == [type(k) for k in os_.cases],
      "case key types")
check([int(k) for k in ns.cases] == [int(k) for k in os_.cases]
      == [0x20746d66, 0x6c706d73, 0x61746164], "case key integers")
check(all(a is b for a, b in zip(ns.cases.values(), os_.cases.values())),
      "case bodies are not the same objects")
check(type(ns.cases) is type(os_.cases) is dict, "cases type")
check(ns.default is os_.default, "default")
for a, b in ((NEW, OLD), (np_, op_), (ns, os_),
             (NEW.subcons[0], OLD.subcons[0]), (NEW.subcons[1], OLD.subcons[1])):
    check((a.flagbuildnone, a.docs, a.name) == (b.flagbuildnone, b.docs, b.name),
          "flags of %r" % (b,))
check(outcome(NEW.sizeof)[:2] == outcome(OLD.sizeof)[:2], "sizeof")
check(set(NEW._subcons.keys()) == set(OLD._subcons.keys()), "_subcons")

CONTEXTS = [
    dict(riff_id="FMT"), Container(riff_id="SMPL"), dict(riff_id=5),
    dict(riff_id=None), dict(), Container(), dict(other=1), None, 7, [],
    "riff_id", {"riff_id": WavRiffChunkType.DATA},
]
for ctx in CONTEXTS:
    x, y = outcome(lambda: ns.keyfunc(ctx)), outcome(lambda: os_.keyfunc(ctx))
    check(x == y, "keyfunc(%r): %r vs %r" % (ctx, x, y))
    x, y = outcome(lambda: ns._sizeof(ctx, "p")), \
        outcome(lambda: os_._sizeof(ctx, "p"))
    check(x == y, "Switch._sizeof(%r): %r vs %r" % (ctx, x, y))


# ---- 2. single chunks ----------------------------------------------------
def fmt_body(c, r, b):
    return WavFormatChunkContainer(
        audio_format=1, channel_cnt=c, sample_rate=r, bits_per_sample=b)


def smpl_body(num_loops, sampler_data=b""):
    return WavSampleChunkContainer(
        sample_period=22676, midi_note=MidiNote.from_midi_byte(60 + num_loops),
        pitch_fraction=num_loops * 1000,
        sample_loops=[WavLoopContainer(cue_id=i, start_byte=i, end_byte=10 * i,
                                       play_cnt=i % 3)
                      for i in range(num_loops)],
        sampler_data=sampler_data)


def data_body(blocks):
    return lambda: iter(blocks)


IDS = [
    "FMT", "SMPL", "DATA", WavRiffChunkType.FMT, WavRiffChunkType.SMPL,
    WavRiffChunkType.DATA, 0x20746d66, 0x6c706d73, 0x61746164, 0, 1,
    0x5453494c, 2**32 - 1, 2**32, -1, "fmt ", "LIST", "", None, 1.5, b"data",
]
BODIES = [
    ("fmt 1/44100/16", lambda: fmt_body(1, 44100, 16)),
    ("fmt 2/48000/16", lambda: fmt_body(2, 48000, 16)),
    ("fmt 0/0/0", lambda: fmt_body(0, 0, 0)),
    ("fmt overflow", lambda: fmt_body(65535, 2**32 - 1, 16)),
    ("fmt dict", lambda: dict(audio_format=1, channel_cnt=2, sample_rate=8000,
                              bits_per_sample=16)),
    ("smpl 0", lambda: smpl_body(0)),
    ("smpl 1", lambda: smpl_body(1)),
    ("smpl 7 + data", lambda: smpl_body(7, b"\x01\x02\x03")),
    ("data none", lambda: iter(())),
    ("data one", lambda: iter([b"\x00\x01\x02\x03"])),
    ("data many", lambda: iter([b"ab" * 2048, b"cd" * 2048, b"e" * 6])),
    ("data list", lambda: [b"abcd", b"", b"ef"]),
    ("data empty block", lambda: iter([b""])),
    ("bytes", lambda: b"abcd"),
    ("None", lambda: None),
    ("int", lambda: 5),
    ("empty dict", lambda: {}),
    ("str", lambda: "abcd"),
]
for riff_id, (label, make_body) in itertools.product(IDS, BODIES):
    for make in (dict, Container):
        x = outcome(lambda: NEW.build(make(riff_id=riff_id, data=make_body())))
        y = outcome(lambda: OLD.build(make(riff_id=riff_id, data=make_body())))
        check(x == y, "build(%r, %s): %r vs %r" % (riff_id, label, x, y))
        if x[0] == "ok" and x == y:
            raw = x[2]
            check(struct.unpack("<I", raw[4:8])[0] == len(raw) - 8,
                  "length prefix of (%r, %s)" % (riff_id, label))
            p = outcome(lambda: plain(NEW.parse(raw)))
            q = outcome(lambda: plain(OLD.parse(raw)))
            check(p == q, "parse(%r, %s): %r vs %r" % (riff_id, label, p, q))

for make_obj in (lambda: None, lambda: 5, dict, lambda: dict(riff_id="FMT"),
                 lambda: dict(data=b""), list, lambda: "x",
                 lambda: dict(riff_id="DATA", data=iter([b"ab"]), extra=1)):
    x = outcome(lambda: NEW.build(make_obj()))
    y = outcome(lambda: OLD.build(make_obj()))
    check(x == y, "build of odd object %r: %r vs %r" % (make_obj(), x, y))

GOOD = [
    OLD.build(dict(riff_id="FMT", data=fmt_body(2, 44100, 16))),
    OLD.build(dict(riff_id="SMPL", data=smpl_body(3, b"xy"))),
    OLD.build(dict(riff_id="DATA", data=iter([b"0123456789"]))),
    b"LIST" + struct.pack("<I", 4) + b"abcd",
    b"data" + struct.pack("<I", 0),
    b"fmt " + struct.pack("<I", 18) + bytes(18),
    b"fmt " + struct.pack("<I", 10) + bytes(10),
    b"smpl" + struct.pack("<I", 36) + bytes(28) + struct.pack("<II", 2, 0),
    b"data" + struct.pack("<I", 2**32 - 1) + b"abc",
]
for raw in GOOD:
    for cut in sorted(set((0, 1, 3, 4, 7, 8, 9, len(raw) - 1, len(raw)))):
        if cut < 0:
            continue
        piece = raw[:cut] if cut < len(raw) else raw + b"tail"
        p = outcome(lambda: plain(NEW.parse(piece)))
        q = outcome(lambda: plain(OLD.parse(piece)))
        check(p == q, "parse of %r: %r vs %r" % (piece[:24], p, q))
        sn, so = io.BytesIO(piece), io.BytesIO(piece)
        p = outcome(lambda: plain(NEW.parse_stream(sn)))
        q = outcome(lambda: plain(OLD.parse_stream(so)))
        check(p == q and sn.tell() == so.tell(),
              "parse_stream position for %r" % piece[:24])


# ---- 3. order of lookups while building ---------------------------------
class LoggingDict(dict):
    def __init__(self, log, *a, **kw):
        super().__init__(*a, **kw)
        self.log = log

    def __getitem__(self, key):
        self.log.append(("get", key))
        return super().__getitem__(key)

    def get(self, key, default=None):
        self.log.append(("get()", key))
        return super().get(key, default)

    def __contains__(self, key):
        self.log.append(("in", key))
        return super().__contains__(key)


def logged_build(st, riff_id, make_body, drop=()):
    log = []
    obj = LoggingDict(log, riff_id=riff_id, data=make_body())
    for k in drop:
        dict.__delitem__(obj, k)
    res = outcome(lambda: st.build(obj))
    return res, log


for riff_id, (label, make_body), drop in itertools.product(
        ("FMT", "SMPL", "DATA", 9, "nope"), BODIES[:3] + BODIES[5:7] + BODIES[9:11],
        ((), ("riff_id",), ("data",))):
    x = logged_build(NEW, riff_id, make_body, drop)
    y = logged_build(OLD, riff_id, make_body, drop)
    check(x == y, "lookup log (%r, %s, drop=%r): %r vs %r"
          % (riff_id, label, drop, x, y))


# ---- 4. whole files ------------------------------------------------------
OrigRiffStruct = Struct(
    "fourcc"    / Const(b"RIFF"),
    "data"      / Prefixed(Int32ul, Struct(
        "fourcc"    / Const(b"WAVE"),
        "chunks"    / GreedyRange(OrigWavRiffChunkStruct)
    )),
)
OrigBuilder = gw.WavSampleAdapter(OrigRiffStruct)


def pcm(n, seed):
    return bytes((seed * 31 + i * 7) % 256 for i in range(n))


def make_sample(channels, rate, num_frames, num_loops, streams, with_note):
    data_streams = []
    if streams == 1:
        data_streams.append(DataStream(
            io.BytesIO(pcm(2 * channels * num_frames + 1, 3)),
            StreamEncoding(Endianess.LITTLE, 2, channels, True)))
    else:
        for k in range(channels):
            data_streams.append(DataStream(
                io.BytesIO(pcm(2 * (num_frames + k), 5 + k)),
                StreamEncoding(Endianess.BIG, 2, 1, True)))
    return Sample(
        name="s", sample_rate=rate, num_channels=channels,
        data_streams=data_streams,
        loop_regions=[LoopRegion(i, 9 + i, repeat_forever=bool(i % 2),
                                 duration=None if i % 3 else 0.5)
                      for i in range(num_loops)],
        midi_note=MidiNote.from_midi_byte(61) if with_note else None,
        pitch_offset_cents=7 if with_note else None)


def walk_riff(raw):
    """independent walker -> list of (id, size) ; raises on malformed files"""
    assert raw[:4] == b"RIFF" and raw[8:12] == b"WAVE", "magic"
    assert struct.unpack("<I", raw[4:8])[0] == len(raw) - 8, "riff size"
    pos, chunks = 12, []
    while pos < len(raw):
        cid, size = raw[pos:pos + 4], struct.unpack("<I", raw[pos + 4:pos + 8])[0]
        chunks.append((cid, size, raw[pos + 8:pos + 8 + size]))
        pos += 8 + size
    assert pos == len(raw), "sizes do not add up"
    return chunks


tmp_dir = tempfile.mkdtemp(prefix="r21_demo_")
try:
    n = 0
    for channels, rate, num_frames, num_loops, streams, with_note in \
            itertools.product((1, 2), (0, 1, 22050, 44100, 96000, 2**32 - 1, 2**32),
                              (0, 3, 2048, 3000), (0, 1, 4), (1, 2),
                              (False, True)):
        if streams == 2 and channels == 1:
            continue
        n += 1
        path = os.path.join(tmp_dir, "f%d.wav" % n)
        args = (channels, rate, num_frames, num_loops, streams, with_note)
        x = outcome(lambda: gw.export_wav(make_sample(*args), path))
        raw = open(path, "rb").read()
        sink = io.BytesIO()
        y = outcome(lambda: OrigBuilder.build_stream(make_sample(*args), sink))
        check(x[0] == y[0] and (x[0] == "ok" or x == y),
              "export outcome for %r: %r vs %r" % (args, x, y))
        check(raw == sink.getvalue(), "bytes differ for %r" % (args,))
        if x[0] == "ok":
            try:
                chunks = walk_riff(raw)
            except AssertionError as e:
                check(False, "walker: %s for %r" % (e, args))
                continue
            ids = [c[0] for c in chunks]
            has_smpl = num_loops > 0 or with_note
            check(ids == ([b"fmt ", b"smpl", b"data"] if has_smpl
                          else [b"fmt ", b"data"]), "chunk order %r" % (args,))
            check(chunks[0][1] == 16, "fmt size")
            f = struct.unpack("<HHIIHH", chunks[0][2])
            check(f[0] == 1 and f[1] == channels and f[4] == 2 * channels
                  and f[3] == f[2] * f[4] and f[5] == 16, "fmt fields %r" % (f,))
            check(chunks[-1][1] % (2 * channels) == 0, "whole frames")
            if has_smpl:
                cnt = struct.unpack("<I", chunks[1][2][28:32])[0]
                check(chunks[1][1] == 36 + 24 * cnt, "smpl size")
            p = outcome(lambda: plain(fw.RiffStruct.parse(raw)))
            q = outcome(lambda: plain(OrigRiffStruct.parse(raw)))
            check(p == q, "parse of whole file %r" % (args,))
finally:
    shutil.rmtree(tmp_dir, ignore_errors=True)

print("%d checks, %d failures" % (checks, len(failures)))
sys.exit(1 if failures else 0)
