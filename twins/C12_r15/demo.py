"""Equivalence demo for r15: smpl_extract.util.sector.SectorStream._read.

SectorStream._read (also inherited by util.fat.FileStream) is the reader
behind the sample data streams; its SectorReadError is what stops the
transcoder iterators.  The live method is compared with an inline copy of the
ORIGINAL on
  * direct _read calls for every (sector length, position, size) in a grid,
    with complete, truncated and empty parent streams,
  * public read()/seek()/readall() sequences,
  * FAT file streams with scattered / too short / out-of-range sector lists.
For every call the result or exception (type and message) AND the exact
sequence of seek/read operations on the parent stream are compared.
Finally complete transcodings are run over sector-backed streams (intact and
truncated, so that the stop condition triggers) and compared byte for byte.
Exit 0 when everything agrees, 1 otherwise.
"""
from io import BytesIO
from io import SEEK_SET
import itertools
import sys
from unittest.mock import patch

import numpy as np

import smpl_extract.transcoder as T
from smpl_extract.data_streams import DataStream
from smpl_extract.data_streams import Endianess
from smpl_extract.data_streams import StreamEncoding
from smpl_extract.util.fat import FileStream
from smpl_extract.util.sector import SectorStream
from smpl_extract.util.stream import SectorReadError


def _read_ORIG(self, size):

    if size <= 0:
        return bytes()

    remaining_size = size

    initial_sector_index    = self.position // self.sector_length
    initial_sector_offset   = self.position % self.sector_length

    # read partial initial sector
    if initial_sector_offset + size <= self.sector_length:
        initial_read_size = size
    else:
        initial_read_size = self.sector_length - initial_sector_offset
    result = self._read_sector(
        initial_sector_index,
        initial_sector_offset,
        initial_read_size
    )
    remaining_size -= initial_read_size

    # read full size middle sectors
    i = 1
    while remaining_size > self.sector_length:
        result += self._read_sector(
            initial_sector_index + i,
            0,
            self.sector_length
        )
        remaining_size -= self.sector_length
        i += 1

    # read partial final sector
    final_sector_index = initial_sector_index + i
    if remaining_size > 0:
        result += self._read_sector(
            final_sector_index,
            0,
            remaining_size
        )

    if len(result) != size:
        raise SectorReadError(f"Wanted {size}, read {len(result)}.")

    return result


class SectorStream_ORIG(SectorStream):
    _read = _read_ORIG


class FileStream_ORIG(FileStream):
    _read = _read_ORIG


class LoggedBytesIO(BytesIO):
    """Parent stream that records every seek / read / tell made on it."""

    def __init__(self, data):
        super().__init__(data)
        self.log = []

    def seek(self, offset, whence=SEEK_SET):
        self.log.append(("seek", offset, whence))
        return super().seek(offset, whence)

    def read(self, size=-1):
        self.log.append(("read", size))
        return super().read(size)

    def tell(self):
        self.log.append(("tell",))
        return super().tell()


def call(f, *args):
    try:
        r = f(*args)
    except BaseException as e:  # noqa
        return ("exc", type(e), str(e))
    return ("ok", type(r), r)


def run_script(make, data, script):
    parent = LoggedBytesIO(data)
    s = make(parent)
    out = []
    for step in script:
        if step[0] == "_read":
            s.position = step[1]
            out.append(call(s._read, step[2]))
        elif step[0] == "read":
            out.append(call(s.read, step[1]))
        elif step[0] == "seek":
            out.append(call(s.seek, step[1], step[2]))
        elif step[0] == "readall":
            out.append(call(s.readall))
        out.append(("pos", s.position, s.true_size))
    return out, parent.log


def transcode(cls, specs, dest, block):
    def gnfp(stream, target_size=block):
        return max(1, target_size // stream.frame_size)

    with patch.object(T, "get_num_frames_possible", gnfp):
        try:
            parents = []
            streams = []
            for data, size, seclen, enc in specs:
                parent = LoggedBytesIO(data)
                parents.append(parent)
                streams.append(DataStream(cls(parent, size, seclen), enc))
            tr = T.make_transcoder(streams, dest)
            return (type(tr).__name__, [bytes(b) for b in tr],
                    [p.log for p in parents])
        except BaseException as e:  # noqa
            return ("exc", type(e), str(e))


def main():
    bad = 0
    n = 0
    rng = np.random.default_rng(15)
    image = rng.integers(0, 256, 4096, dtype=np.uint8).tobytes()

    # 1. direct _read over a grid
    sector_lengths = [1, 2, 3, 4, 5, 7, 8, 16, 512, -1, -3, 0]
    positions = [0, 1, 2, 3, 4, 5, 7, 8, 15, 16, 17, 31, 100, 511, 512, -1, -5]
    sizes = [-2, 0, 1, 2, 3, 4, 5, 7, 8, 9, 15, 16, 17, 24, 33, 100, 512,
             513, 1024, 1025, True]
    for seclen in sector_lengths:
        for avail in (4096, 40, 17, 0):
            data = image[:avail]
            for pos, size in itertools.product(positions, sizes):
                script = [("_read", pos, size)]
                a = run_script(
                    lambda p: SectorStream_ORIG(p, 2048, seclen), data, script)
                b = run_script(
                    lambda p: SectorStream(p, 2048, seclen), data, script)
                n += 1
                if a != b:
                    bad += 1
                    print("MISMATCH _read", seclen, avail, pos, size)

    # 2. public API sequences
    scripts = []
    for _ in range(400):
        script = []
        for _ in range(int(rng.integers(1, 8))):
            kind = int(rng.integers(0, 10))
            if kind < 6:
                script.append(("read", int(rng.integers(-1, 70))))
            elif kind < 9:
                script.append(("seek", int(rng.integers(-20, 300)),
                               int(rng.integers(0, 3))))
            else:
                script.append(("readall",))
        scripts.append(script)
    scripts.append([("read", None)])
    for script in scripts:
        for seclen, size, avail in ((4, 64, 4096), (7, 100, 4096),
                                    (16, 256, 200), (512, 1000, 4096),
                                    (3, 30, 10), (8, 0, 4096)):
            data = image[:avail]
            a = run_script(
                lambda p: SectorStream_ORIG(p, size, seclen, buffer_length=21),
                data, script)
            b = run_script(
                lambda p: SectorStream(p, size, seclen, buffer_length=21),
                data, script)
            n += 1
            if a != b:
                bad += 1
                print("MISMATCH script", seclen, size, avail, script)

    # 3. FAT file streams (scattered sectors, sectors beyond the image,
    #    reads running off the end of the sector list)
    lists = [[], [0], [3, 1, 2], [5, 4, 9, 0, 7], [1, 1, 1], [2, 900, 3],
             list(range(20, 0, -1))]
    for seclen in (1, 4, 6, 16):
        for sl in lists:
            for pos, size in itertools.product(
                    (0, 1, 3, 4, 6, 15, 16, 40), (1, 2, 4, 6, 7, 16, 17, 50,
                                                  200)):
                script = [("_read", pos, size), ("seek", 0, 0),
                          ("read", size), ("read", size)]
                a = run_script(
                    lambda p: FileStream_ORIG(p, seclen, sl), image, script)
                b = run_script(
                    lambda p: FileStream(p, seclen, sl), image, script)
                n += 1
                if a != b:
                    bad += 1
                    print("MISMATCH fat", seclen, sl, pos, size)

    # 4. end to end: transcoder over sector backed streams
    orders = [Endianess.LITTLE, Endianess.BIG]
    for width in (1, 2, 4):
        for chans in ([1], [2], [1, 1], [2, 1], [1, 2, 3]):
            total = sum(chans)
            for ords in itertools.islice(
                    itertools.product(orders, repeat=len(chans)), 3):
                for frames, missing in ((40, 0), (40, 13), (33, 200), (0, 0)):
                    for seclen in (3, 8, 512):
                        specs = []
                        for k, (c, o) in enumerate(zip(chans, ords)):
                            size = (frames + k) * c * width
                            have = max(0, size - missing * (k + 1))
                            specs.append((
                                image[100 * k:100 * k + have], size, seclen,
                                StreamEncoding(o, width, c, True)))
                        for dest in (
                                StreamEncoding(
                                    Endianess.LITTLE, width, total, True),
                                StreamEncoding(
                                    Endianess.BIG, width, total, True)):
                            for block in (1, 24, 4096):
                                a = transcode(
                                    SectorStream_ORIG, specs, dest, block)
                                b = transcode(
                                    SectorStream, specs, dest, block)
                                n += 1
                                if a != b:
                                    bad += 1
                                    print("E2E MISMATCH", width, chans, ords,
                                          frames, missing, seclen, block)

    print(f"{n} comparisons, {bad} mismatches")
    return 1 if bad else 0


if __name__ == "__main__":
    sys.exit(main())
