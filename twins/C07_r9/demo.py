"""Equivalence demo for r9: SectorStream._read (smpl_extract/util/sector.py).

The module's _read is compared against an inline copy of the ORIGINAL
implementation.  Both run on twin streams over identical recording parents, so
that besides the returned bytes / raised exception also the exact sequence of
_read_sector calls and of seek/read calls on the shared parent stream, and the
stream state afterwards, are compared.

 * exhaustively: small sector lengths x sector counts x positions x sizes for
   SectorStream and FileStream (identity, reversed, sparse, repeated and
   too-short sector lists, incl. position past the end and sector_length 0);
 * randomly: public read()/seek()/readall() sessions on Segment (AKAI sector
   size) and RolandFile (Roland cluster size) over chains that come out of
   add_to_sector_links + get_path, checked against plain concatenation too.
"""
import io
import itertools
import random
import sys

from smpl_extract.akai.sat import Segment
from smpl_extract.akai.sat import SegmentAllocationTable
from smpl_extract.akai.data_types import AKAI_SECTOR_SIZE
from smpl_extract.roland.s7xx.fat import RolandFile
from smpl_extract.roland.s7xx.fat import RolandFileAllocationTable
from smpl_extract.roland.s7xx.data_types import ROLAND_CLUSTER_SIZE
from smpl_extract.util.fat import FileStream
from smpl_extract.util.fat import SectorLink
from smpl_extract.util.fat import add_to_sector_links
from smpl_extract.util.sector import SectorStream
from smpl_extract.util.stream import SectorReadError


# ---------------------------------------------------------------- original
def original_read(self, size: int)->bytes:

    if size <= 0:
        return bytes()

    remaining_size = size

    initial_sector_index    = self.position // self.sector_length
    initial_sector_offset   = self.position % self.sector_length

    # read partial initial sector
    if initial_sector_offset + size <= self.sector_length:
        initial_read_size = size
    else:
        initial_read_size = self.sector_length - initial_sector_offset
    result = self._read_sector(
        initial_sector_index,
        initial_sector_offset,
        initial_read_size
    )
    remaining_size -= initial_read_size

    # read full size middle sectors
    i = 1
    while remaining_size > self.sector_length:
        result += self._read_sector(
            initial_sector_index + i,
            0,
            self.sector_length
        )
        remaining_size -= self.sector_length
        i += 1

    # read partial final sector
    final_sector_index = initial_sector_index + i
    if remaining_size > 0:
        result += self._read_sector(
            final_sector_index,
            0,
            remaining_size
        )

    if len(result) != size:
        raise SectorReadError(f"Wanted {size}, read {len(result)}.")

    return result


# ---------------------------------------------------------------- harness
class RecordingParent(io.BytesIO):
    def __init__(self, data):
        super().__init__(data)
        self.trace = []

    def seek(self, *args):
        self.trace.append(("seek",) + args)
        return super().seek(*args)

    def read(self, *args):
        self.trace.append(("read",) + args)
        return super().read(*args)

    def tell(self):
        self.trace.append(("tell",))
        return super().tell()


def make_twins(base):
    """(class using the module's _read, class using the original _read),
    both logging their _read_sector calls."""
    class Logged(base):
        def _read_sector(self, sector_index, offset, size):
            self.__dict__.setdefault("calls", []).append(
                (sector_index, offset, size))
            return super()._read_sector(sector_index, offset, size)

    class New(Logged):
        pass

    class Old(Logged):
        _read = original_read

    return New, Old


TWINS = {cls: make_twins(cls)
         for cls in (SectorStream, FileStream, Segment, RolandFile)}


def outcome(fn):
    try:
        return ("ret", fn())
    except BaseException as exc:  # noqa
        return ("exc", type(exc).__name__, str(exc),
                type(exc.__cause__).__name__)


def state(stream):
    return (stream.position, stream.true_size, stream.end_of_file,
            stream.__dict__.get("calls", []), stream.substream.trace,
            io.BytesIO.tell(stream.substream))


checked = 0
bad = 0


def compare(label, build, script):
    """build(cls_pair_member) -> stream ; script(stream) -> value"""
    global checked, bad
    new_stream, old_stream = build(0), build(1)
    got = outcome(lambda: script(new_stream))
    want = outcome(lambda: script(old_stream))
    checked += 1
    if got != want or state(new_stream) != state(old_stream):
        bad += 1
        if bad <= 10:
            print("MISMATCH", label)
            print("   new:", got, state(new_stream))
            print("   old:", want, state(old_stream))


def payload(n):
    return bytes((37 * k + 11) % 251 for k in range(n))


def exhaustive_small():
    for sector_length in (0, 1, 2, 3, 4, 5, 8):
        for n_sectors in range(0, 5):
            data = payload(max(sector_length, 1) * n_sectors)
            total = sector_length * n_sectors
            # plain SectorStream, also over a parent that is one byte short
            for cut in (0, 1):
                parent_data = data[:len(data) - cut] if cut else data
                for position in range(0, total + 3):
                    for size in range(-1, total + 4):
                        def build(which, position=position):
                            cls = TWINS[SectorStream][which]
                            return cls(RecordingParent(parent_data),
                                       size=total,
                                       sector_length=sector_length,
                                       position=position)
                        compare(("sector", sector_length, n_sectors, cut,
                                 position, size),
                                build, lambda s, size=size: s._read(size))
            # FileStream over assorted sector lists
            idx = list(range(n_sectors))
            lists = {tuple(idx), tuple(reversed(idx)), tuple(idx[::2]),
                     tuple(idx[:1] * 3), tuple(idx + [n_sectors + 2]),
                     tuple(idx[1:] + idx[:1]), tuple([-1] + idx[:2])}
            for sector_list in sorted(lists):
                span = sector_length * len(sector_list)
                for position in range(0, span + 3):
                    for size in range(-1, span + 4):
                        def build(which, position=position,
                                  sector_list=sector_list):
                            cls = TWINS[FileStream][which]
                            return cls(RecordingParent(data), sector_length,
                                       list(sector_list), position=position)
                        compare(("file", sector_length, sector_list,
                                 position, size),
                                build, lambda s, size=size: s._read(size))


def random_chain(rng, n_entries):
    """A well formed chain installed with add_to_sector_links."""
    sector_links = [SectorLink()] * n_entries
    length = rng.randint(1, min(n_entries, 9))
    chain = rng.sample(range(n_entries), length)
    add_to_sector_links(chain, sector_links)
    return chain, sector_links


def sessions(rng, base, table_cls, getter, unit, rounds):
    for _ in range(rounds):
        n_entries = rng.randint(1, 12)
        chain, sector_links = random_chain(rng, n_entries)
        data = bytes(rng.getrandbits(8) for _ in range(257)) * (
            (unit * n_entries) // 257 + 1)
        data = data[:unit * n_entries - rng.choice((0, 0, 0, 1, unit))]
        table = table_cls(None, n_entries, sector_links)
        path = table.get_path(chain[0])
        assert path == chain, (path, chain)
        via_table = getattr(table_cls(io.BytesIO(data), n_entries,
                                      sector_links), getter)(chain[0])
        assert via_table.sector_list == chain
        ops = []
        for _ in range(rng.randint(1, 8)):
            kind = rng.random()
            if kind < 0.55:
                ops.append(("read", rng.choice(
                    (0, 1, 2, unit - 1, unit, unit + 1, 2 * unit,
                     rng.randint(0, unit * (len(chain) + 1)), None, -1))))
            elif kind < 0.9:
                ops.append(("seek", rng.randint(-unit, unit * (len(chain) + 1)),
                            rng.choice((0, 1, 2))))
            else:
                ops.append(("readall",))

        def build(which):
            return TWINS[base][which](RecordingParent(data), list(chain))

        def script(stream):
            out = []
            for op in ops:
                if op[0] == "read":
                    out.append(stream.read(op[1]))
                elif op[0] == "seek":
                    out.append(stream.seek(op[1], op[2]))
                else:
                    out.append(stream.readall())
            return out

        compare((base.__name__, chain, ops), build, script)

        # whole-file read equals concatenation of the chain's sectors
        if len(data) == unit * n_entries:
            expected = b"".join(data[s * unit:(s + 1) * unit] for s in chain)
            whole = TWINS[base][0](RecordingParent(data), list(chain))
            global checked, bad
            checked += 1
            if outcome(lambda: whole.read(len(expected))) != ("ret", expected):
                bad += 1
                print("MISMATCH concatenation", base.__name__, chain)


def main():
    exhaustive_small()
    rng = random.Random(90907)
    sessions(rng, Segment, SegmentAllocationTable, "get_segment",
             AKAI_SECTOR_SIZE, 250)
    sessions(rng, RolandFile, RolandFileAllocationTable, "get_file",
             ROLAND_CLUSTER_SIZE, 250)
    print(f"checked {checked} cases, {bad} mismatches")
    return 1 if bad else 0


if __name__ == "__main__":
    sys.exit(main())
