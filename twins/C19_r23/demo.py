"""Equivalence demo for the IirFilter.__init__ refactoring (iir.pyx).

IirFilter.__init__ decides how much state (x_prev / y_prev) the IIR filters
keep from one block to the next: len(B) - 1 and len(A) - 1 samples, never
negative.  The edit moves that computation into a new private staticmethod
`_memory_len(coeffs)` which spells the clamp `max(0, n - 1)` as the
conditional expression `n - 1 if n > 1 else 0` (len() still taken once), and
merges `self.B = B; self.A = A` into one tuple assignment.

iir.pyx ships pre-built and Cython is not installed, so the edited text has no
runtime effect on the compiled module.  To still exercise the *edited text*,
the pure-Python `class IirFilter` / `class ChickSysCustomIirFilter` blocks are
cut out of smpl_extract/filters/iir.pyx and exec'd with the compiled kernels
bound in their namespace.  They are compared against
  (a) an inline copy of the ORIGINAL class text, exec'd the same way, and
  (b) the compiled classes.

Scenarios: constructors with coefficient containers of every length 0..40 and
kind (arrays, lists, tuples, strings, 2-D arrays, generators and scalars that
have no len(), objects whose __len__ counts its calls / raises / is huge), the
order of attribute stores and len() calls (event log, half-built instances
after a failure), the helper against the original expression; then streaming:
random coefficient sets through every composition of short signals and random
splits of long ones (state compared after every block), the ChickenSys
subclass and the three presets with saturating inputs, reset and flush.

Exit 0 when everything agrees, 1 otherwise.
"""
import os
import random
import sys
import warnings
from typing import Tuple

import numpy as np

import smpl_extract.filters.iir as compiled
from smpl_extract.filters import common

warnings.simplefilter("ignore")

PYX = os.path.join(os.path.dirname(os.path.abspath(compiled.__file__)), "iir.pyx")

ORIGINAL_CLASSES = '''\
class IirFilter:


    def __init__(self, B: np.ndarray, A: np.ndarray) -> None:
        self.B = B
        self.A = A
        self.n_x_prev = max(0, len(B) - 1)
        self.n_y_prev = max(0, len(A) - 1)
        self.reset_state()


    def reset_state(
            self,
            **kwargs
    ):
        x_prev = kwargs.get("x_prev", None)
        y_prev = kwargs.get("y_prev", None)
        x_prev = x_prev or np.zeros(self.n_x_prev, dtype=np.float64)
        y_prev = y_prev or np.zeros(self.n_y_prev, dtype=np.float64)
        self.x_prev = x_prev.astype(np.float64)
        self.y_prev = y_prev.astype(np.float64)


    def process(self, x: np.ndarray) -> np.ndarray:
        x = x.astype(dtype=np.float64)
        y = np.zeros((x.size,)).astype(np.float64)
        _c_process(
            x,
            y,
            self.B,
            self.A,
            self.x_prev,
            self.y_prev
        )
        return y


    def get_remaining(self) -> np.ndarray:
        y = np.zeros((0,), dtype=np.float64)
        self.reset_state()
        return y


class ChickSysCustomIirFilter(IirFilter):


    def __init__(self, coeffs: Tuple[float, float, float]) -> None:
        B = np.asarray([coeffs[0], coeffs[1]])
        A = np.asarray([1.0, -coeffs[2]])
        super().__init__(B, A)


    def process(self, x: np.ndarray) -> np.ndarray:
        y = np.zeros((x.size,)).astype(np.int16)
        _c_chickensys_process(
            x,
            y,
            self.B,
            self.A,
            self.x_prev,
            self.y_prev
        )
        y = y.astype(np.int16)
        return y
'''


def _cut_class(lines, name):
    start = next(i for i, l in enumerate(lines) if l.startswith("class " + name))
    end = len(lines)
    for j in range(start + 1, len(lines)):
        l = lines[j]
        if l.strip() and not l[0].isspace():
            end = j
            break
    return "".join(lines[start:end])


def _namespace():
    return {"np": np, "Tuple": Tuple, "_c_process": compiled._c_process,
            "_c_chickensys_process": compiled._c_chickensys_process}


def load_original():
    ns = _namespace()
    exec(compile(ORIGINAL_CLASSES, "<original iir.pyx classes>", "exec"), ns)
    return ns["IirFilter"], ns["ChickSysCustomIirFilter"]


def load_text():
    with open(PYX, "r", encoding="utf-8") as fh:
        lines = fh.readlines()
    ns = _namespace()
    exec(compile(_cut_class(lines, "IirFilter"), "<iir.pyx IirFilter text>", "exec"), ns)
    exec(compile(_cut_class(lines, "ChickSysCustomIirFilter"), "<iir.pyx ChickSysCustomIirFilter text>", "exec"), ns)
    return ns["IirFilter"], ns["ChickSysCustomIirFilter"]


OrigIir, OrigChick = load_original()
TextIir, TextChick = load_text()
IIRS = [OrigIir, TextIir, compiled.IirFilter]
CHICKS = [OrigChick, TextChick, compiled.ChickSysCustomIirFilter]

failures = []
checks = 0

EVENTS = []


class Coeffs:
    """coefficient container under observation: logs every len() call"""

    def __init__(self, name, n):
        self.name, self.n = name, n

    def __len__(self):
        EVENTS.append(("len", self.name))
        if isinstance(self.n, BaseException):
            raise self.n
        return self.n


def describe(v):
    if isinstance(v, np.ndarray):
        return ("nd", str(v.dtype), v.shape, v.tobytes(), v.flags.writeable)
    if isinstance(v, (list, tuple)):
        return (type(v).__name__,) + tuple(describe(e) for e in v)
    if isinstance(v, Coeffs):
        return ("Coeffs", v.name, repr(v.n))
    if isinstance(v, dict):
        return ("dict",) + tuple((k, describe(v[k])) for k in sorted(v))
    if type(v).__name__ == "generator":
        return ("generator",)            # its repr carries an address
    return (type(v).__name__, repr(v))


def outcome(fn):
    try:
        return ("ok", describe(fn()))
    except BaseException as exc:  # noqa: BLE001 - compared, not swallowed
        return ("exc", type(exc).__name__, str(exc))


def check(label, *results):
    global checks
    checks += 1
    if any(r != results[0] for r in results[1:]):
        failures.append(label)
        print("MISMATCH", label)
        for r in results:
            print("   ", str(r)[:400])


def state(f):
    d = vars(f)
    return tuple((k, describe(d[k])) for k in sorted(d))


def logged(cls):
    """subclass of cls that logs attribute stores and reset_state calls"""

    class Logged(cls):
        def __setattr__(self, key, value):
            EVENTS.append(("set", key, describe(value)))
            object.__setattr__(self, key, value)

        def reset_state(self, **kwargs):
            EVENTS.append(("reset_state", tuple(sorted(kwargs)), tuple(sorted(vars(self)))))
            return super().reset_state(**kwargs)

    return Logged


def build(cls, B, A):
    """construct without losing a half-built instance when __init__ raises"""
    del EVENTS[:]
    f = cls.__new__(cls)
    r = outcome(lambda: f.__init__(B, A))
    return (r, state(f), tuple(EVENTS), vars(f).get("B") is B, vars(f).get("A") is A)


def containers():
    def gen():
        yield 1.0
    out = []
    for n in list(range(0, 9)) + [16, 40]:
        out.append(("array%d" % n, lambda n=n: np.linspace(1.0, 2.0, n) if n else np.zeros(0)))
        out.append(("list%d" % n, lambda n=n: [0.5] * n))
        out.append(("tuple%d" % n, lambda n=n: (0.25,) * n))
        out.append(("coeffs%d" % n, lambda n=n: Coeffs("c", n)))
    out += [
        ("str0", lambda: ""), ("str3", lambda: "abc"), ("bytes2", lambda: b"ab"),
        ("2d", lambda: np.ones((3, 4))), ("2d-empty", lambda: np.ones((0, 4))), ("2d-1", lambda: np.ones((1, 4))),
        ("0d", lambda: np.asarray(2.0)), ("none", lambda: None), ("int", lambda: 3), ("float", lambda: 1.5),
        ("gen", gen), ("dict2", lambda: {0: 1.0, 1: 2.0}), ("range5", lambda: range(5)), ("range1", lambda: range(1)),
        ("len-raises", lambda: Coeffs("c", RuntimeError("no length"))),
        ("len-huge", lambda: Coeffs("c", 2 ** 62)), ("len-too-big", lambda: Coeffs("c", 2 ** 70)),
        ("len-neg", lambda: Coeffs("c", -3)), ("len-float", lambda: Coeffs("c", 2.0)),
        ("len-bool", lambda: Coeffs("c", True)), ("len-int64", lambda: Coeffs("c", np.int64(3))),
    ]
    return out


def compositions(n):
    for mask in range(1 << (n - 1)):
        parts, start = [], 0
        for i in range(n - 1):
            if mask >> i & 1:
                parts.append((start, i + 1))
                start = i + 1
        parts.append((start, n))
        yield parts


def stream(make, blocks, reset_after=None):
    f = make()
    trace = [state(f)]
    for k, b in enumerate(blocks):
        trace.append(outcome(lambda: f.process(b)))
        trace.append(state(f))
        if reset_after is not None and k == reset_after:
            trace.append(outcome(lambda: f.reset_state()))
            trace.append(state(f))
    trace.append(outcome(f.get_remaining))
    trace.append(state(f))
    return trace


def main():
    rng = random.Random(2319)
    nprng = np.random.default_rng(2319)

    # --- 0. the helper against the original expression ----------------------
    helper = getattr(TextIir, "_memory_len", None)
    if helper is not None:
        for n in list(range(0, 300)) + [2 ** 31, 2 ** 62]:
            c = Coeffs("h", n)
            del EVENTS[:]
            got = outcome(lambda: helper(c))
            check("helper %d" % n, got, ("ok", describe(max(0, n - 1))))
            check("helper takes len once %d" % n, list(EVENTS), [("len", "h")])
        for inst in (TextIir([1.0], [1.0, 0.5]), TextChick((1.0, 0.0, 0.0))):
            check("helper via instance", inst._memory_len([1, 2, 3]), 2)

    # --- 1. constructors: results, order of stores and len() calls ----------
    cons = containers()
    big = {"len-huge"}      # np.zeros(2**62 - 1): MemoryError text names the size, same everywhere
    for name_b, make_b in cons:
        for name_a, make_a in cons:
            if name_b.startswith("coeffs") or name_b.startswith("len"):
                make_b2 = lambda: (setattr(x := make_b(), "name", "B"), x)[1]
            else:
                make_b2 = make_b
            if name_a.startswith("coeffs") or name_a.startswith("len"):
                make_a2 = lambda: (setattr(x := make_a(), "name", "A"), x)[1]
            else:
                make_a2 = make_a
            res = []
            for cls in IIRS:
                res.append(build(logged(cls), make_b2(), make_a2()))
            check("ctor %s / %s" % (name_b, name_a), *res)
            res = [build(cls, make_b2(), make_a2()) for cls in IIRS]
            check("ctor plain %s / %s" % (name_b, name_a), *res)
    for args, kwargs in [((), {}), (([1.0],), {}), (([1.0], [1.0], 3), {}), ((), {"B": [1.0, 2.0], "A": [1.0, 0.5]}),
                         (([1.0],), {"A": (1.0, 0.25, 0.5)}), ((), {"A": [1.0]}), (([1.0], [1.0]), {"C": 1})]:
        res = []
        for cls in IIRS:
            r = outcome(lambda: state(cls(*args, **kwargs)))
            res.append(r[:2] if r[0] == "exc" else r)
        check("ctor call %r %r" % (args, kwargs), *res)

    # ChickenSys subclass goes through the same __init__
    for coeffs in [(0.5923, 0.1516, 0.2560), (0.7071, 0.1213, 0.1716), (1.0, 0.0, 0.0), [1.9, 0.9, 0.99],
                   np.asarray([0.1, 0.2, 0.3]), (1, 2, 3), (1.0, 2.0), (), "abc", None, (1.0, 2.0, 3.0, 4.0),
                   (1.0, 2.0, "x"), ([1.0, 2.0], [3.0, 4.0], 0.5), {0: 1.0, 1: 2.0, 2: 3.0}]:
        # The compiled class converts `coeffs: Tuple[float, float, float]` to a C tuple of
        # three doubles before the body runs (Cython typing, nothing to do with this edit),
        # so it only joins the comparison for genuine triples of floats.
        triple = isinstance(coeffs, tuple) and len(coeffs) == 3 and all(type(c) is float for c in coeffs)
        res = []
        for cls in (CHICKS if triple else CHICKS[:2]):
            del EVENTS[:]
            L = logged(cls)
            f = L.__new__(L)
            r = outcome(lambda: f.__init__(coeffs))
            res.append((r, state(f), tuple(EVENTS)))
        check("chick ctor %r" % (coeffs,), *res)
    for cls_name in ("ChickSysStandardDeemphFilter", "ChickSysDarkerDeemphFilter", "ChickSysSpecialDeemphFilter"):
        f = getattr(common, cls_name)()
        g = TextChick((f.B[0], f.B[1], -f.A[1]))
        o = OrigChick((f.B[0], f.B[1], -f.A[1]))
        check("preset state " + cls_name, state(f), state(g), state(o))

    # --- 2. streaming with the state sizes chosen by __init__ ---------------
    # NB: len(A) == 1 is not streamed: with an empty feedback window the compiled
    # kernel writes out of bounds (pre-existing, unrelated to this edit).
    coeff_sets = [(np.asarray([1.0]), np.asarray([1.0, 0.0])),
                  (np.asarray([0.5, 0.25]), np.asarray([1.0, -0.5])),
                  (np.asarray([1.0, -1.0, 0.5]), np.asarray([2.0, 0.5])),
                  (np.asarray([0.25]), np.asarray([1.0, 0.3, -0.2, 0.1]))]
    for _ in range(8):
        nb, na = rng.randint(1, 6), rng.randint(2, 6)
        A = nprng.uniform(-0.4, 0.4, na)
        A[0] = rng.choice([1.0, 2.0, -1.5, 0.5])
        coeff_sets.append((nprng.uniform(-1, 1, nb), A))
    for ci, (B, A) in enumerate(coeff_sets):
        for n in range(1, 8):
            sig = nprng.standard_normal(n) * 1000
            for parts in compositions(n):
                blocks = [sig[s:e] for s, e in parts]
                check("iir compositions c%d n=%d %r" % (ci, n, parts),
                      *[stream(lambda cls=cls: cls(B.copy(), A.copy()), blocks) for cls in IIRS])
        for trial in range(12):
            n = rng.randint(8, 300)
            sig = (nprng.integers(-32768, 32768, size=n).astype(np.int16) if trial % 2
                   else nprng.standard_normal(n) * 1e4)
            cuts = sorted(set(rng.sample(range(1, n), rng.randint(0, 10))))
            edges = [0] + cuts + [n]
            blocks = [sig[s:e] for s, e in zip(edges, edges[1:])]
            ra = rng.choice([None, 0, len(blocks) - 1])
            check("iir random c%d t%d" % (ci, trial),
                  *[stream(lambda cls=cls: cls(B.copy(), A.copy()), blocks, ra) for cls in IIRS])
        # kernels refuse windows that do not match the state sizes: same refusal
        for bad in ("B", "A"):
            res = []
            for cls in IIRS:
                f = cls(B.copy(), A.copy())
                setattr(f, bad, np.concatenate([getattr(f, bad), [0.5]]))
                res.append((outcome(lambda: f.process(np.arange(4.0))), state(f)))
            check("iir mismatching %s c%d" % (bad, ci), *res)
    for B, A in [(np.zeros(0), np.asarray([1.0, 0.5])), (np.asarray([1.0]), np.zeros(0)), (np.zeros(0), np.zeros(0))]:
        check("iir empty coefficients", *[stream(lambda cls=cls: cls(B.copy(), A.copy()), [np.arange(3.0)])
                                          for cls in IIRS])

    hot = [(0.5923, 0.1516, 0.2560), (0.7071, 0.1213, 0.1716), (22082 / 32767, 4967 / 32767, 8411 / 32767),
           (1.5, 1.5, 0.9), (-1.5, -1.5, 0.9), (3.0, 0.0, -0.99), (100.0, -100.0, -1.0)]
    extremes = np.asarray([32767, -32768, 32767, 32767, -32768, 0, 1, -1], dtype=np.int16)
    for ci, c in enumerate(hot):
        for n in range(1, 8):
            sig = extremes[nprng.integers(0, len(extremes), size=n)]
            for parts in compositions(n):
                blocks = [sig[s:e] for s, e in parts]
                check("chick compositions c%d n=%d %r" % (ci, n, parts),
                      *[stream(lambda cls=cls: cls(c), blocks) for cls in CHICKS])
        for trial in range(12):
            n = rng.randint(8, 300)
            sig = (nprng.integers(-32768, 32768, size=n).astype(np.int16) if trial % 2
                   else extremes[nprng.integers(0, len(extremes), size=n)])
            cuts = sorted(set(rng.sample(range(1, n), rng.randint(0, 10))))
            edges = [0] + cuts + [n]
            blocks = [sig[s:e] for s, e in zip(edges, edges[1:])]
            ra = rng.choice([None, 0, len(blocks) - 1])
            check("chick random c%d t%d" % (ci, trial),
                  *[stream(lambda cls=cls: cls(c), blocks, ra) for cls in CHICKS])

    print("checks:", checks, "failures:", len(failures))
    return 1 if failures else 0


if __name__ == "__main__":
    sys.exit(main())
