"""Equivalence demo for r17: smpl_extract.util.stream.StreamWrapper.seek.

The if/elif ladder on `whence` became a `match` statement.  For
StreamWrapper and every subclass used in the project (StreamOffset,
StreamReversed, SectorStream, FileStream) a twin class is created whose
`seek` is an inline copy of the ORIGINAL method.  Random sequences of
seek / read / readall operations - with ordinary and odd `whence` and
`offset` values - are run on both, over complete and truncated backing data,
comparing return values, exceptions, position, true_size and the exact
order of calls made on the shared substream.  A two-level arrangement
(FileStream / SectorStream on top of a StreamOffset, as for an AKAI
partition) is included, where the inner seek is the one SectorStream's
_read_sector calls before every sector read.
Exit 0 when everything agrees, 1 otherwise.
"""
from io import BytesIO
from io import SEEK_CUR
from io import SEEK_END
from io import SEEK_SET
import random
import sys

from smpl_extract.util.fat import FileStream
from smpl_extract.util.sector import SectorStream
from smpl_extract.util.stream import StreamOffset
from smpl_extract.util.stream import StreamReversed
from smpl_extract.util.stream import StreamWrapper


# --------------------------------------------------------------------------
# ORIGINAL implementation (verbatim copy of the method)
# --------------------------------------------------------------------------
def seek_original(self, offset: int, whence: int = SEEK_CUR):
    starting_position = 0
    if whence == SEEK_CUR:
        starting_position = self.position
    elif whence == SEEK_END:
        starting_position = self.end_of_file

    new_position = starting_position + offset
    if new_position > self.end_of_file:
        new_position = self.end_of_file
    elif new_position < 0:
        new_position = 0

    self.true_size = 0
    self._seek(new_position)
    self.position = new_position
    return new_position


_twins = {}


def twin(cls):
    if cls not in _twins:
        assert "seek" not in vars(cls) or cls is StreamWrapper
        _twins[cls] = type(
            cls.__name__ + "Original", (cls,), {"seek": seek_original})
    return _twins[cls]


def same(cls):
    return cls


# --------------------------------------------------------------------------
# Instrumented shared substream
# --------------------------------------------------------------------------
class LoggedSubstream:
    def __init__(self, data, log):
        self.inner = BytesIO(data)
        self.log = log

    def seek(self, offset, whence=SEEK_SET):
        try:
            res = self.inner.seek(offset, whence)
        except BaseException as e:  # noqa
            self.log.append(("seek-exc", repr(offset), whence, type(e)))
            raise
        self.log.append(("seek", offset, whence, res))
        return res

    def tell(self):
        res = self.inner.tell()
        self.log.append(("tell", res))
        return res

    def read(self, size=-1):
        pos = self.inner.tell()
        res = self.inner.read(size)
        self.log.append(("read", size, pos, len(res)))
        return res


class OddWhence:
    """Compares equal to a chosen constant; not an int."""
    def __init__(self, value):
        self.value = value
        self.eq_calls = []

    def __eq__(self, other):
        self.eq_calls.append(other)
        return other == self.value

    def __hash__(self):
        return 0

    def __repr__(self):
        return f"OddWhence({self.value})"


class RaisingWhence:
    def __eq__(self, other):
        raise RuntimeError(f"compared with {other!r}")

    def __hash__(self):
        return 0

    def __repr__(self):
        return "RaisingWhence()"


rnd = random.Random(1715)

WHENCES = [SEEK_SET, SEEK_CUR, SEEK_END, SEEK_SET, SEEK_CUR, SEEK_END,
           "default", 3, 7, -1, True, False, 1.0, 2.0, 0.0, None, "1", (1,)]
OFFSETS = [0, 1, 2, 3, 4, 5, 8, 10, 16, 31, 32, 33, 50, 64, 65, 100, 1000,
           -1, -2, -4, -16, -33, -1000, 10**12, -10**12, True, 2.0, 2.5]
BAD_OFFSETS = [None, "3", b"\x01"]


def random_ops(n):
    ops = []
    for _ in range(n):
        r = rnd.random()
        if r < 0.55:
            ops.append(("seek", rnd.choice(OFFSETS), rnd.choice(WHENCES)))
        elif r < 0.58:
            ops.append(("seek", rnd.choice(BAD_OFFSETS), rnd.choice(WHENCES)))
        elif r < 0.62:
            ops.append(("seek_odd", rnd.choice(OFFSETS),
                        rnd.choice([0, 1, 2, 5])))
        elif r < 0.64:
            ops.append(("seek_raising", rnd.choice(OFFSETS)))
        elif r < 0.88:
            ops.append(("read", rnd.choice(
                [0, 1, 2, 3, 4, 5, 7, 8, 16, 31, 32, 33, 64, 100, 4096])))
        elif r < 0.92:
            ops.append(("read", rnd.choice([None, -1])))
        elif r < 0.95:
            ops.append(("tell",))
        else:
            ops.append(("poke_position", rnd.choice([-3, 0, 5, 70, 500])))
    return ops


def execute(make_stream, data, ops):
    log = []
    substream = LoggedSubstream(data, log)
    trace = []
    try:
        stream = make_stream(substream)
    except BaseException as e:  # noqa
        return [("ctor-exc", type(e), str(e))], log
    for op in ops:
        extra = None
        try:
            if op[0] == "seek":
                if op[2] == "default":
                    res = stream.seek(op[1])
                else:
                    res = stream.seek(op[1], op[2])
            elif op[0] == "seek_odd":
                whence = OddWhence(op[2])
                res = stream.seek(op[1], whence)
                extra = list(whence.eq_calls)
            elif op[0] == "seek_raising":
                res = stream.seek(op[1], RaisingWhence())
            elif op[0] == "read":
                res = stream.read(op[1])
            elif op[0] == "tell":
                res = stream.tell()
            else:
                stream.position = op[1]
                res = None
            out = ("ok", type(res), res, extra)
        except BaseException as e:  # noqa
            out = ("exc", type(e), str(e))
        trace.append((repr(op), out, repr(stream.position),
                      repr(stream.true_size), substream.inner.tell()))
    return trace, log


failures = 0
checks = 0
outcome_stats = {}


def compare(build, data, ops, label):
    """build(pick, substream) -> stream; pick maps a class to the class to
    instantiate (identity for the tree under test, twin for the original)."""
    global failures, checks
    a = execute(lambda s: build(twin, s), data, ops)
    b = execute(lambda s: build(same, s), data, ops)
    checks += 1
    for entry in b[0]:
        if len(entry) == 5:
            key = entry[1][0] if entry[1][0] == "ok" else entry[1][1].__name__
            outcome_stats[key] = outcome_stats.get(key, 0) + 1
    if a != b:
        failures += 1
        if failures <= 5:
            print("MISMATCH", label)
            for x, y in zip(a[0], b[0]):
                if x != y:
                    print("  original:", x)
                    print("  current :", y)
                    break
            else:
                for x, y in zip(a[1], b[1]):
                    if x != y:
                        print("  original log:", x)
                        print("  current  log:", y)
                        break


def main():
    full = bytes(rnd.randrange(256) for _ in range(256))
    datas = [full, full[:200], full[:129], full[:128], full[:64], full[:33],
             full[:5], b""]

    builders = []
    for size in (0, 1, 31, 64, 100, 256, 300):
        builders.append((
            f"StreamWrapper(size={size})",
            lambda pick, s, size=size: pick(StreamWrapper)(s, size)))
        for position in (0, 7):
            builders.append((
                f"StreamWrapper(size={size},position={position})",
                lambda pick, s, size=size, position=position:
                    pick(StreamWrapper)(s, size, position=position)))
    for size, offset in ((64, 0), (64, 16), (100, 33), (200, 100), (0, 8),
                         (32, 250)):
        builders.append((
            f"StreamOffset(size={size},offset={offset})",
            lambda pick, s, size=size, offset=offset:
                pick(StreamOffset)(s, size, offset)))
    for size, width in ((64, 1), (64, 2), (63, 2), (96, 3), (128, 4)):
        builders.append((
            f"StreamReversed(size={size},width={width})",
            lambda pick, s, size=size, width=width:
                pick(StreamReversed)(s, size, sample_width=width)))
    for size, sector in ((128, 16), (200, 32), (64, 64), (100, 7), (0, 16)):
        builders.append((
            f"SectorStream(size={size},sector={sector})",
            lambda pick, s, size=size, sector=sector:
                pick(SectorStream)(s, size, sector)))
    for sector, chain in ((16, [3, 1, 7, 2]), (32, [0, 5, 6]), (8, []),
                          (16, [15, 14, 40]), (64, [2, 1, 0])):
        builders.append((
            f"FileStream(sector={sector},chain={chain})",
            lambda pick, s, sector=sector, chain=chain:
                pick(FileStream)(s, sector, list(chain))))
    # two levels, as in an AKAI partition: the outer stream's _read_sector
    # seeks the inner StreamOffset (whence=SEEK_SET) before each sector
    for sector, chain, size, offset in ((16, [3, 1, 7, 2], 160, 32),
                                        (16, [0, 9, 4], 96, 100),
                                        (32, [1, 2, 3, 4], 256, 0)):
        builders.append((
            f"FileStream(sector={sector},chain={chain}) on "
            f"StreamOffset(size={size},offset={offset})",
            lambda pick, s, sector=sector, chain=chain, size=size,
            offset=offset: pick(FileStream)(
                pick(StreamOffset)(s, size, offset), sector, list(chain))))
        builders.append((
            f"SectorStream(sector={sector}) on "
            f"StreamOffset(size={size},offset={offset})",
            lambda pick, s, sector=sector, size=size, offset=offset:
                pick(SectorStream)(
                    pick(StreamOffset)(s, size, offset), size, sector)))
        builders.append((
            f"StreamReversed on StreamOffset(size={size},offset={offset})",
            lambda pick, s, size=size, offset=offset:
                pick(StreamReversed)(
                    pick(StreamOffset)(s, size, offset), size,
                    sample_width=2)))

    for label, build in builders:
        for data in datas:
            for _ in range(6):
                ops = random_ops(rnd.randrange(5, 40))
                compare(build, data, ops, f"{label} data={len(data)}")

    # exhaustive small sweep: every whence x offset from every position
    for whence in WHENCES:
        for offset in OFFSETS + BAD_OFFSETS:
            for start in (0, 1, 50, 99, 100):
                ops = [("seek", start, SEEK_SET), ("seek", offset, whence),
                       ("read", 4), ("tell",)]
                compare(lambda pick, s: pick(StreamWrapper)(s, 100),
                        full, ops, f"sweep whence={whence!r} offset={offset!r}")
                compare(lambda pick, s: pick(StreamOffset)(s, 100, 20),
                        full[:90], ops,
                        f"sweep/offset whence={whence!r} offset={offset!r}")

    # end_of_file that is not an int (None is a documented possibility in read)
    for eof in (None, 0, -5):
        ops = [("seek", 3, SEEK_SET), ("seek", 2, SEEK_CUR),
               ("seek", -1, SEEK_END), ("seek", 1, 9), ("read", 4)]
        compare(lambda pick, s, eof=eof: pick(StreamWrapper)(s, eof),
                full, ops, f"end_of_file={eof!r}")

    print(f"{checks} scenario comparisons, {failures} mismatches")
    print("outcomes seen:", dict(sorted(outcome_stats.items())))
    needed = {"ok", "TypeError", "RuntimeError"}
    if not needed <= set(outcome_stats):
        print("demo did not reach all expected outcome kinds")
        return 1
    return 1 if failures else 0


if __name__ == "__main__":
    sys.exit(main())
