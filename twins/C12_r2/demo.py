"""Equivalence demo for r2: swap_endianess_multi (byte-order steps).
1. Direct comparison with an inline copy of the ORIGINAL function (values,
   dtype, object identity of untouched channels, zip truncation, exceptions).
2. End-to-end: make_transcoder() on mixed-endian sources (host byte order
   patched both ways) compared with an independent pure-Python reference.
Exit 0 = all agree.
"""
from io import BytesIO
import itertools
import random
import sys
from typing import List
from unittest.mock import patch

import numpy as np

from smpl_extract import transcoder as T
from smpl_extract.data_streams import DataStream
from smpl_extract.data_streams import Endianess
from smpl_extract.data_streams import StreamEncoding


# ---------------------------------------------------------------- original
def orig_swap_endianess_multi(
        channels: List[np.ndarray],
        swaps: List[bool]
) -> List[np.ndarray]:
    result_channels = []
    for channel, swap in zip(channels, swaps):
        if swap:
            result_channels.append(channel.byteswap())
            continue
        result_channels.append(channel)
    return result_channels


failures = 0
cases = 0


def fail(*msg):
    global failures
    failures += 1
    if failures <= 5:
        print("MISMATCH", *msg)


def call(fn, channels, swaps):
    try:
        res = fn(channels, swaps)
    except Exception as e:  # noqa: BLE001
        return ("exc", type(e).__name__, str(e))
    desc = []
    for r in res:
        same_as = [i for i, c in enumerate(channels) if r is c]
        if isinstance(r, np.ndarray):
            desc.append((r.dtype.str, r.shape, r.tobytes(), same_as))
        else:
            desc.append((repr(r), same_as))
    return ("ok", type(res).__name__, desc)


rng = random.Random(1202)
dtypes = ("int8", "uint8", "int16", "uint16", "int32", "<i2", ">i2", ">i4",
          "int64", "float32")

# ---- 1. direct comparison
truthy_falsy = (True, False, 0, 1, 2, None, "", "x", [], [0], np.bool_(True),
                np.bool_(False), 0.0)
for _ in range(4000):
    n = rng.randint(0, 6)
    channels = [
        np.array([rng.randrange(0, 128) for _ in range(rng.randint(0, 9))],
                 dtype=rng.choice(dtypes))
        for _ in range(n)
    ]
    m = rng.choice((n, n, n, max(0, n - 1), n + 1, 0))
    swaps = [rng.choice(truthy_falsy) for _ in range(m)]
    cases += 1
    a = call(orig_swap_endianess_multi, channels, swaps)
    b = call(T.swap_endianess_multi, channels, swaps)
    if a != b:
        fail("direct", n, swaps)

# exhaustive flag patterns for up to 5 channels
for n in range(0, 6):
    for flags in itertools.product((False, True), repeat=n):
        channels = [np.arange(i, i + 4, dtype="int16") * 257 for i in range(n)]
        cases += 1
        if call(orig_swap_endianess_multi, channels, list(flags)) != \
                call(T.swap_endianess_multi, channels, list(flags)):
            fail("flags", flags)

# error paths: a flagged element without byteswap(), non-iterables
for channels, swaps in (
        ([1, 2], [False, True]),
        ([np.zeros(2, "int16"), "abc"], [True, True]),
        (None, [True]),
        ([np.zeros(1, "int16")], None),
        ([np.zeros(1, "int16")], 5),
):
    cases += 1
    if call(orig_swap_endianess_multi, channels, swaps) != \
            call(T.swap_endianess_multi, channels, swaps):
        fail("error path", channels, swaps)


# ---- 2. end to end against an independent reference
def reference(specs, width, signed, dest_order_big):
    """specs: list of (data, big_endian, num_channels). Returns the expected
    interleaved output restricted to the shortest source (whole blocks are
    what the transcoder yields, so compare only the guaranteed prefix)."""
    per_channel = []
    for data, big, nch in specs:
        fs = width * nch
        nframes = len(data) // fs
        for c in range(nch):
            vals = []
            for f in range(nframes):
                off = f * fs + c * width
                vals.append(data[off:off + width][::-1] if big
                            else data[off:off + width])
            per_channel.append(vals)
    shortest = min(len(v) for v in per_channel)
    out = bytearray()
    for f in range(shortest):
        for v in per_channel:
            out += v[f][::-1] if dest_order_big else v[f]
    return bytes(out), shortest


def run_e2e(specs, width, signed, dest_order, host_order):
    streams = [
        DataStream(BytesIO(data),
                   StreamEncoding(Endianess.BIG if big else Endianess.LITTLE,
                                  width, nch, signed))
        for data, big, nch in specs
    ]
    total = sum(nch for _, _, nch in specs)
    dest = StreamEncoding(dest_order, width, total, signed)
    with patch.object(T, "system_byte_order", host_order):
        tr = T.make_transcoder(streams, dest)
        names = None
        if isinstance(tr, T.PipelineTranscoder):
            names = [p[0] for p in tr.pipeline.processes]
        return b"".join(tr), names


for _ in range(1200):
    width = rng.choice((1, 2, 4))
    signed = rng.random() < 0.7
    nstreams = rng.randint(1, 3)
    equal = rng.random() < 0.5
    nframes_eq = rng.randint(0, 40)
    specs = []
    for _i in range(nstreams):
        nch = rng.randint(1, 3)
        nframes = nframes_eq if equal else rng.randint(0, 40)
        # a trailing partial frame (only possible when a frame is > 1 byte)
        extra = rng.choice((0, 0, 1)) if nch * width > 1 else 0
        nbytes = nframes * nch * width + extra
        specs.append((bytes(rng.randrange(256) for _ in range(nbytes)),
                      rng.random() < 0.5, nch))
    dest_order = rng.choice((Endianess.LITTLE, Endianess.BIG))
    for host in (Endianess.LITTLE, Endianess.BIG):
        cases += 1
        got, names = run_e2e(specs, width, signed, dest_order, host)
        exp, shortest = reference(specs, width, signed,
                                  dest_order == Endianess.BIG)
        if got[:len(exp)] != exp:
            fail("e2e", [(len(d), b, n) for d, b, n in specs], width,
                 dest_order, host, names)
        if equal and len(got) != len(exp):
            fail("e2e length", len(got), len(exp))

print(f"{cases} cases, {failures} mismatches")
sys.exit(1 if failures else 0)
