"""Equivalence demo for r18: WavFormatChunkStruct (smpl_extract/formats/wav.py)
- the Rebuild callbacks that derive byte_rate and block_align of the fmt chunk.

An inline copy of the ORIGINAL declaration (construct `this` expression
objects) is compared with the struct exported by the tree:
 1. the two Rebuild callbacks are fetched from the tree's struct and called
    directly with (a) plain dict / Container contexts over a large grid of
    channel_cnt x sample_rate x bits_per_sample, (b) contexts with missing
    keys, None, floats, strings, bools, (c) a logging context whose lookups
    are recorded and whose values record every arithmetic operation, so the
    ORDER of lookups and operations is compared too;
 2. WavFormatChunkStruct.build / parse / sizeof over the grid, including
    values that overflow the 16/32-bit fields, given-but-ignored byte_rate /
    block_align values, malformed objects -> same bytes or same exception;
 3. the whole RIFF chain rebuilt around the original fmt struct: export_wav
    files compared byte for byte and checked with an independent RIFF walker
    (block align = channels x 2, byte rate = rate x block align, 16 bits).
Exit 0 when everything agrees, 1 otherwise.
"""
import io
import itertools
import os
import shutil
import struct
import sys
import tempfile

from construct.core import Const
from construct.core import GreedyRange
from construct.core import Int16ul
from construct.core import Int32ul
from construct.core import Prefixed
from construct.core import Rebuild
from construct.core import Struct
from construct.core import Switch
from construct.expr import this
from construct.lib.containers import Container

from smpl_extract.data_streams import DataStream
from smpl_extract.data_streams import Endianess
from smpl_extract.data_streams import StreamEncoding
from smpl_extract.formats import wav as fw
from smpl_extract.formats.wav import WavDataChunkStruct
from smpl_extract.formats.wav import WavFormatChunkContainer
from smpl_extract.formats.wav import WavRiffChunkType
from smpl_extract.formats.wav import WavSampleChunkStruct
from smpl_extract.generalized import wav as gw
from smpl_extract.generalized.sample import LoopRegion
from smpl_extract.generalized.sample import Sample
from smpl_extract.midi import MidiNote


# ---- verbatim copy of the original declaration ---------------------------
OrigWavFormatChunkStruct = Struct(
    "audio_format"      / Int16ul,
    "channel_cnt"       / Int16ul,
    "sample_rate"       / Int32ul,
    "byte_rate"         / Rebuild(
        Int32ul,
        this.sample_rate * this.channel_cnt * this.bits_per_sample//8
    ),
    "block_align"       / Rebuild(
        Int16ul,
        this.channel_cnt * this.bits_per_sample//8
    ),
    "bits_per_sample"   / Int16ul
)
# -------------------------------------------------------------------------

failures = []
checks = 0


def check(cond, msg):
    global checks
    checks += 1
    if not cond:
        failures.append(msg)
        if len(failures) <= 20:
            print("MISMATCH:", msg[:300])


def outcome(f):
    try:
        r = f()
        return ("ok", type(r).__name__, r)
    except Exception as e:  # noqa: BLE001
        return ("exc", type(e).__name__, str(e))


def funcs(st):
    by_name = {sc.name: sc for sc in st.subcons}
    return by_name["byte_rate"].subcon.func, by_name["block_align"].subcon.func


NEW_BYTE_RATE, NEW_BLOCK_ALIGN = funcs(fw.WavFormatChunkStruct)
OLD_BYTE_RATE, OLD_BLOCK_ALIGN = funcs(OrigWavFormatChunkStruct)

# ---- declaration shape ---------------------------------------------------
for a, b in zip(fw.WavFormatChunkStruct.subcons,
                OrigWavFormatChunkStruct.subcons):
    check((a.name, type(a).__name__, type(a.subcon).__name__,
           a.flagbuildnone, a.docs)
          == (b.name, type(b).__name__, type(b.subcon).__name__,
              b.flagbuildnone, b.docs), "field %s differs" % b.name)
    if isinstance(b.subcon, Rebuild):
        check(a.subcon.subcon is b.subcon.subcon,
              "Rebuild of %s wraps another integer type" % b.name)
        check(callable(a.subcon.func), "func of %s not callable" % b.name)
    else:
        check(a.subcon is b.subcon, "type of %s differs" % b.name)
check(len(fw.WavFormatChunkStruct.subcons) == 6, "field count")
check(outcome(fw.WavFormatChunkStruct.sizeof)
      == outcome(OrigWavFormatChunkStruct.sizeof) == ("ok", "int", 16),
      "sizeof")

# ---- 1a. callbacks on a grid --------------------------------------------
CHANNELS = [0, 1, 2, 3, 4, 6, 8, 255, 256, 65535]
RATES = [0, 1, 7, 4000, 8000, 11025, 22050, 32000, 44100, 48000, 88200,
         96000, 192000, 65535, 65536, 2**31 - 1, 2**31, 2**32 - 1]
BITS = [0, 1, 7, 8, 9, 12, 15, 16, 17, 20, 24, 32, 64, 65535]
for c, r, b in itertools.product(CHANNELS, RATES, BITS):
    for ctx in (dict(channel_cnt=c, sample_rate=r, bits_per_sample=b),
                Container(channel_cnt=c, sample_rate=r, bits_per_sample=b)):
        x, y = outcome(lambda: NEW_BYTE_RATE(ctx)), \
            outcome(lambda: OLD_BYTE_RATE(ctx))
        check(x == y == ("ok", "int", r * c * b // 8),
              "byte_rate(%d,%d,%d)" % (c, r, b))
        x, y = outcome(lambda: NEW_BLOCK_ALIGN(ctx)), \
            outcome(lambda: OLD_BLOCK_ALIGN(ctx))
        check(x == y == ("ok", "int", c * b // 8),
              "block_align(%d,%d,%d)" % (c, r, b))

# ---- 1b. odd contexts ----------------------------------------------------
ODD = [None, 1.5, -3, True, "ab", b"x", [1], (2,), 2.0, float("inf"),
       float("nan"), -0.0, 10**30, 3 + 0j]
KEYS = ("sample_rate", "channel_cnt", "bits_per_sample")
for key in KEYS:
    for val in ODD:
        ctx = dict(channel_cnt=2, sample_rate=44100, bits_per_sample=16)
        ctx[key] = val
        for new, old in ((NEW_BYTE_RATE, OLD_BYTE_RATE),
                         (NEW_BLOCK_ALIGN, OLD_BLOCK_ALIGN)):
            x, y = outcome(lambda: new(ctx)), outcome(lambda: old(ctx))
            # nan != nan, compare through repr
            check(repr(x) == repr(y),
                  "odd value %r for %s: %r vs %r" % (val, key, x, y))
    for drop in itertools.chain.from_iterable(
            itertools.combinations(KEYS, n) for n in (1, 2, 3)):
        for make in (dict, Container):
            ctx = make(channel_cnt=2, sample_rate=44100, bits_per_sample=16)
            for k in drop:
                del ctx[k]
            for new, old in ((NEW_BYTE_RATE, OLD_BYTE_RATE),
                             (NEW_BLOCK_ALIGN, OLD_BLOCK_ALIGN)):
                x, y = outcome(lambda: new(ctx)), outcome(lambda: old(ctx))
                check(x == y and x[0] == "exc" or x == y,
                      "missing %r: %r vs %r" % (drop, x, y))
for ctx in (None, 5, [], "ctx", object()):
    for new, old in ((NEW_BYTE_RATE, OLD_BYTE_RATE),
                     (NEW_BLOCK_ALIGN, OLD_BLOCK_ALIGN)):
        x, y = outcome(lambda: new(ctx)), outcome(lambda: old(ctx))
        check(x[:2] == y[:2], "non mapping context %r: %r vs %r" % (ctx, x, y))


# ---- 1c. order of lookups and operations ---------------------------------
class Traced:
    def __init__(self, name, value, log, fail_on=None):
        self.name, self.value, self.log, self.fail_on = \
            name, value, log, fail_on

    def _op(self, opname, other, f):
        oname = other.name if isinstance(other, Traced) else repr(other)
        oval = other.value if isinstance(other, Traced) else other
        self.log.append((opname, self.name, oname))
        if self.fail_on == opname:
            raise ArithmeticError("boom in %s of %s" % (opname, self.name))
        return Traced("(%s %s %s)" % (self.name, opname, oname),
                      f(self.value, oval), self.log, self.fail_on)

    def __mul__(self, other):
        return self._op("*", other, lambda a, b: a * b)

    def __rmul__(self, other):
        return self._op("r*", other, lambda a, b: b * a)

    def __floordiv__(self, other):
        return self._op("//", other, lambda a, b: a // b)

    def __rfloordiv__(self, other):
        return self._op("r//", other, lambda a, b: b // a)


class LoggingContext(dict):
    def __init__(self, log, **kw):
        super().__init__(**kw)
        self.log = log

    def __getitem__(self, key):
        self.log.append(("get", key))
        return super().__getitem__(key)

    def __getattr__(self, key):
        self.log.append(("getattr", key))
        raise AttributeError(key)


def traced_run(func, fail_on, traced_keys, missing):
    log = []
    values = dict(channel_cnt=2, sample_rate=44100, bits_per_sample=16)
    ctx = LoggingContext(log)
    for k, v in values.items():
        if k in missing:
            continue
        dict.__setitem__(
            ctx, k, Traced(k, v, log, fail_on) if k in traced_keys else v)
    try:
        r = func(ctx)
        res = ("ok", r.name if isinstance(r, Traced) else None,
               r.value if isinstance(r, Traced) else r)
    except Exception as e:  # noqa: BLE001
        res = ("exc", type(e).__name__, str(e))
    return res, log


for fail_on, n_traced, missing in itertools.product(
        (None, "*", "r*", "//"), range(4), [()] + [(k,) for k in KEYS]):
    for traced_keys in itertools.combinations(KEYS, n_traced):
        for new, old in ((NEW_BYTE_RATE, OLD_BYTE_RATE),
                         (NEW_BLOCK_ALIGN, OLD_BLOCK_ALIGN)):
            x = traced_run(new, fail_on, traced_keys, missing)
            y = traced_run(old, fail_on, traced_keys, missing)
            check(x == y, "trace differs (fail_on=%r traced=%r missing=%r):"
                  " %r vs %r" % (fail_on, traced_keys, missing, x, y))
res, log = traced_run(NEW_BYTE_RATE, None, KEYS, ())
check([e for e in log if e[0] == "get"]
      == [("get", "sample_rate"), ("get", "channel_cnt"),
          ("get", "bits_per_sample")], "lookup order of byte_rate")
check(res == ("ok", "(((sample_rate * channel_cnt) * bits_per_sample) // 8)",
              176400), "byte_rate expression tree: %r" % (res,))


# ---- 2. struct build / parse ---------------------------------------------
def compare_build(label, make_obj):
    x = outcome(lambda: fw.WavFormatChunkStruct.build(make_obj()))
    y = outcome(lambda: OrigWavFormatChunkStruct.build(make_obj()))
    check(x == y, "build differs for %s: %r vs %r" % (label, x, y))
    if x[0] == "ok" and x == y:
        raw = x[2]
        p = outcome(lambda: dict(
            (k, v) for k, v in fw.WavFormatChunkStruct.parse(raw).items()
            if k != "_io"))
        q = outcome(lambda: dict(
            (k, v) for k, v in OrigWavFormatChunkStruct.parse(raw).items()
            if k != "_io"))
        check(p == q and list(p[2]) == list(q[2]), "parse differs: " + label)
    return x


for c, r, b in itertools.product(CHANNELS, RATES, BITS):
    res = compare_build(
        "grid (%d,%d,%d)" % (c, r, b),
        lambda: WavFormatChunkContainer(
            audio_format=1, channel_cnt=c, sample_rate=r, bits_per_sample=b))
    fits = r * c * b // 8 < 2**32 and c * b // 8 < 2**16
    check((res[0] == "ok") == fits, "overflow behaviour (%d,%d,%d)" % (c, r, b))
    if res[0] == "ok":
        f = struct.unpack("<HHIIHH", res[2])
        check(f == (1, c, r, r * c * b // 8, c * b // 8, b),
              "field values (%d,%d,%d)" % (c, r, b))

compare_build("given values are ignored", lambda: dict(
    audio_format=1, channel_cnt=2, sample_rate=48000, byte_rate=1,
    block_align=99, bits_per_sample=16))
compare_build("plain dict", lambda: dict(
    audio_format=1, channel_cnt=2, sample_rate=48000, bits_per_sample=16))
for drop in ("audio_format", "channel_cnt", "sample_rate", "bits_per_sample"):
    def make(drop=drop):
        d = dict(audio_format=1, channel_cnt=2, sample_rate=48000,
                 bits_per_sample=16)
        del d[drop]
        return d
    compare_build("missing " + drop, make)
    for val in ODD:
        def make2(drop=drop, val=val):
            d = dict(audio_format=1, channel_cnt=2, sample_rate=48000,
                     bits_per_sample=16)
            d[drop] = val
            return d
        x = outcome(lambda: fw.WavFormatChunkStruct.build(make2()))
        y = outcome(lambda: OrigWavFormatChunkStruct.build(make2()))
        check(repr(x) == repr(y),
              "odd %r in %s: %r vs %r" % (val, drop, x, y))
compare_build("None", lambda: None)
compare_build("empty", lambda: {})
compare_build("default container", lambda: WavFormatChunkContainer())
for raw in (b"", b"\x01" * 15, b"\x01" * 16, b"\xff" * 40,
            struct.pack("<HHIIHH", 1, 2, 44100, 3, 5, 16)):
    def parsed(st):
        return outcome(lambda: [
            (k, v) for k, v in st.parse(raw).items() if k != "_io"])
    check(parsed(fw.WavFormatChunkStruct) == parsed(OrigWavFormatChunkStruct),
          "parse of %r" % raw)


# ---- 3. whole files ------------------------------------------------------
OrigWavRiffChunkStruct = Struct(
    "riff_id"   / WavRiffChunkType,
    "data"      / Prefixed(Int32ul,
        Switch(this.riff_id, {
            WavRiffChunkType.FMT:  OrigWavFormatChunkStruct,
            WavRiffChunkType.SMPL: WavSampleChunkStruct,
            WavRiffChunkType.DATA: WavDataChunkStruct
        })
    )
)
OrigRiffStruct = Struct(
    "fourcc"    / Const(b"RIFF"),
    "data"      / Prefixed(Int32ul, Struct(
        "fourcc"    / Const(b"WAVE"),
        "chunks"    / GreedyRange(OrigWavRiffChunkStruct)
    )),
)
OrigBuilder = gw.WavSampleAdapter(OrigRiffStruct)


def pcm(n, seed):
    return bytes((seed * 31 + i * 7) % 256 for i in range(n))


def make_sample(channels, rate, num_frames, with_smpl, streams):
    data_streams = []
    if streams == 1:
        data_streams.append(DataStream(
            io.BytesIO(pcm(2 * channels * num_frames + 1, 3)),
            StreamEncoding(Endianess.LITTLE, 2, channels, True)))
    else:
        for k in range(channels):
            data_streams.append(DataStream(
                io.BytesIO(pcm(2 * (num_frames + k), 5 + k)),
                StreamEncoding(Endianess.BIG, 2, 1, True)))
    return Sample(
        name="s", sample_rate=rate, num_channels=channels,
        data_streams=data_streams,
        loop_regions=[LoopRegion(1, 9)] if with_smpl else [],
        midi_note=MidiNote.from_midi_byte(61) if with_smpl else None)


tmp_dir = tempfile.mkdtemp(prefix="r18_demo_")
try:
    n = 0
    for channels, rate, num_frames, with_smpl, streams in itertools.product(
            (1, 2), (0, 1, 4000, 22050, 44100, 48000, 96000, 2**30,
                     2**32 - 1, 2**32),
            (0, 3, 2048, 3000), (False, True), (1, 2)):
        if streams == 2 and channels == 1:
            continue
        n += 1
        path = os.path.join(tmp_dir, "f%d.wav" % n)
        x = outcome(lambda: gw.export_wav(
            make_sample(channels, rate, num_frames, with_smpl, streams), path))
        raw = open(path, "rb").read()
        sink = io.BytesIO()
        y = outcome(lambda: OrigBuilder.build_stream(
            make_sample(channels, rate, num_frames, with_smpl, streams), sink))
        check(x[0] == y[0] and (x[0] == "ok" or x == y),
              "export outcome for file %d: %r vs %r" % (n, x, y))
        check(raw == sink.getvalue(), "bytes differ for file %d" % n)
        if x[0] == "ok":
            check(raw[12:20] == b"fmt \x10\x00\x00\x00", "fmt header %d" % n)
            f = struct.unpack("<HHIIHH", raw[20:36])
            check(f[0] == 1 and f[1] == channels and f[2] == rate
                  and f[4] == channels * 2 and f[3] == rate * f[4]
                  and f[5] == 16, "fmt fields of file %d: %r" % (n, f))
            check(struct.unpack("<I", raw[4:8])[0] == len(raw) - 8,
                  "riff size of file %d" % n)
finally:
    shutil.rmtree(tmp_dir, ignore_errors=True)

print("%d checks, %d failures" % (checks, len(failures)))
sys.exit(1 if failures else 0)
