"""Equivalence demo for decode_frame (smpl_extract/transcoder.py).

decode_frame is the function that reads ONE block from each source stream in
turn (left, right, left, right ... during a stereo export) and splits every
block into per-channel sample arrays.

The live function is compared with a verbatim copy of the ORIGINAL one:

 1. pure decoding on in-memory streams: 8/16/32/64 bit, signed / unsigned,
    mono, 2-4 interleaved channels, num_interleaved_channels 0, sample width 3
    (falls back to the default dtype), block sizes 0, 1, not a multiple of the
    frame, larger than the stream, exhausted streams, more sizes than streams
    and the reverse, streams whose read() returns None / short blocks / str:
    per returned array dtype, shape, bytes, writeable flag - or exception type
    and text;
 2. order of side effects: recording stand-ins log every access to
    encoding.dtype, encoding.num_interleaved_channels, frame_size and every
    read; the logs of both implementations must be identical, also when a
    stream raises in the middle of the frame;
 3. several streams (windows, nested windows, fragmented sector files) over
    ONE traced handle, decoded frame after frame until exhaustion: arrays and
    the complete seek/tell/read trace of the handle;
 4. two stereo exports sharing the handle, their decode_frame calls
    interleaved exhaustively (2 exports x 3 frames) and randomly with random
    block sizes: per stream the concatenated samples must equal those of the
    original, those of an isolated sequential read and an independent oracle.
Exit 0 when everything agrees, 1 otherwise.
"""
import io
import itertools
import random
import sys
from typing import List

import numpy as np

from smpl_extract.data_streams import DataStream
from smpl_extract.data_streams import Endianess
from smpl_extract.data_streams import StreamEncoding
from smpl_extract.transcoder import decode_frame
from smpl_extract.transcoder import resize_buffer
from smpl_extract.util.fat import FileStream
from smpl_extract.util.stream import StreamOffset
from smpl_extract.util.stream import StreamWrapper


def orig_decode_frame(
        streams: List[DataStream],
        buffer_sizes: List[int]
) -> List[np.ndarray]:

    channels: List[np.ndarray] = []

    for stream, size in zip(streams, buffer_sizes):
        dtype = stream.encoding.dtype
        num_channels = max(1, stream.encoding.num_interleaved_channels)
        buffer = stream.stream.read(size)
        buffer = resize_buffer(buffer, stream.frame_size)

        if buffer is None or len(buffer) <= 0:
            for i in range(num_channels):
                channels.append(np.zeros(0, dtype=dtype))
            continue

        samples_interleaved: np.ndarray = np.frombuffer(buffer, dtype=dtype)
        samples = [samples_interleaved]
        if num_channels > 1:
            samples_arr = samples_interleaved.reshape((-1, num_channels)).T
            samples = list(samples_arr)

        channels += samples

    return channels


IMPLEMENTATIONS = (decode_frame, orig_decode_frame)
FAILURES = []


def check(condition, label):
    if not condition:
        FAILURES.append(label)
        if len(FAILURES) <= 20:
            print("MISMATCH:", label)


def describe(arrays):
    return (
        type(arrays).__name__,
        [
            (type(a).__name__, str(a.dtype), a.shape, a.tobytes(),
             bool(a.flags.writeable), bool(a.flags.c_contiguous))
            for a in arrays
        ]
    )


def outcome(f, *args):
    try:
        return ("ok", describe(f(*args)))
    except Exception as e:  # noqa - every exception is part of the behaviour
        return ("exc", type(e).__name__, str(e))


def make_data(n, seed):
    return random.Random(seed).randbytes(n)


# ---------------------------------------------------------------- part 1
class OddStream:
    """read() returns whatever it was told to."""

    def __init__(self, answers):
        self.answers = list(answers)
        self.calls = []

    def read(self, size):
        self.calls.append(size)
        return self.answers.pop(0) if self.answers else b""


def part_pure():
    count = 0
    encodings = []
    for width in (1, 2, 3, 4, 8):
        for channels in (0, 1, 2, 3, 4):
            for signed in (True, False):
                encodings.append(StreamEncoding(Endianess.LITTLE, width, channels, signed))
    encodings.append(StreamEncoding(Endianess.BIG, 2, 2, True))

    rng = random.Random(1)
    # one stream, many sizes and stream lengths
    for encoding in encodings:
        frame = encoding.num_interleaved_channels * encoding.sample_width
        for data_len in (0, 1, 5, 24, 48, 50):
            for size in (0, 1, frame, frame + 1, 3 * frame, 24, 25, 100):
                for start in (0, 7):
                    results = []
                    for f in IMPLEMENTATIONS:
                        raw = io.BytesIO(make_data(data_len, data_len))
                        raw.seek(start)
                        stream = DataStream(raw, encoding)
                        first = outcome(f, [stream], [size])
                        second = outcome(f, [stream], [size])
                        results.append((first, second, raw.tell()))
                    check(results[0] == results[1],
                          f"pure {encoding} len={data_len} size={size} start={start}")
                    count += 1

    # several streams, list length mismatches
    for _ in range(400):
        k = rng.randrange(0, 4)
        chosen = [rng.choice(encodings) for _ in range(k)]
        lengths = [rng.choice((0, 3, 48, 96, 200)) for _ in range(k)]
        sizes = [rng.choice((0, 1, 12, 24, 48, 64)) for _ in range(rng.choice((k, k, k + 1, max(0, k - 1))))]
        results = []
        for f in IMPLEMENTATIONS:
            streams = [
                DataStream(io.BytesIO(make_data(n, i)), e)
                for i, (n, e) in enumerate(zip(lengths, chosen))
            ]
            frames = [outcome(f, streams, sizes) for _ in range(3)]
            results.append((frames, [s.stream.tell() for s in streams]))
        check(results[0] == results[1], f"multi {chosen} {lengths} {sizes}")
        count += 1

    # streams with unusual read() results
    odd_answers = [
        [None], [b""], [b"\x01"], [b"\x01\x02\x03"], [b"\x01\x02\x03\x04\x05"],
        ["text"], [bytearray(b"\x01\x02\x03\x04")], [memoryview(b"\x01\x02\x03\x04\x05\x06")],
        [b"\x00" * 8, None], [12345],
    ]
    for answers in odd_answers:
        for encoding in (StreamEncoding(Endianess.LITTLE, 2, 1, True),
                         StreamEncoding(Endianess.LITTLE, 2, 2, True),
                         StreamEncoding(Endianess.LITTLE, 1, 0, False),
                         StreamEncoding(Endianess.LITTLE, 3, 2, True)):
            results = []
            for f in IMPLEMENTATIONS:
                odd = OddStream(answers)
                stream = DataStream(odd, encoding)  # type: ignore
                results.append(([outcome(f, [stream], [4]) for _ in range(2)], odd.calls))
            check(results[0] == results[1], f"odd read {answers!r} {encoding}")
            count += 1
    return count


# ---------------------------------------------------------------- part 2
class RecordingEncoding:
    def __init__(self, log, name, encoding):
        self._log, self._name, self._encoding = log, name, encoding

    @property
    def dtype(self):
        self._log.append((self._name, "dtype"))
        return self._encoding.dtype

    @property
    def num_interleaved_channels(self):
        self._log.append((self._name, "num_interleaved_channels"))
        return self._encoding.num_interleaved_channels


class RecordingRaw:
    def __init__(self, log, name, data, fail_at=None):
        self._log, self._name, self._raw, self._fail_at = log, name, io.BytesIO(data), fail_at
        self._reads = 0

    def read(self, size):
        self._log.append((self._name, "read", size))
        self._reads += 1
        if self._fail_at == self._reads:
            raise OSError(f"{self._name} broke")
        return self._raw.read(size)


class RecordingDataStream:
    def __init__(self, log, name, data, encoding, fail_at=None):
        self._log, self._name = log, name
        self._encoding = RecordingEncoding(log, name, encoding)
        self._stream = RecordingRaw(log, name, data, fail_at)
        self._frame_size = encoding.num_interleaved_channels * encoding.sample_width

    @property
    def encoding(self):
        self._log.append((self._name, "encoding"))
        return self._encoding

    @property
    def stream(self):
        self._log.append((self._name, "stream"))
        return self._stream

    @property
    def frame_size(self):
        self._log.append((self._name, "frame_size"))
        return self._frame_size


def part_order():
    count = 0
    rng = random.Random(9)
    encodings = [
        StreamEncoding(Endianess.LITTLE, 2, 1, True),
        StreamEncoding(Endianess.LITTLE, 2, 2, True),
        StreamEncoding(Endianess.LITTLE, 1, 3, False),
        StreamEncoding(Endianess.LITTLE, 4, 0, True),
    ]
    for _ in range(300):
        k = rng.randrange(1, 4)
        spec = [
            (rng.choice(encodings), rng.choice((0, 10, 48, 100)),
             rng.choice((None, None, None, 1, 2)))
            for _ in range(k)
        ]
        sizes = [rng.choice((0, 5, 12, 24, 48)) for _ in range(k)]
        results = []
        for f in IMPLEMENTATIONS:
            log = []
            streams = [
                RecordingDataStream(log, f"s{i}", make_data(n, i), e, fail)
                for i, (e, n, fail) in enumerate(spec)
            ]
            frames = [outcome(f, streams, sizes) for _ in range(3)]
            results.append((frames, log))
        check(results[0] == results[1], f"order {spec} {sizes}")
        count += 1
    return count


# ---------------------------------------------------------------- parts 3, 4
class TracedBytesIO(io.BytesIO):
    def __init__(self, data):
        super().__init__(data)
        self.trace = []

    def seek(self, offset, whence=0):
        result = super().seek(offset, whence)
        self.trace.append(("seek", offset, whence, result))
        return result

    def tell(self):
        result = super().tell()
        self.trace.append(("tell", result))
        return result

    def read(self, size=-1):
        result = super().read(size)
        self.trace.append(("read", size, bytes(result)))
        return result


IMAGE = make_data(4096, 2024)
SECTOR = 64
MONO16 = StreamEncoding(Endianess.LITTLE, 2, 1, True)
STEREO16 = StreamEncoding(Endianess.LITTLE, 2, 2, True)
MONO8 = StreamEncoding(Endianess.LITTLE, 1, 1, False)
# name -> (builder, encoding, oracle bytes)
PARTITION = (512, 3072)  # window shared by the sector files
LEFT_SECTORS = [3, 9, 4, 20, 5]
RIGHT_SECTORS = [30, 6, 31, 7, 8]


def sectors_bytes(sectors):
    base = PARTITION[0]
    return b"".join(IMAGE[base + s * SECTOR: base + (s + 1) * SECTOR] for s in sectors)


def build_streams(handle):
    """Two exports: A = fragmented left/right sector files in one partition
    window; B = a window with interleaved stereo and a nested mono window."""
    partition = StreamOffset(handle, PARTITION[1], PARTITION[0])
    left = FileStream(partition, SECTOR, LEFT_SECTORS)
    right = FileStream(partition, SECTOR, RIGHT_SECTORS)
    stereo = StreamOffset(handle, 400, 100)
    outer = StreamOffset(handle, 1000, 3000)
    inner = StreamWrapper(StreamOffset(outer, 300, 50), 250)
    export_a = [DataStream(left, MONO16), DataStream(right, MONO16)]
    export_b = [DataStream(stereo, STEREO16), DataStream(inner, MONO8)]
    return [export_a, export_b]


ORACLES = [
    [sectors_bytes(LEFT_SECTORS), sectors_bytes(RIGHT_SECTORS)],
    [IMAGE[100:500], IMAGE[3050:3300]],
]


def split_oracle(export_index, stream_index, nbytes):
    data = ORACLES[export_index][stream_index][:nbytes]
    if (export_index, stream_index) == (1, 0):
        data = data[:len(data) // 4 * 4]
        arr = np.frombuffer(data, dtype="int16").reshape((-1, 2))
        return [arr[:, 0].tobytes(), arr[:, 1].tobytes()]
    return [data]


def run_schedule(f, schedule, block_sizes):
    handle = TracedBytesIO(IMAGE)
    exports = build_streams(handle)
    per_frame = [[] for _ in exports]
    for export_index in schedule:
        arrays = f(exports[export_index], block_sizes[export_index])
        per_frame[export_index].append(describe(arrays))
    return per_frame, handle.trace


def channels_of(per_frame_of_export):
    if not per_frame_of_export:
        return []
    width = len(per_frame_of_export[0][1])
    return [
        b"".join(frame[1][c][3] for frame in per_frame_of_export)
        for c in range(width)
    ]


def part_shared_handle():
    count = 0
    # part 3: each export decoded until exhaustion
    for block_sizes in ([[64, 64], [64, 32]], [[30, 50], [12, 7]], [[2, 2], [4, 1]], [[500, 100], [1000, 1000]]):
        for export_index in (0, 1):
            results = []
            for f in IMPLEMENTATIONS:
                handle = TracedBytesIO(IMAGE)
                export = build_streams(handle)[export_index]
                frames = []
                for _ in range(400):
                    got = outcome(f, export, block_sizes[export_index])
                    frames.append(got)
                    if got[0] == "exc" or all(len(a[3]) == 0 for a in got[1][1]):
                        break
                results.append((frames, handle.trace))
            check(results[0] == results[1], f"exhaust export {export_index} blocks {block_sizes}")
            count += 1

    # part 4: interleaved exports
    def compare(schedule, block_sizes, label):
        a = run_schedule(decode_frame, schedule, block_sizes)
        b = run_schedule(orig_decode_frame, schedule, block_sizes)
        check(a == b, f"{label}: live != original")
        for export_index in (0, 1):
            n = schedule.count(export_index)
            alone = run_schedule(decode_frame, [export_index] * n, block_sizes)[0][export_index]
            check(a[0][export_index] == alone, f"{label}: export {export_index} disturbed")
            got = channels_of(a[0][export_index])
            if n:
                want = []
                for stream_index in (0, 1):
                    want += split_oracle(export_index, stream_index,
                                         n * block_sizes[export_index][stream_index])
                check(got == want, f"{label}: export {export_index} differs from oracle")

    for schedule in sorted(set(itertools.permutations([0, 0, 0, 1, 1, 1]))):
        compare(list(schedule), [[40, 40], [24, 6]], f"schedule {schedule}")
        count += 1
    rng = random.Random(12)
    for _ in range(300):
        block_sizes = [
            [2 * rng.randrange(1, 60), 2 * rng.randrange(1, 60)],
            [4 * rng.randrange(1, 30), rng.randrange(1, 60)],
        ]
        schedule = [0] * rng.randrange(0, 6) + [1] * rng.randrange(0, 6)
        rng.shuffle(schedule)
        compare(schedule, block_sizes, f"random schedule {schedule} {block_sizes}")
        count += 1
    return count


def main():
    n1 = part_pure()
    n2 = part_order()
    n3 = part_shared_handle()
    print(f"pure: {n1}, order: {n2}, shared handle: {n3}")
    if FAILURES:
        print(f"{len(FAILURES)} mismatches")
        return 1
    print("all agree")
    return 0


if __name__ == "__main__":
    sys.exit(main())
