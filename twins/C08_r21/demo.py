"""Equivalence demo for r21 (alcohol/mdx.py MdxStream: header parse + window
arithmetic moved into _locate_window(), which hands a NamedTuple to MdxStream).

The ORIGINAL MdxStream is pasted below (it uses the module's own
MdxHeaderConstruct and StreamOffset, neither of which the refactoring
touches).  Live and original are run on twin logging images and must agree
on: type of the view, its state (offset, end_of_file, position,
buffer_length, true_size, substream identity), exception type and text, the
cursor left on the image and the ordered log of tell/seek/read calls made on
the image.  Images: valid headers with many `eof` values (smaller than the
header, equal, larger than the image, huge), every truncation length of the
header, every single corrupted header byte, header not at the start of the
image (MdxStream parses from the caller's cursor), images whose n-th read
raises, position/buffer_length passed positionally, by keyword and omitted.

Then twin views are driven through identical seek/tell/read histories
(exhaustive short ones over a tiny image, long random ones over random
images); results, view state and image logs must be identical, and for
non-empty windows that lie inside the image every read must equal the slice
of the logical content.  Exit 0 = all agree, 1 = mismatch.
"""
import itertools
import random
import sys
from io import BytesIO, SEEK_CUR, SEEK_END, SEEK_SET

from smpl_extract.alcohol import mdx as live_module
from smpl_extract.alcohol.mdx import MdxHeaderConstruct
from smpl_extract.alcohol.mdx import MdxStream
from smpl_extract.alcohol.mdx import is_mdx_image
from smpl_extract.util.stream import StreamOffset
from smpl_extract.util.stream import StreamReversed


def orig_MdxStream(
        parent_stream,
        position: int = 0,
        buffer_length: int = 0x1000
    ):
    """Original, verbatim."""
    header = MdxHeaderConstruct.parse_stream(parent_stream)  # type: ignore
    offset = MdxHeaderConstruct.sizeof()
    size = header.eof - offset
    result = StreamOffset(
        parent_stream,
        size,
        offset,
        position=position,
        buffer_length=buffer_length
    )
    return result


class Image(BytesIO):
    """BytesIO that logs every call and can fail on demand."""

    def __init__(self, data, fail=None):
        super().__init__(data)
        self.log = []
        self.fail = fail          # (method, n-th call, exception factory)
        self.counts = {"tell": 0, "seek": 0, "read": 0}

    def _maybe_fail(self, name):
        self.counts[name] += 1
        if self.fail and self.fail[0] == name and self.fail[1] == self.counts[name]:
            self.log.append((name, "raise"))
            raise self.fail[2]()

    def tell(self):
        self._maybe_fail("tell")
        r = super().tell()
        self.log.append(("tell", r))
        return r

    def seek(self, *a):
        self._maybe_fail("seek")
        r = super().seek(*a)
        self.log.append(("seek", a, r))
        return r

    def read(self, *a):
        self._maybe_fail("read")
        r = super().read(*a)
        self.log.append(("read", a, r))
        return r


FAILURES = []


def fail(msg):
    FAILURES.append(msg)
    if len(FAILURES) <= 20:
        print("MISMATCH:", msg)


def outcome(fn):
    try:
        return ("ok", fn())
    except BaseException as e:  # noqa - compared, never swallowed silently
        return ("exc", type(e), str(e))


def view_state(v):
    return (
        type(v).__name__, type(v).__mro__[1:] == StreamOffset.__mro__[1:],
        v.offset, v.end_of_file, v.position, v.buffer_length, v.true_size,
    )


HEADER_SIZE = MdxHeaderConstruct.sizeof()


def make_header(eof, version=b"\x02\x01", copyright_=b"\xA9" + b"\x20" * 25):
    fields = dict(eof=eof, version=version, copyright=copyright_)
    return MdxHeaderConstruct.build(fields)


def construct_pair(data, start, call, fail_spec=None):
    """Build the view with live and original code on twin images."""
    img_l = Image(data, fail_spec)
    img_o = Image(data, fail_spec)
    BytesIO.seek(img_l, start)
    BytesIO.seek(img_o, start)
    out_l = outcome(lambda: call(MdxStream, img_l))
    out_o = outcome(lambda: call(orig_MdxStream, img_o))
    tag = f"len={len(data)} start={start} fail={fail_spec and fail_spec[:2]}"
    if out_l[0] != out_o[0]:
        fail(f"{tag}: outcome kind {out_l} vs {out_o}")
        return None
    if out_l[0] == "exc":
        if out_l != out_o:
            fail(f"{tag}: exception {out_l} vs {out_o}")
        if img_l.log != img_o.log:
            fail(f"{tag}: image log differs after exception")
        if BytesIO.tell(img_l) != BytesIO.tell(img_o):
            fail(f"{tag}: cursor differs after exception")
        return None
    v_l, v_o = out_l[1], out_o[1]
    if type(v_l) is not StreamOffset or type(v_o) is not StreamOffset:
        fail(f"{tag}: view type {type(v_l)} / {type(v_o)}")
    if v_l.substream is not img_l or v_o.substream is not img_o:
        fail(f"{tag}: substream identity")
    if view_state(v_l) != view_state(v_o):
        fail(f"{tag}: state {view_state(v_l)} vs {view_state(v_o)}")
    if img_l.log != img_o.log:
        fail(f"{tag}: image log differs")
    if BytesIO.tell(img_l) != BytesIO.tell(img_o):
        fail(f"{tag}: cursor differs")
    return v_l, v_o, img_l, img_o


CALLS = [
    lambda f, s: f(s),
    lambda f, s: f(s, 0),
    lambda f, s: f(s, 3),
    lambda f, s: f(s, 3, 7),
    lambda f, s: f(s, position=5),
    lambda f, s: f(s, buffer_length=1),
    lambda f, s: f(s, buffer_length=5, position=2),
    lambda f, s: f(parent_stream=s, position=1, buffer_length=2),
]


def drive(pair, ops, logical=None, tag=""):
    v_l, v_o, img_l, img_o = pair
    for op in ops:
        if op[0] == "seek":
            a = outcome(lambda: v_l.seek(*op[1]))
            b = outcome(lambda: v_o.seek(*op[1]))
        elif op[0] == "tell":
            a = outcome(v_l.tell)
            b = outcome(v_o.tell)
        else:
            before = v_o.position
            a = outcome(lambda: v_l.read(op[1]))
            b = outcome(lambda: v_o.read(op[1]))
            if logical is not None and b[0] == "ok" and op[1] is not None and op[1] >= 0:
                want = logical[before:before + op[1]]
                if b[1] != want or a[1] != want:
                    fail(f"{tag}: read {op} at {before} -> {a[1]!r}, want {want!r}")
                if v_l.position != before + len(want):
                    fail(f"{tag}: cursor after read {op}")
            if logical is not None and b[0] == "ok" and (op[1] is None or op[1] < 0):
                if a[1] != logical[before:]:
                    fail(f"{tag}: readall at {before}")
        if a != b:
            fail(f"{tag}: {op}: {a} vs {b}")
            return
        if view_state(v_l) != view_state(v_o):
            fail(f"{tag}: state after {op}")
            return
        if img_l.log != img_o.log:
            fail(f"{tag}: image log after {op}")
            return
        if logical is not None and not (0 <= v_l.position <= len(logical)):
            fail(f"{tag}: cursor {v_l.position} outside [0, {len(logical)}]")


def main():
    rng = random.Random(2108)

    # --- the helper the refactoring adds must not leak into the public API
    for name in ("MdxStream", "is_mdx_image", "MdxHeaderConstruct",
                 "MDX_SECTOR_HEADER_MAGIC", "StreamOffset"):
        if not hasattr(live_module, name):
            fail(f"public name {name} missing")
    if HEADER_SIZE != 64:
        fail(f"header size {HEADER_SIZE}")

    # --- 1. construction on valid headers, many eof values and call shapes
    body = bytes(range(1, 41))
    eofs = [0, 1, 63, 64, 65, 70, 64 + len(body) - 1, 64 + len(body),
            64 + len(body) + 1, 1000, 2**32, 2**63, 2**64 - 1]
    for eof in eofs:
        hdr = make_header(eof)
        for prefix in (b"", b"junk!"):
            data = prefix + hdr + body
            for start in (len(prefix), 0, 2, len(data)):
                for call in CALLS:
                    construct_pair(data, start, call)

    # --- 2. every truncation of the header, every corrupted header byte
    hdr = make_header(64 + 10)
    for cut in range(0, HEADER_SIZE + 2):
        construct_pair((hdr + b"0123456789")[:cut], 0, CALLS[0])
    for i in range(HEADER_SIZE):
        for flip in (0x01, 0xFF, 0x80):
            bad = bytearray(hdr + b"0123456789")
            bad[i] ^= flip
            construct_pair(bytes(bad), 0, CALLS[i % len(CALLS)])
    construct_pair(b"", 0, CALLS[0])
    construct_pair(hdr, 1, CALLS[0])

    # --- 3. image whose n-th read/seek/tell raises
    for method in ("read", "seek", "tell"):
        for n in range(1, 8):
            for factory in (OSError, lambda: ValueError("closed")):
                construct_pair(hdr + b"0123456789", 0, CALLS[0], (method, n, factory))

    # --- 4. exhaustive short histories over a tiny window
    tiny = b"abcde"
    data = make_header(64 + len(tiny)) + tiny + b"TAIL"
    alphabet = (
        [("read", n) for n in (0, 1, 2, 5, 6, None, -1)]
        + [("seek", (o, w)) for w in (SEEK_SET, SEEK_CUR, SEEK_END)
           for o in (-6, -1, 0, 1, 3, 5, 9)]
        + [("seek", (2,)), ("tell",)]
    )
    for ops in itertools.product(alphabet, repeat=2):
        pair = construct_pair(data, 0, CALLS[0])
        if pair:
            drive(pair, ops, tiny, "tiny")
    for ops in itertools.product(alphabet[::3], repeat=3):
        pair = construct_pair(data, 0, CALLS[5])
        if pair:
            drive(pair, ops, tiny, "tiny3")

    # --- 5. long random histories over random images and windows
    for trial in range(300):
        n = rng.randrange(1, 200)
        content = bytes(rng.randrange(256) for _ in range(n))
        trailing = bytes(rng.randrange(256) for _ in range(rng.randrange(0, 20)))
        inside = rng.random() < 0.7
        eof = 64 + n if inside else rng.choice([0, 10, 64, 64 + n + len(trailing) + 5, 64 + n // 2])
        data = make_header(eof) + content + trailing
        logical = (content + trailing)[:max(eof - 64, 0)] if eof - 64 <= n + len(trailing) else None
        if eof - 64 <= 0:
            logical = None      # empty / negative windows: only live == original
        pair = construct_pair(data, 0, rng.choice(CALLS))
        if not pair:
            fail("valid header rejected")
            continue
        if pair[0].position > max(eof - 64, 0):
            logical = None
        ops = []
        for _ in range(rng.randrange(5, 60)):
            k = rng.random()
            if k < 0.5:
                ops.append(("read", rng.choice([0, 1, 2, 3, 7, 16, n, n + 3, None, -1, rng.randrange(0, n + 2)])))
            elif k < 0.9:
                ops.append(("seek", (rng.randrange(-n - 3, n + 4), rng.choice([SEEK_SET, SEEK_CUR, SEEK_END]))))
            else:
                ops.append(("tell",))
        drive(pair, ops, logical, f"rand{trial}")

    # --- 6. nesting: a sample-reversed view and a second window over the MDX view
    content = bytes(range(60))
    data = make_header(64 + len(content)) + content
    for width in (1, 2, 3, 4):
        pair = construct_pair(data, 0, CALLS[0])
        if not pair:
            continue
        v_l, v_o, img_l, img_o = pair
        r_l = StreamReversed(v_l, len(content), sample_width=width)
        r_o = StreamReversed(v_o, len(content), sample_width=width)
        samples = [content[i:i + width] for i in range(0, len(content), width)]
        logical = b"".join(reversed(samples))
        for _ in range(200):
            if rng.random() < 0.5:
                args = (rng.randrange(-5, 70), rng.choice([SEEK_SET, SEEK_CUR, SEEK_END]))
                a = outcome(lambda: r_l.seek(*args))
                b = outcome(lambda: r_o.seek(*args))
            else:
                size = rng.randrange(0, 20)
                before = r_o.position
                a = outcome(lambda: r_l.read(size))
                b = outcome(lambda: r_o.read(size))
                if b[0] == "ok" and b[1] != logical[before:before + size]:
                    fail(f"reversed over mdx: width {width} read {size} at {before}")
            if a != b or img_l.log != img_o.log or r_l.position != r_o.position:
                fail(f"reversed over mdx: width {width}: {a} vs {b}")
                break
        w_l = StreamOffset(v_l, 20, 7)
        w_o = StreamOffset(v_o, 20, 7)
        drive((w_l, w_o, img_l, img_o),
              [("seek", (0, SEEK_SET)), ("read", 5), ("read", 30), ("read", 1),
               ("seek", (-3, SEEK_END)), ("read", 10), ("seek", (4, SEEK_SET)), ("read", None)],
              content[7:27], "window over mdx")

    # --- 7. the detector and the view agree on which images are MDX images
    for data in (make_header(100) + b"x" * 36, b"MEDIA DESCRIPTOR", b"", b"\x00" * 80):
        probe = Image(data)
        accepted = is_mdx_image(probe)
        built = construct_pair(data, 0, CALLS[0]) is not None
        if accepted != built:
            fail(f"detector {accepted} but view built {built}")

    if FAILURES:
        print(f"{len(FAILURES)} mismatches")
        return 1
    print("r21 demo: live MdxStream and original agree on all cases")
    return 0


if __name__ == "__main__":
    sys.exit(main())
