"""Equivalence demo for r24: encode_frame (smpl_extract/transcoder.py)
- turns the channel arrays of one decoded block into the interleaved bytes
that become part of the `data` chunk; every block must be a whole number of
frames (channels x sample width bytes).

An inline copy of the ORIGINAL function (np.vstack(...).reshape((-1,),
order='F')) is compared with the tree's function:
 1. 1..8 channels x many lengths (equal, unequal -> padded, empty) x source
    dtypes (signed/unsigned/float/bool, little and big endian) x destination
    dtypes: same bytes, length = max length x channels x itemsize, and the
    bytes are checked against an independent pure-Python interleaver;
 2. array shapes and layouts: non-contiguous views, reversed views, read-only
    buffers, 2-D / 3-D arrays, 0-d arrays, ndarray subclasses (matrix, masked,
    recarray), object and structured dtypes;
 3. bad arguments (no channels, lists instead of arrays, None, bad dtypes,
    generators, keyword use, wrong arity) -> same exception type and message;
 4. inputs are not modified, and the calls made on the arrays (astype with
    which dtype, in which order) are the same (logging ndarray subclass);
 5. the whole pipeline: make_transcoder blocks and export_wav files with the
    tree's function vs. the original function patched into the module, byte
    for byte, plus an independent RIFF walker (data size = whole frames).
Exit 0 when everything agrees, 1 otherwise.
"""
import io
import itertools
import os
import shutil
import struct
import sys
import tempfile
import warnings
from typing import List

import numpy as np

from smpl_extract import transcoder as tc
from smpl_extract.data_streams import DataStream
from smpl_extract.data_streams import Endianess
from smpl_extract.data_streams import StreamEncoding
from smpl_extract.generalized import wav as gw
from smpl_extract.generalized.sample import LoopRegion
from smpl_extract.generalized.sample import Sample
from smpl_extract.transcoder import pad_channels   # untouched by r24

warnings.simplefilter("ignore")


# ---- verbatim copy of the original implementation ------------------------
def orig_encode_frame(channels: List[np.ndarray], dest_dtype: np.dtype) -> bytes:
    channels = pad_channels(channels)
    channels = list(x.astype(dest_dtype) for x in channels)
    result = np.vstack(channels).reshape((-1,), order='F').tobytes()
    return result
# -------------------------------------------------------------------------
OLD = orig_encode_frame


def NEW(*args, **kwargs):
    return tc.encode_frame(*args, **kwargs)


failures = []
checks = 0


def check(cond, msg):
    global checks
    checks += 1
    if not cond:
        failures.append(msg)
        if len(failures) <= 20:
            print("MISMATCH:", msg[:400])


def outcome(f):
    try:
        r = f()
        return ("ok", type(r).__name__, r)
    except Exception as e:  # noqa: BLE001
        return ("exc", type(e).__name__,
                str(e).replace("orig_encode_frame", "encode_frame"))


def both(make_args, label, kwargs=None):
    kwargs = kwargs or {}
    x = outcome(lambda: NEW(*make_args(), **kwargs))
    y = outcome(lambda: OLD(*make_args(), **kwargs))
    check(x == y, "%s: %r vs %r" % (label, str(x)[:150], str(y)[:150]))
    return x


def values(n, seed, dtype):
    dt = np.dtype(dtype)
    rng = np.random.RandomState(seed)
    if dt.kind == "f":
        return (rng.rand(n) * 2000 - 1000).astype(dt)
    if dt.kind == "b":
        return rng.randint(0, 2, n).astype(dt)
    info = np.iinfo(dt)
    arr = rng.randint(max(info.min, -2**31), min(info.max, 2**31 - 1) + 1,
                      n).astype(dt)
    if n:
        arr[0] = info.min
        arr[-1] = info.max
    return arr


# ---- 1. grid --------------------------------------------------------------
SRC = ["int8", "<i2", ">i2", "<i4", ">i4", "int64", "uint8", "<u2", ">u2",
       "float32", ">f8", "bool"]
DST = ["int8", "<i2", ">i2", "int32", "int64", "uint8", "uint16", "float32"]
LENGTH_SETS = {
    1: [(0,), (1,), (7,), (2048,)],
    2: [(0, 0), (1, 1), (5, 5), (2048, 2048), (5, 3), (3, 5), (0, 4), (4, 0),
        (1, 2), (2048, 2047)],
    3: [(3, 3, 3), (1, 2, 3), (3, 0, 1)],
    4: [(4, 4, 4, 4), (0, 0, 0, 1)],
    8: [tuple([16] * 8), (8, 7, 6, 5, 4, 3, 2, 1)],
}
for num_channels, length_sets in LENGTH_SETS.items():
    for lengths, src, dst in itertools.product(length_sets, SRC, DST):
        def make(lengths=lengths, src=src, dst=dst):
            return ([values(n, 11 * i + n, src) for i, n in enumerate(lengths)],
                    np.dtype(dst))
        x = both(make, "grid %r %s->%s" % (lengths, src, dst))
        # np.pad cannot ramp an empty channel up to a non-empty one (both raise)
        unpaddable = 0 in lengths and max(lengths) > 0
        check((x[0] == "ok") != unpaddable and (x[0] == "ok" or x[1] == "ValueError"),
              "grid %r %s->%s outcome: %r" % (lengths, src, dst, x))
        if x[0] != "ok":
            continue
        raw, target = x[2], max(lengths)
        itemsize = np.dtype(dst).itemsize
        check(len(raw) == target * num_channels * itemsize
              and len(raw) % (num_channels * itemsize) == 0,
              "whole frames %r %s->%s" % (lengths, src, dst))
        if lengths == tuple([target] * num_channels):
            # np.vstack hands back native byte order, whatever dst says
            chans = [c.astype(np.dtype(dst).newbyteorder("="))
                     for c in make()[0]]
            expect = b"".join(chans[c][k:k + 1].tobytes()
                              for k in range(target) for c in range(num_channels))
            check(raw == expect, "interleaving %r %s->%s" % (lengths, src, dst))
        if src == dst == "<i2" and target:
            chans = pad_channels(make()[0])
            flat = struct.unpack("<%dh" % (target * num_channels), raw)
            check(all(flat[k * num_channels + c] == int(chans[c][k])
                      for k in range(target) for c in range(num_channels)),
                  "frame order %r" % (lengths,))

for dst in ("int16", "<i2", ">i2", "i2", "h", np.int16, int, float, "S2", "V3",
            "U1", "complex64", "datetime64[s]", [("a", "<i2"), ("b", "u1")]):
    both(lambda: ([values(5, 1, "<i2"), values(3, 2, "<i2")], dst),
         "dest dtype spelling %r" % (dst,))


# ---- 2. shapes and layouts -------------------------------------------------
def layouts():
    base = values(64, 3, "<i2")
    ro = np.frombuffer(base.tobytes(), dtype="<i2")
    inter = np.frombuffer(values(64, 5, ">i2").tobytes(),
                          dtype=">i2").reshape((-1, 2)).T
    two_d = values(12, 7, "<i2").reshape((3, 4))
    three_d = values(24, 8, "<i2").reshape((2, 3, 4))
    structured = np.zeros(4, dtype=[("a", "<i2"), ("b", "u1")])
    return [
        ("strided views", lambda: [base[::2], base[1::2]]),
        ("reversed views", lambda: [base[::-1], base[::-3]]),
        ("read-only", lambda: [ro, ro[:10]]),
        ("transposed deinterleave", lambda: list(inter)),
        ("transposed unequal", lambda: [inter[0], inter[1][:7]]),
        ("same array twice", lambda: [base, base]),
        ("2-d equal", lambda: [two_d, two_d + 1]),
        ("2-d single", lambda: [two_d]),
        ("2-d different rows", lambda: [two_d, two_d[:2]]),
        ("2-d different cols", lambda: [two_d, two_d[:, :2]]),
        ("2-d with 1-d", lambda: [two_d, values(4, 1, "<i2")]),
        ("2-d with 1-d same len", lambda: [two_d, values(3, 1, "<i2")]),
        ("3-d", lambda: [three_d, three_d]),
        ("3-d single", lambda: [three_d]),
        ("fortran 2-d", lambda: [np.asfortranarray(two_d), two_d]),
        ("0-d", lambda: [np.array(5, dtype="<i2")]),
        ("0-d and 1-d", lambda: [np.array(5), values(2, 1, "<i2")]),
        ("matrix", lambda: [np.matrix([[1, 2, 3]]), np.matrix([[4, 5, 6]])]),
        ("matrix column", lambda: [np.matrix([[1], [2]]), np.matrix([[4], [5]])]),
        ("masked", lambda: [np.ma.masked_array([1, 2, 3], mask=[0, 1, 0]),
                            np.ma.masked_array([4, 5], mask=[1, 0])]),
        ("object dtype", lambda: [np.array([1, 2, 3], dtype=object),
                                  np.array([4, 5], dtype=object)]),
        ("object strings", lambda: [np.array(["a", 2], dtype=object)]),
        ("structured", lambda: [structured, structured[:2]]),
        ("str dtype", lambda: [np.array(["1", "22"]), np.array(["3"])]),
        ("nan / inf floats", lambda: [np.array([np.nan, np.inf, -np.inf, 1e30]),
                                      np.array([0.5])]),
        ("tuple of arrays", lambda: (base[:3], base[:2])),
        ("generator", lambda: (c for c in [base[:3], base[:2]])),
        ("dict values", lambda: {1: base[:3], 2: base[:4]}.values()),
        ("array of arrays", lambda: np.arange(6, dtype="<i2").reshape((2, 3))),
        ("mixed dtypes", lambda: [values(4, 1, "int8"), values(6, 2, "float32"),
                                  values(5, 3, ">u2")]),
    ]


for idx in range(len(layouts())):
    for dst in ("<i2", ">i2", "int8", "int32", "float64", None):
        label = layouts()[idx][0]
        both(lambda: (layouts()[idx][1](), dst), "layout %s -> %r" % (label, dst))

# ---- 3. bad arguments -------------------------------------------------------
BAD = [
    ("no channels", lambda: ([], "<i2")),
    ("None channels", lambda: (None, "<i2")),
    ("int channels", lambda: (5, "<i2")),
    ("lists", lambda: ([[1, 2], [3, 4]], "<i2")),
    ("list and array", lambda: ([np.arange(2), [3, 4]], "<i2")),
    ("array and list", lambda: ([[3, 4], np.arange(2)], "<i2")),
    ("bytes", lambda: ([b"ab", b"cd"], "<i2")),
    ("None element", lambda: ([np.arange(2), None], "<i2")),
    ("bad dtype", lambda: ([np.arange(2)], "nope")),
    ("bad dtype 2", lambda: ([np.arange(2)], 5)),
    ("dtype object", lambda: ([np.arange(2)], object())),
    ("missing dtype", lambda: ([np.arange(2)],)),
    ("extra arg", lambda: ([np.arange(2)], "<i2", 3)),
    ("no args", lambda: ()),
]
for label, make in BAD:
    both(make, "bad: " + label)
for kwargs in (dict(dest_dtype="<i2"), dict(channels=[np.arange(3)]),
               dict(dtype="<i2"), dict(dest_dtype="<i2", order="F")):
    both(lambda: (() if "channels" in kwargs else ([np.arange(3), np.arange(2)],)),
         "keywords %r" % (sorted(kwargs),), kwargs)
both(lambda: (), "all keywords",
     dict(channels=[np.arange(3), np.arange(1)], dest_dtype=">i2"))


# ---- 4. inputs untouched, same calls on the arrays -------------------------
LOG = []


class LoggingArray(np.ndarray):
    def astype(self, dtype, *a, **kw):
        LOG.append(("astype", int(self[0]) if self.size else None, len(self),
                    repr(dtype), a, sorted(kw)))
        if getattr(self, "fail", False):
            raise RuntimeError("astype failed")
        return np.asarray(self).astype(dtype, *a, **kw)


def logging_channels(lengths, fail_at=None):
    out = []
    for i, n in enumerate(lengths):
        arr = (np.arange(n, dtype="<i2") + 100 * i).view(LoggingArray)
        if fail_at == i:
            arr.fail = True
        out.append(arr)
    return out


for lengths, fail_at in itertools.product(
        [(4, 4), (3, 3, 3), (1,), (0, 0)], (None, 0, 1)):
    res = []
    for func in (NEW, OLD):
        del LOG[:]
        chans = logging_channels(lengths, fail_at)
        snap = [c.tobytes() for c in chans]
        listing = list(chans)
        r = outcome(lambda: func(chans, np.dtype(">i2")))
        res.append((r, list(LOG), [c.tobytes() for c in chans] == snap,
                    all(a is b for a, b in zip(chans, listing))
                    and len(chans) == len(listing)))
    check(res[0] == res[1], "astype trace %r fail_at=%r: %r vs %r"
          % (lengths, fail_at, res[0], res[1]))
    check(res[0][2] and res[0][3], "inputs modified %r" % (lengths,))


# ---- 5. whole pipeline -----------------------------------------------------
def pcm(n, seed):
    return bytes((seed * 31 + i * 7) % 256 for i in range(n))


def make_streams(layout, num_frames, width, endian, extra_bytes):
    if layout == "interleaved":
        return [DataStream(
            io.BytesIO(pcm(width * 2 * num_frames + extra_bytes, 3)),
            StreamEncoding(endian, width, 2, True))]
    count = 1 if layout == "mono" else 2
    return [DataStream(
        io.BytesIO(pcm(width * (num_frames + 3 * k) + extra_bytes, 5 + k)),
        StreamEncoding(endian, width, 1, True)) for k in range(count)]


def with_original(f):
    saved = tc.encode_frame
    tc.encode_frame = OLD
    try:
        return f()
    finally:
        tc.encode_frame = saved


def drain(streams, dest):
    return [bytes(block) for block in tc.make_transcoder(streams, dest)]


n_blocks = 0
for layout, num_frames, width, endian, extra, dest_endian in itertools.product(
        ("mono", "split", "interleaved"), (0, 1, 100, 2048, 2049, 5000),
        (1, 2, 4), (Endianess.LITTLE, Endianess.BIG), (0, 1),
        (Endianess.LITTLE, Endianess.BIG)):
    channels = 1 if layout == "mono" else 2
    dest = StreamEncoding(dest_endian, width, channels, True)
    args = (layout, num_frames, width, endian, extra)
    x = outcome(lambda: drain(make_streams(*args), dest))
    y = outcome(lambda: with_original(lambda: drain(make_streams(*args), dest)))
    check(x == y, "transcoder blocks %r -> %r" % (args, dest_endian))
    if x[0] == "ok":
        n_blocks += len(x[2])
        check(all(len(b) % (channels * width) == 0 and len(b) > 0 for b in x[2]),
              "blocks are whole frames %r" % (args,))

tmp_dir = tempfile.mkdtemp(prefix="r24_demo_")
try:
    n = 0
    for layout, num_frames, endian, extra, with_smpl in itertools.product(
            ("mono", "split", "interleaved"), (0, 1, 7, 2048, 2049, 6000),
            (Endianess.LITTLE, Endianess.BIG), (0, 1), (False, True)):
        n += 1
        channels = 1 if layout == "mono" else 2
        args = (layout, num_frames, 2, endian, extra)

        def make_sample():
            return Sample(name="s", sample_rate=44100, num_channels=channels,
                          data_streams=make_streams(*args),
                          loop_regions=[LoopRegion(1, 5)] if with_smpl else [])
        p1 = os.path.join(tmp_dir, "new%d.wav" % n)
        p2 = os.path.join(tmp_dir, "old%d.wav" % n)
        x = outcome(lambda: gw.export_wav(make_sample(), p1))
        y = outcome(lambda: with_original(lambda: gw.export_wav(make_sample(), p2)))
        check(x == y, "export outcome %r: %r vs %r" % (args, x, y))
        r1, r2 = open(p1, "rb").read(), open(p2, "rb").read()
        check(r1 == r2, "bytes differ for %r" % (args,))
        if x[0] == "ok":
            raw = r1
            check(raw[:4] == b"RIFF" and raw[8:12] == b"WAVE" and
                  struct.unpack("<I", raw[4:8])[0] == len(raw) - 8, "riff header")
            pos, ids, data_size = 12, [], None
            while pos < len(raw):
                cid, size = raw[pos:pos + 4], struct.unpack("<I", raw[pos + 4:pos + 8])[0]
                ids.append(cid)
                if cid == b"data":
                    data_size = size
                pos += 8 + size
            check(pos == len(raw), "sizes add up %r" % (args,))
            check(ids == ([b"fmt ", b"smpl", b"data"] if with_smpl
                          else [b"fmt ", b"data"]), "chunk order")
            check(data_size is not None and data_size % (2 * channels) == 0,
                  "data is whole frames %r: %r" % (args, data_size))
            longest = num_frames + (3 if layout == "split" else 0)
            # (a split pair ends with the block in which one side runs dry)
            check(2 * channels * num_frames <= data_size + 2 * channels * 2048
                  and data_size <= 2 * channels * longest,
                  "data size %r: %r" % (args, data_size))
            if layout != "split":
                check(data_size == 2 * channels * num_frames,
                      "data size %r: %r" % (args, data_size))
finally:
    shutil.rmtree(tmp_dir, ignore_errors=True)

print("%d checks, %d failures (%d transcoded blocks)"
      % (checks, len(failures), n_blocks))
sys.exit(1 if failures else 0)
