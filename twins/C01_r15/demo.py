"""Equivalence demo for r15 (smpl_extract/util/stream.py,
SubStreamConstruct._parse - the construct that evaluates the size=/offset=
expressions of the AKAI sample data window and of the partition window).

An inline copy of the ORIGINAL code (_eval_callable + _parse) lives in a
subclass and is compared with the live class:
  A. direct _parse / _build / parse_stream calls for many combinations of
     substream_class (stream classes, factory functions, non-callable stream
     instances, None), positional and keyword arguments that are constants,
     lambdas, construct `this` expressions, callables that raise, classes,
     unexpected keywords: same result (type, constructor arguments seen by the
     factory, attributes of the window built), same exception, and the same
     ORDER of evaluation of the argument callables (logged);
  B. the construct embedded in plain and compiled Structs shaped like
     SampleHeaderConstruct and PartitionHeaderConstruct, parsed from random
     headers, then read through: same window position/size, same bytes;
  C. whole AKAI images from an independent writer exported to WAV with the live
     code and with the original code swapped into the class (the compiled
     project Structs hold bound methods, so the function's code object is
     swapped): same stdout, same files, same bytes.
Exit 0 = all agree."""
import contextlib
import hashlib
import io
import os
import random
import shutil
import sys
import tempfile

from construct.core import Computed
from construct.core import Int16ul
from construct.core import Int32ul
from construct.core import Int8ul
from construct.core import Struct
from construct.core import Tell
from construct.expr import this
from construct.lib.containers import Container

from smpl_extract.util.sector import SectorStream
from smpl_extract.util.stream import StreamOffset
from smpl_extract.util.stream import StreamReversed
from smpl_extract.util.stream import StreamWrapper
from smpl_extract.util.stream import SubStreamConstruct


# ---- inline copy of the ORIGINAL implementation -------------------------
class OrigSubStreamConstruct(SubStreamConstruct):

    def _eval_callable(self, x, context_inner):
            result = x(context_inner) if callable(x) else x
            return result


    def _parse(self, stream, context, path):
        del path  # Unused

        if callable(self.substream_class):
            args_eval = [self._eval_callable(arg, context) for arg in self.args]
            kwargs_eval = {key : self._eval_callable(value, context) for key, value in self.kwargs.items()}
            result = self.substream_class(stream, *args_eval, **kwargs_eval)
        else:
            result = self.substream_class
        return result
# -------------------------------------------------------------------------

# ---- independent AKAI S1000/S3000 image writer (logical model -> bytes) ----
import struct as _struct

SECTOR = 0x2000
SAT_CNT = 11386
HEADER_SECTORS = 3
MAGIC = b"".join(((3333 * i) & 0xFFFF).to_bytes(2, "little") for i in range(1, 98))


def akai_name(text):
    out = bytearray()
    for ch in text.upper().ljust(12)[:12]:
        if "0" <= ch <= "9":
            out.append(ord(ch) - ord("0"))
        elif "A" <= ch <= "Z":
            out.append(ord(ch) - ord("A") + 0x0B)
        else:
            out.append({" ": 0x0A, "#": 0x25, "+": 0x26, "-": 0x27, ".": 0x28}[ch])
    return bytes(out)


def sample_file(name, type_byte, rate, pcm, play_start, play_end, loops=(), loop_type=2):
    """140 byte header followed by the 16 bit words."""
    head = bytearray()
    head += bytes([type_byte, 0, 60])
    head += akai_name(name)
    head += bytes(4)
    head += bytes([loop_type, 0, 0])
    head += bytes(4)
    head += _struct.pack("<III", len(pcm) // 2, play_start, play_end)
    table = list(loops) + [(0, 0, 0, 0)] * (8 - len(loops))
    for at, fine, coarse, duration in table:
        head += _struct.pack("<IHIH", at, fine, coarse, duration)
    head += bytes(4)
    head += _struct.pack("<H", rate)
    assert len(head) == 140, len(head)
    return bytes(head) + pcm


def build_partition(rnd, volumes, layout="random", dir_style="chain", spare=6):
    """volumes: list of (name, type 1|3, [(file name, file type byte, content bytes)])"""
    needed = HEADER_SECTORS
    for _name, _type, files in volumes:
        needed += 2 + (24 * (len(files) + 1) + SECTOR - 1) // SECTOR
        for _fname, _ftype, content in files:
            needed += max(1, (len(content) + SECTOR - 1) // SECTOR)
    total = needed + spare
    sat = [0] * SAT_CNT
    for s in range(HEADER_SECTORS):
        sat[s] = 0x4000
    sectors = {}
    free = list(range(HEADER_SECTORS, total))

    def take(count, how):
        nonlocal free
        if how == "contiguous":
            for at in range(len(free) - count + 1):
                run = free[at:at + count]
                if run[-1] - run[0] == count - 1:
                    break
            else:
                raise AssertionError("no contiguous run")
            chosen = run
        elif how == "ascending":
            chosen = sorted(rnd.sample(free, count))
        elif how == "descending":
            chosen = sorted(rnd.sample(free, count), reverse=True)
        else:
            chosen = rnd.sample(free, count)
        free = [s for s in free if s not in chosen]
        return chosen

    def store(chain, payload):
        for n, s in enumerate(chain):
            sectors[s] = payload[n * SECTOR:(n + 1) * SECTOR].ljust(SECTOR, b"\x00")

    # directories first (a reserved run needs a non reserved sector behind it)
    dir_chains = []
    for _name, _type, files in volumes:
        count = (24 * (len(files) + 1) + SECTOR - 1) // SECTOR
        if dir_style == "reserved":
            chain = take(count + 1, "contiguous")
            guard = chain.pop()
            free.append(guard)
            free.sort()
            for s in chain:
                sat[s] = 0x4000
            # keep the guard sector out of later reserved runs: leave it free
            free.remove(guard)
        else:
            chain = take(count, "contiguous" if dir_style == "chain" else "random")
            for a, b in zip(chain, chain[1:]):
                sat[a] = b
            sat[chain[-1]] = 0xC000
        dir_chains.append(chain)

    volume_table = bytearray()
    for (name, vtype, files), dir_chain in zip(volumes, dir_chains):
        table = bytearray()
        for fname, ftype, content in files:
            count = max(1, (len(content) + SECTOR - 1) // SECTOR)
            how = layout if layout != "mixed" else rnd.choice(
                ["contiguous", "ascending", "descending", "random"])
            chain = take(count, how)
            for a, b in zip(chain, chain[1:]):
                sat[a] = b
            sat[chain[-1]] = 0xC000
            store(chain, content)
            table += akai_name(fname) + bytes(4) + bytes([ftype])
            table += len(content).to_bytes(3, "little")
            table += _struct.pack("<H", chain[0]) + bytes(2)
        end = bytearray(24)
        end[8:10] = (0xD747).to_bytes(2, "little")
        table += end
        store(dir_chain, bytes(table))
        volume_table += akai_name(name) + _struct.pack("<HH", vtype, dir_chain[0])
    volume_table += bytes(16 * (100 - len(volumes)))

    head = _struct.pack("<H", total) + b"\x00\x00" + MAGIC
    check = total // 128 - 1
    head += bytes([0x55 if check % 2 == 0 else 0xD5, (check // 2 + 0xBA) & 0xFF]) + b"\x2F\x00"
    head += bytes(volume_table)
    head += b"".join(_struct.pack("<H", x) for x in sat)
    assert len(head) == HEADER_SECTORS * SECTOR - 2, len(head)
    body = bytearray(head.ljust(HEADER_SECTORS * SECTOR, b"\x00"))
    for s in range(HEADER_SECTORS, total):
        body += sectors.get(s, bytes(SECTOR))
    return bytes(body)
# ---------------------------------------------------------------------------

# ---- shared demo plumbing --------------------------------------------------
failures = 0
checks = 0


def check(label, a, b):
    global failures, checks
    checks += 1
    if a != b:
        failures += 1
        if failures <= 10:
            print("MISMATCH", label, "\n   live:", repr(a)[:600], "\n   orig:", repr(b)[:600])


def describe_exc(e):
    cause = e.__cause__
    return (
        type(e).__module__ + "." + type(e).__qualname__,
        str(e),
        None if cause is None else (type(cause).__qualname__, str(cause)),
        e.__suppress_context__,
    )


def outcome(f):
    try:
        return ("ok", f())
    except BaseException as e:  # noqa - demo compares every exception
        return ("raise", describe_exc(e))


def snapshot_dir(base):
    found = {}
    for root, dirs, files in os.walk(base):
        dirs.sort()
        rel = os.path.relpath(root, base)
        found[rel + "/"] = None
        for name in sorted(files):
            with open(os.path.join(root, name), "rb") as fh:
                found[os.path.join(rel, name)] = hashlib.sha256(fh.read()).hexdigest()
    return found


def export_image(image_bytes, scratch, tag):
    from smpl_extract.actions import export_samples_to_wav
    from smpl_extract.akai.image import AkaiImageParser
    dest = os.path.join(scratch, tag)
    os.makedirs(dest)
    captured = io.StringIO()
    with contextlib.redirect_stdout(captured):
        result = outcome(lambda: export_samples_to_wav(
            AkaiImageParser(io.BytesIO(image_bytes)), dest))
    return (result, captured.getvalue(), snapshot_dir(dest))


def make_images(rnd):
    """A spread of logical models x allocation layouts x directory styles."""
    def pcm(words):
        return bytes(rnd.getrandbits(8) for _ in range(2 * words))

    images = []
    lengths = [1, 2, 100, 4096 - 70, 4096 - 69, 4096 - 71, 2 * 4096 - 70,
               3 * 4096 - 70, 5000, 9000, 13000]
    for layout in ("contiguous", "ascending", "descending", "random", "mixed"):
        for dir_style in ("chain", "reserved", "scattered"):
            parts = []
            for p in range(rnd.choice([1, 2, 3])):
                volumes = []
                for v in range(rnd.choice([1, 2, 3])):
                    files = []
                    for f in range(rnd.choice([0, 1, 3, 5])):
                        words = rnd.choice(lengths)
                        start = rnd.choice([0, 0, 1, 7, words // 3])
                        end = rnd.choice([words, words, words - 1, max(start, words - 5)])
                        s3000 = rnd.random() < 0.5
                        files.append((
                            "S%d%d%d" % (p, v, f),
                            0xF3 if s3000 else 0x73,
                            sample_file(
                                "S%d" % f, 3 if s3000 else 1,
                                rnd.choice([0, 8000, 22050, 44100, 48000]),
                                pcm(words), start, end
                            )
                        ))
                    if rnd.random() < 0.5:
                        words = rnd.choice(lengths)
                        for side in "LR":
                            files.append((
                                "PAIR -" + side, 0xF3,
                                sample_file("PAIR -" + side, 3, 44100, pcm(words), 0, words)
                            ))
                    volumes.append(("VOL %d%d" % (p, v), rnd.choice([1, 3]), files))
                parts.append(build_partition(rnd, volumes, layout=layout, dir_style=dir_style))
            images.append(((layout, dir_style), b"".join(parts)))
    return images
# ---------------------------------------------------------------------------


class Boom(Exception):
    pass


def describe(value, stream):
    if isinstance(value, StreamWrapper):
        return (
            type(value).__name__, value.substream is stream, value.end_of_file,
            value.position, value.buffer_length, getattr(value, "offset", None),
            getattr(value, "sample_width", None), getattr(value, "sector_length", None)
        )
    if isinstance(value, tuple) and value and value[0] == "factory":
        return ("factory", value[1] is stream, value[2], value[3])
    return ("other", type(value).__name__, repr(value))


def part_a():
    rnd = random.Random(1501)
    shared_instance = io.BytesIO(b"shared")

    def run(cls, spec):
        log = []

        def logged(tag, value):
            def f(ctx):
                log.append((tag, sorted(k for k in ctx.keys() if k != "_io") if hasattr(ctx, "keys") else repr(ctx)))
                if value == "boom":
                    raise Boom(tag)
                if value == "ctx":
                    return ctx["n"]
                return value
            return f

        def factory(stream, *a, **k):
            log.append(("factory", a, sorted(k.items())))
            return ("factory", stream, a, sorted(k.items()))

        def materialise(tag, item):
            kind, value = item
            if kind == "const":
                return value
            if kind == "fn":
                return logged(tag, value)
            if kind == "this":
                return this.n + value
            if kind == "class":
                return int      # callable, gets called with the context
            raise AssertionError(kind)

        target = {
            "wrapper": StreamWrapper, "offset": StreamOffset, "reversed": StreamReversed,
            "sector": SectorStream, "factory": factory, "instance": shared_instance,
            "none": None, "string": "not a class", "lambda": (lambda stream, *a, **k: ("factory", stream, a, sorted(k.items()))),
        }[spec["target"]]
        args = [materialise(("arg", n), item) for n, item in enumerate(spec["args"])]
        kwargs = {key: materialise(("kw", key), item) for key, item in spec["kwargs"]}
        con = cls(target, *args, **kwargs)
        stream = io.BytesIO(bytes(range(256)) * 4)
        context = Container(n=spec["n"], _io=stream)
        results = []
        for how in ("_parse", "_build", "parse_stream", "sizeof"):
            if how == "_parse":
                r = outcome(lambda: describe(con._parse(stream, context, "(path)"), stream))
            elif how == "_build":
                r = outcome(lambda: describe(con._build("ignored", stream, context, "(path)"), stream))
            elif how == "parse_stream":
                r = outcome(lambda: describe(con.parse_stream(stream, n=spec["n"]), stream))
            else:
                r = outcome(con.sizeof)
            results.append((how, r, list(log), stream.tell()))
            del log[:]
        return results, con.flagbuildnone, hasattr(con, "_parse")

    values = [
        ("const", 0), ("const", 5), ("const", 100), ("const", None), ("const", "x"),
        ("fn", 7), ("fn", 64), ("fn", "ctx"), ("fn", "boom"), ("fn", None),
        ("this", 0), ("this", 3), ("class", None),
    ]
    keys = ["size", "offset", "position", "buffer_length", "sample_width", "sector_length", "bogus"]
    for case in range(3000):
        spec = {
            "target": rnd.choice(["wrapper", "offset", "offset", "reversed", "sector",
                                  "factory", "lambda", "instance", "none", "string"]),
            "args": [rnd.choice(values) for _ in range(rnd.choice([0, 0, 1, 2, 3]))],
            "kwargs": [(k, rnd.choice(values)) for k in rnd.sample(keys, rnd.choice([0, 1, 2, 3, 4]))],
            "n": rnd.choice([0, 1, 10, 200]),
        }
        check(("direct", case, spec), run(SubStreamConstruct, spec), run(OrigSubStreamConstruct, spec))


def part_b():
    rnd = random.Random(1502)

    def sample_like(cls, compiled):
        con = Struct(
            "id" / Int8ul,
            "play_start" / Int32ul,
            "play_end" / Int32ul,
            "rate" / Int16ul,
            "data_address" / Tell,
            "data_stream" / cls(
                StreamOffset,
                size=(2 * (this.play_end - this.play_start)),
                offset=(this.data_address + (2 * this.play_start))
            )
        )
        return con.compile() if compiled else con

    def partition_like(cls, compiled):
        con = Struct(
            "start_address" / Tell,
            "size" / Int16ul,
            "total_size" / Computed(this.size * 16),
            "partition_stream" / cls(StreamOffset, size=this.total_size, offset=this.start_address),
            "passthrough" / cls(None),
            "positional" / cls(StreamWrapper, this.size, lambda ctx: ctx.size % 3),
        )
        return con.compile() if compiled else con

    def use(con, data, skip):
        stream = io.BytesIO(data)
        stream.seek(skip)

        def go():
            parsed = con.parse_stream(stream)
            out = []
            for key, value in parsed.items():
                if isinstance(value, StreamWrapper):
                    out.append((key, describe(value, stream), outcome(lambda: value.read(10)),
                                outcome(lambda: value.seek(3, 0)), outcome(value.readall), value.position))
                elif key != "_io":
                    out.append((key, repr(value)))
            return out, stream.tell()
        return outcome(go)

    for case in range(600):
        data = bytes(rnd.getrandbits(8) for _ in range(rnd.choice([4, 15, 16, 40, 400])))
        if rnd.random() < 0.7 and len(data) >= 15:
            words = rnd.randrange(0, 150)
            start = rnd.randrange(0, words + 1)
            end = rnd.choice([words, rnd.randrange(0, words + 3)])
            data = bytes([rnd.choice([1, 3])]) + start.to_bytes(4, "little") + \
                end.to_bytes(4, "little") + data[9:]
        skip = rnd.choice([0, 0, 1, 3])
        for shape in (sample_like, partition_like):
            for compiled in (False, True):
                check(
                    ("struct", case, shape.__name__, compiled),
                    use(shape(SubStreamConstruct, compiled), data, skip),
                    use(shape(OrigSubStreamConstruct, compiled), data, skip),
                )


def part_c(scratch):
    rnd = random.Random(1503)
    exported = 0
    calls = [0]

    def counting_eval_callable(self, x, context_inner):
        calls[0] += 1
        return OrigSubStreamConstruct._eval_callable(self, x, context_inner)

    missing = object()
    for n, (label, image) in enumerate(make_images(rnd)):
        live = export_image(image, scratch, "live%d" % n)
        live_code = SubStreamConstruct._parse.__code__
        saved_helper = SubStreamConstruct.__dict__.get("_eval_callable", missing)
        SubStreamConstruct._parse.__code__ = OrigSubStreamConstruct.__dict__["_parse"].__code__
        SubStreamConstruct._eval_callable = counting_eval_callable
        try:
            orig = export_image(image, scratch, "orig%d" % n)
        finally:
            SubStreamConstruct._parse.__code__ = live_code
            if saved_helper is missing:
                del SubStreamConstruct._eval_callable
            else:
                SubStreamConstruct._eval_callable = saved_helper
        check(("export", label), live, orig)
        exported += sum(1 for digest in live[2].values() if digest)
    print("wav files exported per run:", exported, "| original helper calls:", calls[0])
    check("exports are not vacuous", exported > 40, True)
    check("the original code really ran inside the compiled structs", calls[0] > 2 * exported, True)


def main():
    scratch = tempfile.mkdtemp(prefix="r15_demo_")
    try:
        part_a()
        part_b()
        part_c(scratch)
    finally:
        shutil.rmtree(scratch, ignore_errors=True)
    print("checks:", checks, "failures:", failures)
    return 1 if failures or not checks else 0


if __name__ == "__main__":
    sys.exit(main())
