"""Equivalence demo for r7 (smpl_extract/akai/file.py, FileAdapter._parse).
An inline copy of the ORIGINAL _parse is grafted onto a subclass; both are
driven (a) through a scripted stand-in for FileConstruct that returns values or
raises every relevant exception class and (b) through the real FileConstruct
on real/truncated/faulty sample files.  Results, exception types, messages,
__cause__ chains and the order of stream reads must all agree.
Exit 0 = all agree."""
import io
import random
import struct
import sys

from construct.core import ConstructError, Pass, StreamError
from construct.lib.containers import Container

import smpl_extract.akai.file as file_mod
from smpl_extract.akai.data_types import FileType, InvalidCharacter
from smpl_extract.akai.file import FileAdapter
from smpl_extract.util.fat import RequestedInvalidSector
from smpl_extract.util.stream import SectorReadError

FileConstruct = file_mod.FileConstruct  # rebound together with file_mod's


# ---- inline copy of the ORIGINAL implementation -------------------------
class OrigFileAdapter(FileAdapter):

    def _parse(self, stream, context, path):
        del path  # Unused
        try:
            file = FileConstruct.parse_stream(
                stream,
                **context
            )
        except (
                RequestedInvalidSector,
                InvalidCharacter,
                SectorReadError,
                struct.error
        ) as e:
            raise ConstructError from e

        return file
# -------------------------------------------------------------------------


def describe_exc(e):
    chain = []
    seen = 0
    while e is not None and seen < 6:
        chain.append((type(e).__name__, str(e), e.__suppress_context__,
                      type(e.__context__).__name__))
        e = e.__cause__
        seen += 1
    return chain


def describe_value(v):
    if hasattr(v, "__dataclass_fields__"):
        out = {}
        for k in v.__dataclass_fields__:
            val = getattr(v, k)
            if hasattr(val, "read"):
                val = ("stream", type(val).__name__, getattr(val, "offset", None),
                       getattr(val, "end_of_file", None))
            out[k] = repr(val)
        return (type(v).__name__, out)
    return (type(v).__name__, repr(v), id(v) if v is not None and not isinstance(v, (int, str)) else None)


def call(adapter, stream, context):
    try:
        res = adapter._parse(stream, context, "(demo)")
        return ("ok", res)
    except BaseException as e:  # noqa: BLE001
        return ("exc", describe_exc(e))


# ------------------------------------------------------------------ part (a)
class Scripted:
    def __init__(self):
        self.calls = []
        self.behaviour = None

    def parse_stream(self, stream, **kw):
        self.calls.append((stream, dict(kw)))
        return self.behaviour()


class SubStructError(struct.error):
    pass


class SubInvalidSector(RequestedInvalidSector):
    pass


def part_a():
    global FileConstruct
    failures = 0
    sentinel = object()
    values = [None, 0, "", [], sentinel, ("tuple",), Container(a=1), False]
    raisers = [
        RequestedInvalidSector, SubInvalidSector, InvalidCharacter,
        SectorReadError, struct.error, SubStructError,
        ConstructError, StreamError, ValueError, KeyError, IndexError,
        EOFError, AssertionError, OSError, StopIteration, KeyboardInterrupt,
    ]
    contexts = [
        {}, {"file_type": FileType.SAMPLE_S1000}, {"a": 1, "_": {"b": 2}},
        Container(file_type=FileType.PROGRAM_S3000, name="X"),
    ]
    real = file_mod.FileConstruct
    try:
        for ctx in contexts:
            behaviours = [(lambda v=v: v) for v in values]
            for exc_cls in raisers:
                for args in ((), ("msg",), ("a", 2)):
                    def b(exc_cls=exc_cls, args=args):
                        raise exc_cls(*args)
                    behaviours.append(b)

            def nested():
                try:
                    raise ValueError("inner")
                except ValueError as inner:
                    raise SectorReadError("outer") from inner
            behaviours.append(nested)

            for behaviour in behaviours:
                outs = []
                for cls in (FileAdapter, OrigFileAdapter):
                    fake = Scripted()
                    fake.behaviour = behaviour
                    file_mod.FileConstruct = fake
                    FileConstruct = fake
                    stream = io.BytesIO(b"abc")
                    adapter = cls("sat-object", Pass)
                    kind, payload = call(adapter, stream, ctx)
                    if kind == "ok":
                        payload = (payload is sentinel, repr(payload)
                                   if payload is not sentinel else "S")
                    outs.append((kind, payload,
                                 len(fake.calls),
                                 fake.calls[0][0] is stream,
                                 fake.calls[0][1] == dict(ctx),
                                 stream.tell()))
                if outs[0] != outs[1]:
                    failures += 1
                    print("MISMATCH (a)", outs)
    finally:
        file_mod.FileConstruct = real
        FileConstruct = real
    return failures


# ------------------------------------------------------------------ part (b)
class FaultyStream(io.BytesIO):
    """BytesIO that raises `exc` on the read that crosses byte `fail_at`."""
    def __init__(self, data, fail_at, exc, log):
        super().__init__(data)
        self.fail_at = fail_at
        self.exc = exc
        self.log = log

    def read(self, n=-1):
        pos = self.tell()
        self.log.append(("read", pos, n))
        if self.fail_at is not None and pos + max(n, 0) > self.fail_at:
            raise self.exc
        return super().read(n)


def make_sample_file(rng, bad_name=False, bad_enum=False):
    out = bytearray()
    out += bytes([9 if bad_enum else rng.choice((1, 3)), 0, rng.randrange(21, 100)])
    name = bytearray(rng.randrange(0, 0x29) for _ in range(12))
    if bad_name:
        name[rng.randrange(12)] = rng.randrange(0x29, 0x100)
    out += name
    out += bytes(4) + bytes([rng.randrange(0, 5)]) + struct.pack("<bb", 3, -4) + bytes(4)
    n_words = rng.randrange(0, 40)
    start = rng.randrange(0, n_words + 1)
    end = rng.randrange(start, n_words + 1)
    out += struct.pack("<III", n_words, start, end)
    for _ in range(8):
        out += struct.pack("<IHIH", rng.randrange(1000), 0, rng.randrange(1000),
                           rng.choice((0, 10, 9999)))
    out += bytes(4) + struct.pack("<H", rng.choice((0, 22050, 44100)))
    out += bytes(rng.randrange(256) for _ in range(2 * n_words))
    return bytes(out)


def part_b():
    rng = random.Random(777)
    failures = 0
    excs = [None, RequestedInvalidSector("ris"), SectorReadError("sre"),
            struct.error("se"), InvalidCharacter("ic"), ValueError("ve"),
            OSError("os"), StreamError("stream")]
    ftypes = [FileType.SAMPLE_S1000, FileType.SAMPLE_S3000, FileType.DRUM,
              FileType.QL, FileType.EFFECT, 0x00]
    n = 0
    for _ in range(400):
        data = make_sample_file(rng, bad_name=rng.random() < 0.15,
                                bad_enum=rng.random() < 0.1)
        if rng.random() < 0.2:
            data = data[:rng.randrange(0, 141)]
        exc = rng.choice(excs)
        fail_at = rng.randrange(0, 150) if exc is not None else None
        ftype = rng.choice(ftypes)
        outs = []
        for cls in (FileAdapter, OrigFileAdapter):
            log = []
            stream = FaultyStream(data, fail_at, exc, log)
            ctx = Container(file_type=ftype, _elem_name="SMP", _elem_parent=None,
                            _elem_routines={})
            kind, payload = call(cls(None, Pass), stream, ctx)
            if kind == "ok":
                payload = describe_value(payload)
                if payload[-1] is not None and len(payload) == 3:
                    payload = payload[:2]
            outs.append((kind, payload, log, stream.tell()))
        n += 1
        if outs[0] != outs[1]:
            failures += 1
            if failures < 5:
                print("MISMATCH (b)", ftype, fail_at, exc, outs[0][:2], outs[1][:2])
    kinds = {}
    return failures


def part_c():
    """Static facts about the adapter that must not have changed."""
    a = FileAdapter("S", Pass)
    ok = (a.sat == "S" and a.flagbuildnone is True and a._sizeof({}, "") == 0)
    try:
        a._build(None, None, None, None)
        ok = False
    except NotImplementedError:
        pass
    return 0 if ok else 1


def main():
    fa = part_a()
    fb = part_b()
    fc = part_c()
    print(f"part a failures={fa}, part b failures={fb}, part c failures={fc}")
    return 1 if (fa or fb or fc) else 0


if __name__ == "__main__":
    sys.exit(main())
