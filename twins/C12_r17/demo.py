"""Equivalence demo for r17: smpl_extract.util.stream.StreamReversed._read.

StreamReversed is the stream behind reverse-playing Roland samples; its _read
is what `stream.stream.read(size)` ends in when decode_frame or
PassthroughTranscoder.__next__ pull a block from such a stream.  The live
method is compared with an inline copy of the ORIGINAL implementation:

  1. direct _read calls for many (data, sample_width, size) combinations,
     including size 0, short underlying reads, sizes that are not a multiple
     of the sample width, negative sizes, -1 rows, float / zero sample widths
     (exceptions are compared by type and message);
  2. random read / seek / readall / tell sequences through the public API,
     comparing returned bytes or exception, position, true_size and the log
     of operations on the underlying stream;
  3. complete transcodings (1..3 reversed streams, widths 1/2/4, both byte
     orders, patched host byte order, several block sizes), byte for byte.

Exit 0 when everything agrees, 1 otherwise.
"""
from io import BytesIO
from io import SEEK_CUR
from io import SEEK_END
from io import SEEK_SET
import itertools
import random
import sys
from unittest.mock import patch

import numpy as np

import smpl_extract.transcoder as T
from smpl_extract.data_streams import DataStream
from smpl_extract.data_streams import Endianess
from smpl_extract.data_streams import StreamEncoding
from smpl_extract.util.stream import StreamReversed
from smpl_extract.util.stream import StreamWrapper


def _read_ORIG(self, size):
    raw = StreamWrapper._read(self, size)

    arr = np.frombuffer(raw, np.dtype("int8"))
    num_cols = self.sample_width
    num_rows = size // self.sample_width

    arr = np.reshape(arr, [num_rows, num_cols])
    arr = np.flip(arr, 0)
    arr = arr.flatten(order="C")

    result = arr.tobytes()
    return result


class StreamReversed_ORIG(StreamReversed):
    _read = _read_ORIG


class LoggedBytesIO(BytesIO):
    def __init__(self, data):
        super().__init__(data)
        self.log = []

    def seek(self, offset, whence=SEEK_SET):
        self.log.append(("seek", offset, whence))
        return super().seek(offset, whence)

    def tell(self):
        self.log.append(("tell",))
        return super().tell()

    def read(self, size=-1):
        self.log.append(("read", size))
        return super().read(size)


failures = []
checks = 0


def outcome(f, *args):
    try:
        value = f(*args)
        return ("ok", type(value).__name__, value)
    except Exception as e:  # noqa: BLE001 - compared by type and text
        return ("exc", type(e).__name__, str(e))


def check(label, a, b):
    global checks
    checks += 1
    if a != b:
        failures.append((label, a, b))


def pattern(n, seed=0):
    rnd = random.Random(seed)
    return bytes(rnd.randrange(256) for _ in range(n))


# ---------------------------------------------------------------- 1. direct
def direct_cases():
    widths = [1, 2, 3, 4, 8, 0, -1, -2, 2.0, 1.5, True]
    sizes = [0, 1, 2, 3, 4, 5, 6, 7, 8, 12, 16, 24, 64, -1, -2, -3, -4, 100]
    lengths = [0, 1, 2, 3, 4, 6, 8, 12, 16, 33]
    for width, size, length in itertools.product(widths, sizes, lengths):
        yield width, size, length


for width, size, length in direct_cases():
    data = pattern(length, seed=length)
    for start in (0, 1, 2):
        if start > length:
            continue
        sub_new = LoggedBytesIO(data)
        sub_old = LoggedBytesIO(data)
        new = StreamReversed(sub_new, length, sample_width=width)
        old = StreamReversed_ORIG(sub_old, length, sample_width=width)
        sub_new.seek(start)
        sub_old.seek(start)
        label = ("direct", width, size, length, start)
        check(label, outcome(new._read, size), outcome(old._read, size))
        check(label + ("log",), sub_new.log, sub_old.log)
        check(label + ("state",), (new.position, new.true_size),
              (old.position, old.true_size))


# ------------------------------------------------------------ 2. sequences
def run_sequence(cls, data, eof, width, ops):
    sub = LoggedBytesIO(data)
    stream = cls(sub, eof, sample_width=width)
    trace = []
    for op in ops:
        if op[0] == "read":
            trace.append(outcome(stream.read, op[1]))
        elif op[0] == "seek":
            trace.append(outcome(stream.seek, op[1], op[2]))
        elif op[0] == "readall":
            trace.append(outcome(stream.readall))
        else:
            trace.append(outcome(stream.tell))
        trace.append((stream.position, stream.true_size))
    return trace, sub.log


rnd = random.Random(1234)
for case in range(600):
    width = rnd.choice([1, 1, 2, 2, 3, 4])
    frames = rnd.randrange(0, 40)
    length = frames * width + rnd.choice([0, 0, 0, 1])
    data = pattern(length, seed=case)
    eof = rnd.choice([length, length, length, max(0, length - width), 0,
                      length + width])
    ops = []
    for _ in range(rnd.randrange(1, 12)):
        kind = rnd.choice(["read", "read", "read", "seek", "readall", "tell"])
        if kind == "read":
            size = rnd.choice([0, width, 2 * width, 3 * width, 5 * width,
                               1, 3, 7, 4096, None, -1])
            ops.append(("read", size))
        elif kind == "seek":
            whence = rnd.choice([SEEK_SET, SEEK_CUR, SEEK_END])
            offset = rnd.choice([0, width, -width, 2 * width, 1, -1,
                                 length, -length, 1000])
            ops.append(("seek", offset, whence))
        else:
            ops.append((kind,))
    got_new = run_sequence(StreamReversed, data, eof, width, ops)
    got_old = run_sequence(StreamReversed_ORIG, data, eof, width, ops)
    check(("sequence", case, width, length, eof, tuple(ops)), got_new, got_old)


# hand-written: the reversal keeps the byte order inside each sample
for width in (1, 2, 3, 4):
    data = bytes(range(6 * width))
    stream = StreamReversed(BytesIO(data), len(data), sample_width=width)
    expected = b"".join(
        data[i * width:(i + 1) * width] for i in reversed(range(6))
    )
    check(("known", width), stream.read(len(data)), expected)


# --------------------------------------------------------- 3. transcodings
def transcode(cls, sources, host, block):
    streams = []
    total = 0
    width = sources[0][1]
    for data, w, order in sources:
        enc = StreamEncoding(endianess=order, sample_width=w,
                             num_interleaved_channels=1)
        streams.append(DataStream(cls(BytesIO(data), len(data),
                                      sample_width=w), enc))
        total += 1
    dest = StreamEncoding(endianess=Endianess.LITTLE, sample_width=width,
                          num_interleaved_channels=total)
    out = []
    try:
        with patch.object(T, "system_byte_order", host), \
                patch.object(T, "_DEFAULT_BUFFER_SIZE", block):
            defaults = T.get_num_frames_possible.__defaults__
            T.get_num_frames_possible.__defaults__ = (block,)
            try:
                transcoder = T.make_transcoder(streams, dest)
                out.append(type(transcoder).__name__)
                for chunk in transcoder:
                    out.append(bytes(chunk))
            finally:
                T.get_num_frames_possible.__defaults__ = defaults
    except Exception as e:  # noqa: BLE001
        out.append(("exc", type(e).__name__, str(e)))
    return out


orders = [Endianess.LITTLE, Endianess.BIG]
rnd = random.Random(99)
for num_streams in (1, 2, 3):
    for width in (1, 2, 4):
        for stream_orders in itertools.product(orders, repeat=num_streams):
            for host in orders:
                for block in (1, width, 3 * width, 64, 4096):
                    lengths_set = [
                        [5 * width] * num_streams,
                        [rnd.randrange(0, 30) * width
                         for _ in range(num_streams)],
                        [0] * num_streams,
                    ]
                    for lengths in lengths_set:
                        sources = [
                            (pattern(n, seed=n + i), width, stream_orders[i])
                            for i, n in enumerate(lengths)
                        ]
                        label = ("transcode", num_streams, width,
                                 stream_orders, host, block, tuple(lengths))
                        check(label,
                              transcode(StreamReversed, sources, host, block),
                              transcode(StreamReversed_ORIG, sources, host,
                                        block))


print(f"{checks} checks, {len(failures)} disagreements")
for failure in failures[:10]:
    print("DISAGREE", failure)
sys.exit(1 if failures else 0)
