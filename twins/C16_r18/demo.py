"""Equivalence demo for r18: _pull_from_context (smpl_extract/util/constructs.py),
the lookup that reads the `_elem_parent` / `_elem_routines` / `_elem_name` keys
which wrap_child_realization (and the parse calls) put into the construct
context.

Part 1: the live function and an inline copy of the ORIGINAL get the same
randomly built context chains (plain dicts, construct Containers and a logging
dict subclass that records every keys()/[] access; 0-4 levels deep; the key
at any level or nowhere; "_" missing, or not a mapping; values None / falsy).
Compared: returned object (identity), escaping exception (type, args) and the
exact order of reads on the logging contexts.

Part 2: pull_child_info and ElementAdapter._decode are run with the original
lookup monkey-patched in versus the live one on the same contexts.
"""
import random
import sys

from construct.core import Pass
from construct.lib.containers import Container

from smpl_extract.util import constructs as constructs_module
from smpl_extract.util.constructs import ElementAdapter
from smpl_extract.util.constructs import pull_child_info

live_pull_from_context = constructs_module._pull_from_context


# --------------------------------------------------------------------------
# inline copy of the ORIGINAL implementation
# --------------------------------------------------------------------------
def orig_pull_from_context(context, key, default = None):
    current_context = context
    for i in range(2):
        if key in current_context.keys():
            result = current_context[key]
            return result
        if "_" not in current_context.keys():
            break
        current_context = current_context["_"]
    result = default
    return result


class LoggingDict(dict):
    def __init__(self, log, label, *args, **kwargs):
        super().__init__(*args, **kwargs)
        self.log = log
        self.label = label

    def keys(self):
        self.log.append((self.label, "keys"))
        return super().keys()

    def __getitem__(self, key):
        self.log.append((self.label, "get", key))
        return super().__getitem__(key)

    def __contains__(self, key):
        self.log.append((self.label, "contains", key))
        return super().__contains__(key)


class FakeParent:
    def __init__(self, path):
        self.path = path


KEYS = ["_elem_parent", "_elem_routines", "_elem_name", "name", "_", "x", ""]
SENTINELS = [None, 0, "", [], {}, False, "value", 7, ("t",), object(), FakeParent(["a", "b"])]


def build_chain(rng, log):
    depth = rng.randrange(0, 5)
    kind = rng.choice(["dict", "container", "logging"])
    levels = []
    for level in range(depth + 1):
        content = {}
        for key in KEYS:
            if key == "_":
                continue
            if rng.random() < 0.25:
                content[key] = rng.choice(SENTINELS)
        levels.append(content)
    # link from the innermost outwards
    chain = None
    for level in reversed(range(depth + 1)):
        content = levels[level]
        if chain is not None:
            content["_"] = chain
        elif rng.random() < 0.15:
            content["_"] = rng.choice([None, 5, "text", [1, 2]])  # not a mapping
        if kind == "dict":
            chain = dict(content)
        elif kind == "container":
            chain = Container(content)
        else:
            chain = LoggingDict(log, level, content)
    return chain


def call(func, *args):
    try:
        return ("ok", func(*args))
    except BaseException as exc:  # noqa
        return ("exc", type(exc).__name__, repr(exc.args))


def same(a, b):
    if a[0] != b[0]:
        return False
    if a[0] == "ok":
        return a[1] is b[1]
    return a == b


def part1():
    rng = random.Random(1818)
    failures = 0
    for case in range(20000):
        log = []
        chain = build_chain(rng, log)
        key = rng.choice(KEYS)
        default = rng.choice(SENTINELS)
        use_default = rng.random() < 0.7

        args = (chain, key, default) if use_default else (chain, key)
        del log[:]
        expected = call(orig_pull_from_context, *args)
        expected_log = list(log)
        del log[:]
        actual = call(live_pull_from_context, *args)
        actual_log = list(log)
        if not same(expected, actual) or expected_log != actual_log:
            failures += 1
            if failures < 5:
                print("MISMATCH part1", case, key, expected, actual, expected_log, actual_log)
    # non-mapping context objects
    for bad in (None, 3, "abc", [1]):
        expected = call(orig_pull_from_context, bad, "k", 1)
        actual = call(live_pull_from_context, bad, "k", 1)
        if expected != actual:
            failures += 1
            print("MISMATCH part1 bad context", bad, expected, actual)
    return failures


class RecordingAdapter(ElementAdapter):
    def _decode_element(self, obj, child_info, context, path):
        return (obj, child_info, path)


def child_info_view(info):
    return (
        id(info.parent), info.parent_path, info.next_path,
        # a missing routines key yields a fresh [] per call, so compare by value
        type(info.routines).__name__, repr(info.routines), info.name,
    )


def part2():
    rng = random.Random(181818)
    failures = 0
    for case in range(6000):
        log = []
        chain = build_chain(rng, log)
        # make sure a usable parent shows up often
        if rng.random() < 0.6 and isinstance(chain, dict):
            target = chain
            if rng.random() < 0.5 and isinstance(chain.get("_", None), dict):
                target = dict.__getitem__(chain, "_")
            dict.__setitem__(target, "_elem_parent", FakeParent([str(case)]))
        name = rng.choice([None, None, "n", ""])
        name_key = rng.choice([None, "name", "x", "missing"])

        results = []
        for func in (orig_pull_from_context, live_pull_from_context):
            constructs_module._pull_from_context = func
            try:
                del log[:]
                first = call(pull_child_info, chain, name)
                if first[0] == "ok":
                    first = ("ok-info", child_info_view(first[1]))
                first_log = list(log)
                del log[:]
                second = call(RecordingAdapter(Pass, name_key)._decode, "obj", chain, "path")
                if second[0] == "ok":
                    obj, info, path = second[1]
                    second = ("ok-decode", obj, child_info_view(info), path)
                second_log = list(log)
            finally:
                constructs_module._pull_from_context = live_pull_from_context
            results.append((first, first_log, second, second_log))
        if results[0] != results[1]:
            failures += 1
            if failures < 5:
                print("MISMATCH part2", case, results)
    return failures


def main():
    failures = part1() + part2()
    print("failures:", failures)
    return 1 if failures else 0


if __name__ == "__main__":
    sys.exit(main())
