"""Equivalence demo for r19: smpl_extract/util/constructs.py,
pass_expression_deeper (the helper every *EntryConstruct factory of mechanism
'index -> directory/parameter record addressing' uses to re-root its index
expression one context level deeper before multiplying it by the record size).

Refactoring: the two closures `lambda this: expression(this._)` and
`lambda this: expression` became `functools.partial` objects over two new
private module functions `_evaluate_in_parent(expression, this)` and
`_constant_expression(expression, this)`.

An inline copy of the ORIGINAL function is compared with the working-tree one:
  (1) direct calls: callables (lambdas, construct `this` expressions, bound
      methods, classes), constants (ints, None, strings, lists - identity is
      checked), contexts with / without a parent `_`, plain dicts, exceptions
      raised by the expression or by the missing parent (type + message), lazy
      evaluation (late-bound cell contents, call counts), positional and
      keyword call styles, nesting two levels deep,
  (2) use inside construct (`Computed`, `Pointer`, `ExprValidator`),
  (3) the five *EntryConstruct factories built once with the live helper and
      once with the original helper, parsed over a synthetic directory +
      parameter area for constant, callable, negative, out-of-range indices:
      parsed containers, lazily realised patch lists, and the exact
      seek/read/tell calls on the shared stream,
  (4) precomputed addresses.
Exit 0 when everything agrees, 1 otherwise.
"""
import dataclasses
import io
import random
import struct
import sys
from typing import Any
from typing import Callable

from construct.core import Bytes
from construct.core import Computed
from construct.core import ExprValidator
from construct.core import Pointer
from construct.core import Struct
from construct.expr import this as this_expr
from construct.lib.containers import Container

from smpl_extract.roland.s7xx import data_types as dt
from smpl_extract.roland.s7xx import partial_entry
from smpl_extract.roland.s7xx import patch_entry
from smpl_extract.roland.s7xx import performance_entry
from smpl_extract.roland.s7xx import sample_entry
from smpl_extract.roland.s7xx import volume_entry
from smpl_extract.util import constructs as live
from smpl_extract.util.constructs import SafeListConstruct


# ---------------------------------------------------------------- original --
def original_pass_expression_deeper(expression: Any) -> Callable:
    if callable(expression):
        new_expression = lambda this: expression(this._)
    else:
        new_expression = lambda this: expression
        
    return new_expression
# -----------------------------------------------------------------------------

failures = []


def check(cond, what):
    if not cond:
        failures.append(what)
        print("MISMATCH:", what)


def outcome(fn):
    try:
        return ("ok", fn())
    except BaseException as e:  # noqa: BLE001
        return ("exc", type(e).__name__, str(e))


# ------------------------------------------------------------------ part 1 --
class Counter:
    def __init__(self):
        self.calls = []

    def __call__(self, ctx):
        self.calls.append(ctx)
        return ctx["_index"] * 3 + len(self.calls)

    def method(self, ctx):
        return ("m", ctx.get("_index"))


def boom(ctx):
    raise KeyError("boom %r" % (ctx.get("_index"),))


def direct_cases():
    n = 0
    counter_a, counter_b = Counter(), Counter()
    shared_list = [1, 2, 3]
    cell = {"v": 1}
    callables = [
        ("lambda _index", lambda c: c._index, lambda c: c._index),
        ("lambda item", lambda c: c["ptrs"][c["_index"]], lambda c: c["ptrs"][c["_index"]]),
        ("this expr", this_expr._index, this_expr._index),
        ("this arithmetic", this_expr._index * 2 + 1, this_expr._index * 2 + 1),
        ("this missing", this_expr.nope, this_expr.nope),
        ("counter", counter_a, counter_b),
        ("bound method", counter_a.method, counter_b.method),
        ("class", dict, dict),
        ("builtin", len, len),
        ("raises", boom, boom),
        ("late bound", lambda c: cell["v"], lambda c: cell["v"]),
        ("returns ctx", lambda c: c, lambda c: c),
    ]
    constants = [0, 1, -1, 5, 0x1fff, 0x2000, 2 ** 40, None, "7", 1.5, True,
                 shared_list, (1, 2), {"a": 1}, b"\x00"]

    def contexts():
        parent = Container(_index=4, ptrs=[9, 8, 7, 6, 5, 4], parameter=Container(x=1))
        grand = Container(_index=2, ptrs=[1, 1, 1])
        parent["_"] = grand
        return [
            Container(_=parent, _index=11),
            Container(_=Container(), _index=1),
            Container(_index=3),                 # no parent
            Container(_=None),
            Container(_=Container(_index=-3, ptrs=[5])),
            {"_": {"_index": 1, "ptrs": [0, 2]}},  # plain dict: no attribute access
            None,
            object(),
        ]

    for name, ea, eb in callables:
        fa = live.pass_expression_deeper(ea)
        fb = original_pass_expression_deeper(eb)
        check(callable(fa) and callable(fb), f"callable result {name}")
        for i, (ca, cb) in enumerate(zip(contexts(), contexts())):
            ra, rb = outcome(lambda: fa(ca)), outcome(lambda: fb(cb))
            if name == "returns ctx" and ra[0] == "ok":
                check(ra[1] is ca._ and rb[1] is cb._, f"identity {name} ctx{i}")
                ra, rb = ra[0], rb[0]
            check(ra == rb, f"direct {name} ctx{i}: {ra!r} vs {rb!r}")
            n += 1
        # keyword call style
        ca, cb = contexts()[0], contexts()[0]
        check(outcome(lambda: fa(this=ca)) == outcome(lambda: fb(this=cb)), f"keyword {name}")
        # two levels deep
        fa2 = live.pass_expression_deeper(fa)
        fb2 = original_pass_expression_deeper(fb)
        deep_a = Container(_=Container(_=contexts()[0]._))
        deep_b = Container(_=Container(_=contexts()[0]._))
        check(outcome(lambda: fa2(deep_a)) == outcome(lambda: fb2(deep_b)), f"nested {name}")
        n += 2
    check(len(counter_a.calls) == len(counter_b.calls) and len(counter_a.calls) > 0, "call counts")
    check([type(c).__name__ for c in counter_a.calls] == [type(c).__name__ for c in counter_b.calls],
          "call arguments")
    # lazy: nothing is evaluated when the wrapper is created
    probe_a, probe_b = Counter(), Counter()
    live.pass_expression_deeper(probe_a)
    original_pass_expression_deeper(probe_b)
    check(probe_a.calls == [] and probe_b.calls == [], "no evaluation at wrap time")
    # late binding of what the expression itself looks up
    fa = live.pass_expression_deeper(lambda c: cell["v"])
    fb = original_pass_expression_deeper(lambda c: cell["v"])
    cell["v"] = 99
    check(fa(Container(_=1)) == fb(Container(_=1)) == 99, "late bound value")

    for const in constants:
        fa = live.pass_expression_deeper(const)
        fb = original_pass_expression_deeper(const)
        for i, ctx in enumerate(contexts()):
            ra, rb = outcome(lambda: fa(ctx)), outcome(lambda: fb(ctx))
            check(ra == rb and ra[0] == "ok", f"constant {const!r} ctx{i}")
            check(ra[1] is const and rb[1] is const, f"constant identity {const!r} ctx{i}")
            n += 1
        check(outcome(lambda: fa(this=None)) == outcome(lambda: fb(this=None)), f"constant keyword {const!r}")
    return n


# ------------------------------------------------------------------ part 2 --
def construct_cases():
    n = 0
    data = bytes(range(256)) * 4
    for expr_a, expr_b in ((3, 3), (lambda c: c.base + 2, lambda c: c.base + 2),
                           (this_expr.base * 4, this_expr.base * 4), (-1, -1), (2000, 2000)):
        results = []
        for helper, expr in ((live.pass_expression_deeper, expr_a),
                             (original_pass_expression_deeper, expr_b)):
            deeper = helper(expr)
            decl = Struct(
                "base" / Computed(7),
                "inner" / Struct(
                    ExprValidator(Computed(lambda c: deeper(c)), lambda obj, ctx: 0 <= obj < 500),
                    "index" / Computed(deeper),
                    "cell" / Pointer(lambda c: 2 * deeper(c) + 1, Bytes(3)),
                ),
            )
            results.append(outcome(lambda: repr(decl.parse(data))))
        check(results[0] == results[1], f"construct use {expr_a!r}: {results}")
        n += 1
    return n


# ------------------------------------------------------------------ part 3 --
class Recorder(io.BytesIO):
    def __init__(self, data):
        super().__init__(data)
        self.log = []

    def seek(self, *a):
        r = super().seek(*a)
        self.log.append(("seek", a, r))
        return r

    def tell(self):
        r = super().tell()
        self.log.append(("tell", r))
        return r

    def read(self, *a):
        r = super().read(*a)
        self.log.append(("read", a, len(r)))
        return r


def field_offset(struct_decl, name):
    offset = 0
    for sc in struct_decl.subcons:
        if sc.name == name:
            return offset
        offset += sc.sizeof()
    raise KeyError(name)


LEVELS = {
    "volume": (dt.VOLUME_DIRECTORY_AREA_OFFSET, dt.VOLUME_DIRECTORY_ENTRY_SIZE,
               dt.VOLUME_PARAMETER_AREA_OFFSET, dt.VOLUME_PARAMETER_ENTRY_SIZE, dt.MAX_NUM_VOLUME),
    "performance": (dt.PERFORMANCE_DIRECTORY_AREA_OFFSET, dt.PERFORMANCE_DIRECTORY_ENTRY_SIZE,
                    dt.PERFORMANCE_PARAMETER_AREA_OFFSET, dt.PERFORMANCE_PARAMETER_ENTRY_SIZE,
                    dt.MAX_NUM_PERFORMANCE),
    "patch": (dt.PATCH_DIRECTORY_AREA_OFFSET, dt.PATCH_DIRECTORY_ENTRY_SIZE,
              dt.PATCH_PARAMETER_AREA_OFFSET, dt.PATCH_PARAMETER_ENTRY_SIZE, dt.MAX_NUM_PATCH),
    "partial": (dt.PARTIAL_DIRECTORY_AREA_OFFSET, dt.PARTIAL_DIRECTORY_ENTRY_SIZE,
                dt.PARTIAL_PARAMETER_AREA_OFFSET, dt.PARTIAL_PARAMETER_ENTRY_SIZE, dt.MAX_NUM_PARTIAL),
    "sample": (dt.SAMPLE_DIRECTORY_AREA_OFFSET, dt.SAMPLE_DIRECTORY_ENTRY_SIZE,
               dt.SAMPLE_PARAMETER_AREA_OFFSET, dt.SAMPLE_PARAMETER_ENTRY_SIZE, dt.MAX_NUM_SAMPLE),
}


def build_image(rng):
    size = dt.DATA_AREA_OFFSET
    buf = bytearray(size)
    lo, hi = dt.TOTAL_DIRECTORY_AREA_OFFSET, dt.DATA_AREA_OFFSET
    buf[lo:hi] = bytes(rng.choice(b"ABCDEFGHIJ 0123456789abcdef") for _ in range(4096)) * ((hi - lo) // 4096 + 1)
    del buf[size:]
    # make every record distinguishable: its own index in the name
    for level, (d_off, d_size, p_off, p_size, max_n) in LEVELS.items():
        for idx in list(range(0, 12)) + [max_n - 1]:
            tag = ("%s%05d" % (level[:3], idx)).encode("ascii").ljust(16)
            buf[d_off + idx * d_size:d_off + idx * d_size + 16] = tag
            buf[p_off + idx * p_size:p_off + idx * p_size + 16] = tag[::-1]
            buf[d_off + idx * d_size + 16] = rng.choice([0x40, 0x41, 0x42, 0x43, 0x44, 0x00, 0x7f])
    # pointer lists with in-range, duplicate, negative and out-of-range entries
    def put_ptrs(level, struct_decl, field, count, max_child):
        d_off, d_size, p_off, p_size, max_n = LEVELS[level]
        off = field_offset(struct_decl, field)
        for idx in list(range(0, 12)) + [max_n - 1]:
            ptrs = [rng.choice([-1, -1, 0, 1, 2, 3, 5, 11, max_child - 1, max_child, 0x7fff, -2])
                    for _ in range(count)]
            base = p_off + idx * p_size + off
            buf[base:base + 2 * count] = struct.pack("<%dh" % count, *ptrs)
    put_ptrs("volume", volume_entry.VolumeParamEntryStruct, "performance_ptrs", 64, dt.MAX_NUM_PERFORMANCE)
    put_ptrs("performance", performance_entry.PerformanceParamEntryStruct, "patch_list", 32, dt.MAX_NUM_PATCH)
    put_ptrs("patch", patch_entry.PatchParamEntryStruct, "partial_list", dt.NUM_KEYS, dt.MAX_NUM_PARTIAL)
    return bytes(buf)


def plain(x, depth=0):
    if depth > 12:
        return "<deep>"
    if dataclasses.is_dataclass(x) and not isinstance(x, type):
        return (type(x).__name__, {f.name: plain(getattr(x, f.name), depth + 1)
                                   for f in dataclasses.fields(x)})
    if isinstance(x, dict):
        return {k: plain(v, depth + 1) for k, v in x.items()
                if not (isinstance(k, str) and k.startswith("_"))}
    if isinstance(x, (list, tuple)):
        return [plain(v, depth + 1) for v in x]
    if isinstance(x, io.IOBase):
        return "<stream %s>" % type(x).__name__
    if callable(x):
        return "<callable>"
    return x


MODULES = (volume_entry, performance_entry, patch_entry, partial_entry, sample_entry)
FACTORIES = {
    "volume": lambda: volume_entry.VolumeEntryConstruct,
    "performance": lambda: performance_entry.PerformanceEntryConstruct,
    "patch": lambda: patch_entry.PatchEntryConstruct,
    "partial": lambda: partial_entry.PartialEntryConstruct,
    "sample": lambda: sample_entry.SampleEntryConstruct,
}


def with_helper(helper, fn):
    saved = [m.pass_expression_deeper for m in MODULES]
    for m in MODULES:
        m.pass_expression_deeper = helper
    try:
        return fn()
    finally:
        for m, s in zip(MODULES, saved):
            m.pass_expression_deeper = s


def parse_level(level, index_spec, image):
    """Build the level's construct (with whatever helper is installed) and parse."""
    factory = FACTORIES[level]()
    kind, value = index_spec
    stream = Recorder(image)
    if kind == "const":
        decl = factory(value)
        ctx = Container(_parsing=True, _building=False, _sizing=False, _params=Container(), _index=6)
        run = lambda: [decl._parsereport(stream, ctx, "(demo)")]
    else:  # list of pointers, addressed through this._index like the real callers
        ptrs = value
        decl = SafeListConstruct(len(ptrs), factory(lambda this: ptrs[this._index]))
        ctx = Container(_parsing=True, _building=False, _sizing=False, _params=Container())
        run = lambda: decl._parsereport(stream, ctx, "(demo)")
    try:
        entries = run()
    except Exception as e:  # noqa: BLE001
        return ("exc", type(e).__name__, str(e), list(stream.log))
    summary = [plain(e) for e in entries]
    lazies = []
    if level == "performance":
        for e in entries:
            try:
                lazies.append(plain(e.patch_entries()))
            except Exception as ex:  # noqa: BLE001
                lazies.append((type(ex).__name__, str(ex)))
    return ("ok", summary, lazies, list(stream.log))


def factory_cases():
    n = 0
    rng = random.Random(19)
    image = build_image(rng)
    nonempty = 0
    for level, (d_off, d_size, p_off, p_size, max_n) in LEVELS.items():
        specs = [("const", v) for v in (0, 1, 5, 11, max_n - 1, max_n, max_n + 7, -1, -40000, 10 ** 7)]
        specs += [("const", None), ("const", "3"), ("const", 2.0)]
        specs += [("ptrs", [0, 1, 2, 3]), ("ptrs", [11, 5, 5, max_n - 1, max_n, -1, 2]),
                  ("ptrs", []), ("ptrs", [rng.randrange(-3, 14) for _ in range(20)])]
        for spec in specs:
            a = with_helper(live.pass_expression_deeper, lambda: parse_level(level, spec, image))
            b = with_helper(original_pass_expression_deeper, lambda: parse_level(level, spec, image))
            check(a == b, f"factory {level} {spec}")
            if a[0] == "ok" and a[1]:
                nonempty += 1
            n += 1
    check(nonempty >= 20, f"only {nonempty} parses produced entries")

    # (4) precomputed addresses for the sample level, index 5
    entry = sample_entry.SampleEntryConstruct(5)
    stream = Recorder(image)
    entry.parse_stream(stream, _index=0)
    seeks = [a[0] for (op, a, *_r) in [l for l in stream.log if l[0] == "seek"]]
    check(dt.SAMPLE_DIRECTORY_AREA_OFFSET + 5 * 0x20 in seeks, "directory address of sample 5")
    check(dt.SAMPLE_PARAMETER_AREA_OFFSET + 5 * 0x30 in seeks, "parameter address of sample 5")
    return n


def main():
    check(all(m.pass_expression_deeper is live.pass_expression_deeper for m in MODULES),
          "entry modules use the live helper")
    n1 = direct_cases()
    n2 = construct_cases()
    n3 = factory_cases()
    print(f"{n1} direct calls, {n2} construct uses, {n3} factory parses, {len(failures)} mismatches")
    return 1 if failures else 0


if __name__ == "__main__":
    sys.exit(main())
