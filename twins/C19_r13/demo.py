"""Equivalence demo for the CDXtract FIR preset table refactoring (common.py).

smpl_extract/filters/common.py is live Python.  The refactoring only changes
HOW the module-level tap table `_cdxtract_roland_deemph_h` is built (a tuple of
raw byte strings decoded by a small builder function instead of one literal
np.asarray([...]) call).  The demo pastes the ORIGINAL construction inline and
compares

  * the table: dtype, shape, flags, bytes, and that it is one module-level
    object shared by every CdXtractRolandDeemphFilter instance (`f.h is table`),
  * `_bytes_to_double` against the inline original on many byte strings
    (all sign/exponent corner cases, wrong lengths, wrong types),
  * block-wise streaming of CdXtractRolandDeemphFilter (every composition of
    short signals, random splits of long/extreme int16 and float signals,
    reset in the middle, reuse after flush) against a FirFilter that is fed
    the ORIGINAL table, and against a pure-Python copy of the original
    FirFilter class text,
  * the other names of the module are still there and untouched.

Exit 0 when everything agrees, 1 otherwise.
"""
import itertools
import random
import struct
import sys
import warnings

import numpy as np

from smpl_extract.filters import common
from smpl_extract.filters.fir import FirFilter

warnings.simplefilter("ignore")


# ----------------------------------------------------------------- ORIGINAL
def _orig_bytes_to_double(x: bytes) -> float:
    y = struct.unpack(">d", x)[0]
    return y


_orig_cdxtract_roland_deemph_h = np.asarray(
    [
        _orig_bytes_to_double(b"\x3F\x74\xC0\x29\x80\x53\x00\xA6"),  # 0.005066072573015534
        _orig_bytes_to_double(b"\x3F\xD4\x32\xA8\x65\x50\xCA\xA2"),  # 0.315591906491287
        _orig_bytes_to_double(b"\x3F\xE3\x50\xE6\xA1\xCD\x43\x9B"),  # 0.6036255989257485
        _orig_bytes_to_double(b"\x3F\xB3\x62\x26\xC4\x4D\x88\x9B"),  # 0.07571642200994903
        0.0,
        0.0,
        0.0,
        0.0
    ],
    dtype=np.double
)


class OrigCdXtractRolandDeemphFilter(FirFilter):
    def __init__(self) -> None:
        super().__init__(_orig_cdxtract_roland_deemph_h)


class PyFirFilter:
    """plain-Python copy of the original FirFilter class text of fir.pyx"""

    def __init__(self, h, delay_offset=0):
        self.N = len(h)
        self.h = h
        self.m0 = delay_offset
        self.m1 = self.N - self.m0 - 1
        self.x_prev = np.zeros(self.m1)

    def reset_state(self, **kwargs):
        x_prev = kwargs.get("x_prev", None)
        x_prev = x_prev or np.zeros(self.m1)
        self.x_prev = x_prev

    def convolve_valid(self, x, h):
        if np.size(x) < np.size(h):
            return np.asarray([], dtype=x.dtype)
        y = np.convolve(x, h, "valid")
        return y

    def process(self, x):
        dtype = x.dtype
        x_full = np.concatenate([self.x_prev, x])
        self.x_prev = x[-(self.N - 1):]
        y = self.convolve_valid(x_full, self.h).astype(dtype)
        return y

    def get_remaining(self):
        dtype = self.x_prev.dtype
        x_full = np.concatenate([self.x_prev, np.zeros(self.m0)])
        y = self.convolve_valid(x_full, self.h).astype(dtype)
        self.reset_state()
        return y


class PyOrigCdXtract(PyFirFilter):
    def __init__(self):
        super().__init__(_orig_cdxtract_roland_deemph_h)


# ------------------------------------------------------------------ helpers
FAILS = []
CHECKS = [0]


def expect(label, ok, *info):
    CHECKS[0] += 1
    if not ok:
        FAILS.append((label,) + info)


def same_arr(a, b):
    return (isinstance(a, np.ndarray) and isinstance(b, np.ndarray) and a.dtype == b.dtype
            and a.shape == b.shape and a.tobytes() == b.tobytes())


def outcome(fn):
    try:
        return ("ok", fn())
    except BaseException as e:  # noqa
        return ("exc", type(e).__name__, str(e))


def same_outcome(a, b, cmp=same_arr):
    if a[0] != b[0]:
        return False
    if a[0] == "exc":
        return a[1:] == b[1:]
    return cmp(a[1], b[1])


def state(f):
    return {k: ((v.dtype, v.shape, v.tobytes()) if isinstance(v, np.ndarray) else v)
            for k, v in sorted(vars(f).items())}


rng = random.Random(1913)
nrng = np.random.default_rng(1913)


def splits(n):
    if n == 0:
        yield []
        return
    if n <= 9:
        for bits in itertools.product([0, 1], repeat=n - 1):
            yield [i + 1 for i, b in enumerate(bits) if b] + [n]
    else:
        yield [n]
        yield list(range(1, n + 1))
        for _ in range(6):
            k = rng.randint(0, min(n - 1, 12))
            yield sorted(rng.sample(range(1, n), k)) + [n]


def run_stream(f, x, cuts, reset_at=None):
    out = []
    lo = 0
    for j, hi in enumerate(cuts):
        if reset_at is not None and j == reset_at:
            f.reset_state()
        out.append(f.process(x[lo:hi]))
        lo = hi
    out.append(f.get_remaining())
    return out


def same_list(a, b):
    return len(a) == len(b) and all(same_arr(p, q) for p, q in zip(a, b))


def main():
    table = common._cdxtract_roland_deemph_h
    orig = _orig_cdxtract_roland_deemph_h

    # 1. the table itself
    expect("table type", type(table) is np.ndarray)
    expect("table equal", same_arr(table, orig), table, orig)
    expect("table ndim/len", table.ndim == 1 and len(table) == 8 and np.size(table) == 8)
    for flag in ("C_CONTIGUOUS", "F_CONTIGUOUS", "OWNDATA", "WRITEABLE", "ALIGNED"):
        expect("table flag " + flag, table.flags[flag] == orig.flags[flag], flag)
    expect("table strides", table.strides == orig.strides)
    expect("table values", [repr(float(v)) for v in table]
           == ["0.005066072573015534", "0.315591906491287", "0.6036255989257485",
               "0.07571642200994903", "0.0", "0.0", "0.0", "0.0"], list(table))
    expect("table sign of zeros", [np.signbit(v) for v in table[4:]] == [False] * 4)
    f1, f2 = common.CdXtractRolandDeemphFilter(), common.CdXtractRolandDeemphFilter()
    expect("shared table object", f1.h is table and f2.h is table)
    expect("still module attribute", common._cdxtract_roland_deemph_h is table)

    # 2. _bytes_to_double
    cases = [b"\x3F\x74\xC0\x29\x80\x53\x00\xA6", b"\x3F\xD4\x32\xA8\x65\x50\xCA\xA2",
             b"\x3F\xE3\x50\xE6\xA1\xCD\x43\x9B", b"\x3F\xB3\x62\x26\xC4\x4D\x88\x9B",
             b"\x00" * 8, b"\x80" + b"\x00" * 7, b"\xff" * 8, b"\x7f\xf0" + b"\x00" * 6,
             b"\xff\xf0" + b"\x00" * 6, b"\x7f\xf8" + b"\x00" * 6, b"\x00" * 7 + b"\x01",
             b"\x7f\xef" + b"\xff" * 6, b"\x3f\xf0" + b"\x00" * 6]
    cases += [bytes(rng.randrange(256) for _ in range(8)) for _ in range(3000)]
    cases += [bytearray(c) for c in cases[:5]] + [memoryview(cases[0])]
    bad = [b"", b"\x00", b"\x00" * 7, b"\x00" * 9, b"\x00" * 16, "12345678", None, 1.0, 8,
           [0] * 8, (b"\x00" * 8,), np.zeros(8, dtype=np.uint8), np.zeros(1, dtype=np.float64)]

    def same_float(a, b):
        return type(a) is type(b) is float and struct.pack(">d", a) == struct.pack(">d", b)

    for c in cases + bad:
        a = outcome(lambda: _orig_bytes_to_double(c))
        b = outcome(lambda: common._bytes_to_double(c))
        expect("_bytes_to_double", same_outcome(a, b, same_float), c, a, b)
    for c in cases[:13]:
        if isinstance(c, bytes):
            expect("round trip", struct.pack(">d", common._bytes_to_double(c)) == c
                   or c[:2] in (b"\xff\xff", b"\x7f\xf8"), c)

    # 3. streaming: preset vs FirFilter(original table) vs plain-Python original
    sigs = []
    for n in range(0, 10):
        sigs.append(nrng.integers(-32768, 32768, n).astype(np.int16))
    sigs.append(np.full(40, 32767, dtype=np.int16))
    sigs.append(np.full(40, -32768, dtype=np.int16))
    sigs.append(np.asarray([32767, -32768] * 25, dtype=np.int16))
    sigs.append(nrng.choice(np.asarray([-32768, -32767, -1, 0, 1, 32766, 32767], dtype=np.int16), 64))
    for _ in range(8):
        sigs.append(nrng.integers(-32768, 32768, rng.randint(10, 300)).astype(np.int16))
    sigs.append(nrng.uniform(-1.0, 1.0, 37))                           # float64
    sigs.append(nrng.uniform(-1.0, 1.0, 23).astype(np.float32))       # float32
    sigs.append(nrng.integers(-2 ** 31, 2 ** 31, 29).astype(np.int32))
    sigs.append(nrng.integers(0, 256, 21).astype(np.uint8))
    n_streams = 0
    for x in sigs:
        for cuts in splits(len(x)):
            reset_at = rng.choice([None, None, rng.randrange(len(cuts))]) if cuts else None
            fs = [common.CdXtractRolandDeemphFilter(), OrigCdXtractRolandDeemphFilter(), PyOrigCdXtract()]
            outs = [outcome(lambda f=f: run_stream(f, x, cuts, reset_at)) for f in fs]
            expect("stream", same_outcome(outs[0], outs[1], same_list)
                   and same_outcome(outs[0], outs[2], same_list), cuts, reset_at)
            expect("stream state", state(fs[0]) == state(fs[1]) == state(fs[2]))
            # the filter is reusable after the flush and all three behave like a new original one
            y = nrng.integers(-32768, 32768, 17).astype(np.int16)
            again = [outcome(lambda f=f: run_stream(f, y, [5, 6, 17])) for f in fs]
            fresh = outcome(lambda: run_stream(OrigCdXtractRolandDeemphFilter(), y, [5, 6, 17]))
            expect("reuse", all(same_outcome(a, fresh, same_list) for a in again))
            n_streams += 1

    # 4. failing calls behave the same
    for badx in ([1, 2, 3], None, np.zeros((2, 3), dtype=np.int16), "abc"):
        fs = [common.CdXtractRolandDeemphFilter(), OrigCdXtractRolandDeemphFilter()]
        outs = [outcome(lambda f=f: f.process(badx)) for f in fs]
        expect("bad input", outs[0][0] == outs[1][0] and (outs[0][0] == "ok" or outs[0][1] == outs[1][1]), outs)
        expect("bad input state", state(fs[0]) == state(fs[1]))

    # 5. nothing else in the module moved
    for name in ("_bytes_to_double", "_cdxtract_roland_deemph_h", "CdXtractRolandDeemphFilter",
                 "ChickSysStandardDeemphFilter", "ChickSysDarkerDeemphFilter",
                 "ChickSysSpecialDeemphFilter", "ChickSysRolandDeemphFilter",
                 "_chick_sys_roland_deemph_h", "_chick_sys_roland_deemph_k_gain",
                 "_chick_sys_roland_deemph_delay_offset", "np", "struct", "FirFilter",
                 "ChickSysCustomFirFilter", "ChickSysCustomIirFilter"):
        expect("name " + name, hasattr(common, name))
    expect("mro", common.CdXtractRolandDeemphFilter.__mro__[1:] == (FirFilter, object))
    expect("own dict", sorted(k for k in vars(common.CdXtractRolandDeemphFilter) if not k.startswith("__"))
           == [] and "__init__" in vars(common.CdXtractRolandDeemphFilter))
    g = common.CdXtractRolandDeemphFilter()
    expect("ctor state", (g.N, g.m0, g.m1) == (8, 0, 7) and same_arr(g.x_prev, np.zeros(7)))
    expect("ctor args", outcome(lambda: common.CdXtractRolandDeemphFilter(1))[0] == "exc")

    print("streams: %d, checks: %d, failures: %d" % (n_streams, CHECKS[0], len(FAILS)))
    for f in FAILS[:10]:
        print("FAIL", f)
    return 1 if FAILS else 0


if __name__ == "__main__":
    sys.exit(main())
