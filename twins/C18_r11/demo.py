"""Equivalence demo for r11: the AkaiTuneCents / AkaiMidiNote adapter factories
in smpl_extract/akai/data_types.py (lambdas -> named nested functions, keyword
arguments to ExprAdapter, direct return).  Compares against inline copies of
the ORIGINAL factories and re-checks the tuning-byte and note-number round
trips of C18 through the adapters."""
import random
import sys

from construct.core import Byte, ExprAdapter, Int8sl, Int8ul, Int16sl, Struct

from smpl_extract.akai.data_types import AkaiMidiNote, AkaiTuneCents
from smpl_extract.akai.data_types import build_akai_tune_cents
from smpl_extract.akai.data_types import parse_akai_tune_cents
from smpl_extract.midi import MidiNote, ScaleDegree


def orig_AkaiTuneCents(subcon):
    result = ExprAdapter(
        subcon,
        lambda  x, y: parse_akai_tune_cents(x),
        lambda  x, y: build_akai_tune_cents(x)
    )
    return result


def orig_AkaiMidiNote(subcon):
    result = ExprAdapter(
        subcon,
        lambda x, y: MidiNote.from_akai_byte(x),
        lambda x, y: MidiNote.to_akai_byte(x)  # type: ignore
    )
    return result


def outcome(fn, *args, **kwargs):
    try:
        value = fn(*args, **kwargs)
        return ("ok", type(value).__name__, repr(value))
    except BaseException as exc:  # noqa: BLE001
        return ("exc", type(exc).__name__, repr(exc.args),
                type(exc.__context__).__name__)


FAIL = 0
CHECKED = 0


def same(a, b, what):
    global FAIL, CHECKED
    CHECKED += 1
    if a != b:
        FAIL += 1
        if FAIL < 20:
            print("MISMATCH", what, a, b)


class Spy:
    """object standing in for a note; records the attribute accesses."""
    def __init__(self):
        self.log = []

    def to_int_a0(self):
        self.log.append("to_int_a0")
        return 7


def main():
    rnd = random.Random(11)

    # ---- AkaiTuneCents over signed / unsigned / wide sub-constructs
    for subcon in (Int8sl, Int8ul, Byte, Int16sl):
        old, new = orig_AkaiTuneCents(subcon), AkaiTuneCents(subcon)
        same(type(old), type(new), ("tune type", subcon))
        same(old.subcon is subcon, new.subcon is subcon, ("tune subcon",))
        same(outcome(old.sizeof), outcome(new.sizeof), ("tune sizeof",))
        width = subcon.sizeof()
        for value in range(256 if width == 1 else 65536):
            if width == 2 and value % 37:
                continue
            raw = value.to_bytes(width, "little")
            same(outcome(old.parse, raw), outcome(new.parse, raw),
                 ("tune parse", subcon, value))
        cents = [parse_akai_tune_cents(x) for x in range(-128, 128)]
        cents += [0, 0.0, -0.0, -50, 50, 49.99, -50.2, 1e9, -1e9, 0.5, 1.5,
                  2.5, float("inf"), float("nan"), None, "3", [1], True, 3j]
        cents += [rnd.uniform(-60, 60) for _ in range(1500)]
        for c in cents:
            same(outcome(old.build, c), outcome(new.build, c),
                 ("tune build", subcon, c))
        for raw in (b"", b"\x01" * 5):
            same(outcome(old.parse, raw), outcome(new.parse, raw),
                 ("tune short", subcon, raw))

    # C18: tuning byte -> cents -> byte through the adapter, all 256 bytes
    tune = AkaiTuneCents(Int8sl)
    tune_old = orig_AkaiTuneCents(Int8sl)
    for b in range(256):
        raw = bytes([b])
        same(tune.build(tune.parse(raw)), raw, ("tune rt", b))
        same(tune.build(tune_old.parse(raw)), tune_old.build(tune.parse(raw)),
             ("tune cross", b))
        signed = b - 256 if b > 127 else b
        same(tune.parse(raw), parse_akai_tune_cents(signed), ("tune fn", b))

    # ---- AkaiMidiNote
    for subcon in (Int8ul, Int8sl, Byte, Int16sl):
        old, new = orig_AkaiMidiNote(subcon), AkaiMidiNote(subcon)
        same(type(old), type(new), ("note type", subcon))
        width = subcon.sizeof()
        for value in range(256 if width == 1 else 65536):
            if width == 2 and value % 41:
                continue
            raw = value.to_bytes(width, "little")
            same(outcome(old.parse, raw), outcome(new.parse, raw),
                 ("note parse", subcon, value))
        notes = [MidiNote.from_akai_byte(n) for n in range(-40, 300)]
        notes += [MidiNote(d, s, o) for d in ScaleDegree
                  for s in (False, True) for o in range(-2, 24)]
        notes += [MidiNote(9, False, 1), MidiNote(ScaleDegree.A, 3, 1),
                  MidiNote(ScaleDegree.A, False, None),
                  MidiNote(ScaleDegree.A, False, 2.0),
                  None, 60, "C3", object, [1]]
        for note in notes:
            same(outcome(old.build, note), outcome(new.build, note),
                 ("note build", subcon, repr(note)))
        spy_a, spy_b = Spy(), Spy()
        a = outcome(old.build, spy_a)
        b = outcome(new.build, spy_b)
        same((a, spy_a.log), (b, spy_b.log), ("note spy", subcon))

    # C18: note byte -> note -> byte through the adapter, all 256 bytes
    note_ad = AkaiMidiNote(Int8ul)
    note_old = orig_AkaiMidiNote(Int8ul)
    for b in range(256):
        raw = bytes([b])
        same(note_ad.build(note_ad.parse(raw)), raw, ("note rt", b))
        same(note_ad.parse(raw), note_old.parse(raw), ("note eq", b))
        same(note_ad.parse(raw), MidiNote.from_akai_byte(b), ("note fn", b))

    # ---- inside a Struct with a context, as the package uses them
    old_s = Struct("lo" / orig_AkaiMidiNote(Int8ul),
                   "tune" / orig_AkaiTuneCents(Int8sl))
    new_s = Struct("lo" / AkaiMidiNote(Int8ul), "tune" / AkaiTuneCents(Int8sl))
    for _ in range(3000):
        raw = bytes([rnd.randrange(256), rnd.randrange(256)])
        a, b = old_s.parse(raw), new_s.parse(raw)
        same((a.lo, a.tune), (b.lo, b.tune), ("struct parse", raw))
        same(old_s.build(dict(lo=b.lo, tune=b.tune)),
             new_s.build(dict(lo=a.lo, tune=a.tune)), ("struct build", raw))
        same(new_s.build(dict(lo=b.lo, tune=b.tune)), raw, ("struct rt", raw))
    for bad in (dict(lo=None, tune=0), dict(lo=MidiNote(), tune=None),
                dict(lo=MidiNote(), tune=1e9), dict(tune=0), dict()):
        same(outcome(old_s.build, bad), outcome(new_s.build, bad),
             ("struct bad", sorted(bad)))

    print("checked", CHECKED, "mismatches", FAIL)
    return 1 if FAIL else 0


if __name__ == "__main__":
    sys.exit(main())
