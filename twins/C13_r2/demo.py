"""Equivalence demo for r2: AkaiImageParser._load_partitions (smpl_extract/akai/image.py).

Builds synthetic AKAI images (0..40 partitions, valid / truncated / corrupted /
pure noise), and runs the partition scan loop of the live class and of a
subclass that carries an inline copy of the ORIGINAL _load_partitions.
Compared: number of partitions, their names and paths, the order and arguments
of every tell()/seek()/read() issued on the shared image stream, the final
stream position, routine application, the cached/loaded state, and exceptions.
Exit 0 when everything agrees, 1 otherwise.
"""
import io
import random
import struct
import sys
from typing import List, cast

from construct.core import ConstructError

from smpl_extract.akai.data_types import (
    AKAI_PARTITION_MAGIC, AKAI_SAT_ENTRY_CNT, AKAI_SECTOR_SIZE,
    AKAI_VOLUME_ENTRY_CNT,
)
from smpl_extract.akai.image import AkaiImageParser
from smpl_extract.akai.partition import (
    InvalidPartition, Partition, PartitionParser,
)


class OriginalImageParser(AkaiImageParser):
    """Live class with the ORIGINAL _load_partitions pasted in."""

    def _load_partitions(self):
        partition_cnt = 0
        partitions = []
        while self.file.tell() < self.file_size:
            name = chr(ord("A") + partition_cnt)
            try:
                partition = PartitionParser.parse_stream(
                    self.file,  # type: ignore
                    _elem_name=name,
                    _elem_parent=self,
                    _elem_routines=self._routines
                )
            except (InvalidPartition, ConstructError, struct.error) as e:  # as in the tree after the struct.error fix
                break
            partitions.append(partition)
            partition_cnt += 1

        for routine in self._routines.values():
            partitions = routine(partitions)
        self._partitions = cast(List[Partition], partitions)
        self._partitions_loaded_flag = True


class RecordingStream(io.BytesIO):
    """BytesIO that logs every call made on it (order of reads matters)."""

    def __init__(self, data):
        super().__init__(data)
        self.log = []

    def read(self, *a):
        r = super().read(*a)
        self.log.append(("read", a, len(r)))
        return r

    def seek(self, *a):
        r = super().seek(*a)
        self.log.append(("seek", a, r))
        return r

    def tell(self):
        r = super().tell()
        self.log.append(("tell", r))
        return r


HEADER_REGION = 202 + 16 * AKAI_VOLUME_ENTRY_CNT + 2 * AKAI_SAT_ENTRY_CNT


def make_partition(n_sectors=4, volumes=(), sat=None, body_fill=b"\x00"):
    size = n_sectors.to_bytes(2, "little")
    check = n_sectors // 128 - 1
    hdr = size + b"\x00\x00" + AKAI_PARTITION_MAGIC
    hdr += bytes([0x55 if check % 2 == 0 else 0xD5, (check // 2 + 0xBA) & 0xFF])
    hdr += b"\x2F\x00"
    vols = b""
    for i in range(AKAI_VOLUME_ENTRY_CNT):
        if i < len(volumes):
            vols += volumes[i]
        else:
            vols += bytes([0x0A] * 12) + b"\x00\x00" + b"\x00\x00"
    sat_words = list(sat) if sat is not None else [0] * AKAI_SAT_ENTRY_CNT
    sat_words += [0] * (AKAI_SAT_ENTRY_CNT - len(sat_words))
    sat_raw = b"".join(w.to_bytes(2, "little") for w in sat_words[:AKAI_SAT_ENTRY_CNT])
    head = hdr + vols + sat_raw
    assert len(head) == HEADER_REGION, len(head)
    total = n_sectors * AKAI_SECTOR_SIZE
    if total >= len(head):
        return head + body_fill * (total - len(head))
    return head  # partition claims to be smaller than its own header


def volume_entry(name_bytes, vtype, start):
    return bytes(name_bytes) + vtype.to_bytes(2, "little") + start.to_bytes(2, "little")


def upper_routine(elements):
    for e in elements:
        e.name = e.name.lower()
    return elements


def drop_first_routine(elements):
    return elements[1:]


def observe(cls, data, routines):
    stream = RecordingStream(data)
    try:
        image = cls(stream)
        image.set_routines(dict(routines))
        parts = image.partitions
        again = image.children           # must be cached, no second scan
        out = (
            "ok",
            len(parts),
            tuple(p.name for p in parts),
            tuple(tuple(p._path) if hasattr(p, "_path") else None for p in parts),
            tuple(type(p).__name__ for p in parts),
            all(getattr(p, "_parent", image) is image for p in parts),
            again is parts,
            image._partitions_loaded_flag,
            image.file_size,
        )
    except Exception as e:  # noqa: BLE001
        out = ("exc", type(e).__name__, str(e))
    return out, tuple(stream.log), stream.getvalue() == data, io.BytesIO.tell(stream)


def cases():
    rng = random.Random(1313)
    good = make_partition(4)
    yield "empty-file", b""
    yield "one-byte", b"\x04"
    yield "one-partition", good
    yield "two-partitions", good * 2
    yield "three-partitions", good * 3
    yield "27-partitions (names past Z)", good * 27
    yield "40-partitions", good * 40
    yield "different-sizes", make_partition(3) + make_partition(5) + make_partition(4)
    yield "trailing-garbage", good + b"\xff" * 1000
    yield "trailing-zeros (size 0 partition)", good + b"\x00" * 30000
    yield "short-trailing", good + good[:100]
    yield "truncated-in-header", good[:150]
    yield "truncated-in-volumes", good[:1000]
    yield "truncated-in-sat", good[:5000]
    yield "truncated-body", good[:HEADER_REGION + 10]
    yield "second-truncated-body", good + good[:HEADER_REGION]
    yield "body-missing-then-more", good[:HEADER_REGION] + good
    yield "size-smaller-than-header", make_partition(1) + good
    yield "size-2", make_partition(2) + good
    yield "huge-size-field", make_partition(0xFFFF)[:HEADER_REGION] + good
    yield "size-128", make_partition(128)
    bad_magic = bytearray(good); bad_magic[10] ^= 0xFF
    yield "bad-magic-first", bytes(bad_magic) + good
    yield "bad-magic-second", good + bytes(bad_magic) + good
    bad_const = bytearray(good); bad_const[2] = 1
    yield "bad-const-second", good + bytes(bad_const)
    bad_tail = bytearray(good); bad_tail[200] = 0x2E
    yield "bad-2f00-third", good * 2 + bytes(bad_tail)
    bad_cs = bytearray(good); bad_cs[198] = 0; bad_cs[199] = 0
    yield "checksum-bytes-ignored", bytes(bad_cs) + good
    # invalid AKAI character in a volume name -> InvalidCharacter -> ConstructError
    badname = make_partition(4, volumes=[volume_entry([0xFF] * 12, 1, 3)])
    yield "bad-volume-name-first", badname + good
    yield "bad-volume-name-second", good + badname + good
    # real volume entries + SAT chains (volumes are lazy: not touched by the scan)
    sat = [0x4000] * 3 + [0xC000] + [0] * 10
    vol = make_partition(4, volumes=[volume_entry([0x0B] * 12, 1, 3),
                                     volume_entry([0x0C] * 12, 3, 3)], sat=sat)
    yield "with-volumes", vol * 2
    # SAT corruptions: every special value, in-range links, cycles
    for w in (0x0000, 0x4000, 0x8000, 0xC000, 0xFFFF, 1, 5, AKAI_SAT_ENTRY_CNT - 1,
              AKAI_SAT_ENTRY_CNT, 0x7FFF):
        yield f"sat-all-{w:#x}", make_partition(4, sat=[w] * AKAI_SAT_ENTRY_CNT) + good
    cyc = [0] * 20; cyc[5] = 6; cyc[6] = 5
    yield "sat-two-cycle", make_partition(4, sat=cyc) + good
    cyc = [0] * 20; cyc[5] = 5
    yield "sat-self-loop", make_partition(4, sat=cyc) + good
    for k in range(12):
        noise_sat = [rng.randrange(0x10000) for _ in range(AKAI_SAT_ENTRY_CNT)]
        yield f"sat-noise-{k}", good + make_partition(4, sat=noise_sat) + good
    for k in range(12):
        link_sat = [rng.randrange(AKAI_SAT_ENTRY_CNT) for _ in range(AKAI_SAT_ENTRY_CNT)]
        yield f"sat-links-{k}", make_partition(4, sat=link_sat) + good
    # random byte strings
    for k in range(40):
        n = rng.choice([1, 2, 3, 10, 201, 202, 203, 2000, 30000, 70000])
        yield f"noise-{k}-{n}", bytes(rng.randrange(256) for _ in range(n))
    # valid image with 1..4 random byte corruptions in the header regions
    for k in range(60):
        n_part = rng.randint(1, 4)
        img = bytearray(good * n_part)
        for _ in range(rng.randint(1, 4)):
            p = rng.randrange(n_part)
            off = p * len(good) + rng.choice(
                [rng.randrange(0, 4), rng.randrange(0, 202),
                 rng.randrange(202, 1802), rng.randrange(1802, HEADER_REGION)])
            img[off] = rng.randrange(256)
        cut = rng.random()
        if cut < 0.2:
            img = img[:rng.randrange(len(img))]
        yield f"corrupt-{k}", bytes(img)


def main():
    bad = 0
    n = 0
    hist = {}
    routine_sets = (
        (),
        (("lower", upper_routine),),
        (("drop", drop_first_routine), ("lower", upper_routine)),
    )
    for name, data in cases():
        for ri, routines in enumerate(routine_sets):
            n += 1
            a = observe(OriginalImageParser, data, routines)
            b = observe(AkaiImageParser, data, routines)
            key = a[0][1] if a[0][0] == "ok" else a[0][1]
            if ri == 0:
                hist[key] = hist.get(key, 0) + 1
            if a != b:
                bad += 1
                print(f"MISMATCH {name} routines={ri}: original={a[0]} live={b[0]} "
                      f"log-equal={a[1] == b[1]}")
    print(f"{n} runs, {bad} mismatches; partitions-found histogram: "
          f"{dict(sorted(hist.items(), key=str))}")
    return 1 if bad else 0


if __name__ == "__main__":
    sys.exit(main())
