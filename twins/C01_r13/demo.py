"""Equivalence demo for r13 (smpl_extract/util/fat.py, add_to_sector_links).

An inline copy of the ORIGINAL function is compared with the live one:
  A. direct calls on many link lists (lists, tuples, ranges, generators, empty,
     single element, duplicates, negative and out-of-range entries, non-int
     entries) against tables of many sizes: same outcome (None or exception
     type / text / __cause__), same resulting table (values, element types),
     same object-sharing pattern in the table (every stored entry is a fresh
     SectorLink, untouched slots keep their old object), argument untouched,
     module templates never mutated;
  B. SegmentAllocationTableAdapter._decode on random raw SAT blocks, once with
     the live function and once with the original patched into the sat module;
  C. whole AKAI images from an independent writer (partitions x volumes x files,
     contiguous / fragmented / reversed / random chains, chained / reserved-run
     directories, sector-exact lengths) exported to WAV both ways: same stdout,
     same files, same bytes.
Exit 0 = all agree."""
import contextlib
import hashlib
import io
import os
import random
import shutil
import sys
import tempfile
from typing import List

from construct.core import Int16ul

import smpl_extract.akai.sat as sat_module
import smpl_extract.util.fat as fat_module
from smpl_extract.akai.sat import SegmentAllocationTableAdapter
from smpl_extract.util.fat import InvalidFatDefinition
from smpl_extract.util.fat import SectorLink
from smpl_extract.util.fat import add_to_sector_links as live_add_to_sector_links


# ---- inline copy of the ORIGINAL implementation -------------------------
def orig_add_to_sector_links(
        links_arg:      List[int],
        sector_links:   List[SectorLink]
    ):

    links_iter = iter(links_arg)
    prev_link = next(links_iter)
    try:
        for link in links_iter:
            sector_links[prev_link] = SectorLink(next=link, end=False)
            prev_link = link
        sector_links[prev_link] = SectorLink(next=0, end=True)

    except IndexError as e:
        raise InvalidFatDefinition(
            f"FAT entry {prev_link} exceeds total "
            f"number of FAT entries {len(sector_links)}."
        ) from e
# -------------------------------------------------------------------------

# ---- independent AKAI S1000/S3000 image writer (logical model -> bytes) ----
import struct as _struct

SECTOR = 0x2000
SAT_CNT = 11386
HEADER_SECTORS = 3
MAGIC = b"".join(((3333 * i) & 0xFFFF).to_bytes(2, "little") for i in range(1, 98))


def akai_name(text):
    out = bytearray()
    for ch in text.upper().ljust(12)[:12]:
        if "0" <= ch <= "9":
            out.append(ord(ch) - ord("0"))
        elif "A" <= ch <= "Z":
            out.append(ord(ch) - ord("A") + 0x0B)
        else:
            out.append({" ": 0x0A, "#": 0x25, "+": 0x26, "-": 0x27, ".": 0x28}[ch])
    return bytes(out)


def sample_file(name, type_byte, rate, pcm, play_start, play_end, loops=(), loop_type=2):
    """140 byte header followed by the 16 bit words."""
    head = bytearray()
    head += bytes([type_byte, 0, 60])
    head += akai_name(name)
    head += bytes(4)
    head += bytes([loop_type, 0, 0])
    head += bytes(4)
    head += _struct.pack("<III", len(pcm) // 2, play_start, play_end)
    table = list(loops) + [(0, 0, 0, 0)] * (8 - len(loops))
    for at, fine, coarse, duration in table:
        head += _struct.pack("<IHIH", at, fine, coarse, duration)
    head += bytes(4)
    head += _struct.pack("<H", rate)
    assert len(head) == 140, len(head)
    return bytes(head) + pcm


def build_partition(rnd, volumes, layout="random", dir_style="chain", spare=6):
    """volumes: list of (name, type 1|3, [(file name, file type byte, content bytes)])"""
    needed = HEADER_SECTORS
    for _name, _type, files in volumes:
        needed += 2 + (24 * (len(files) + 1) + SECTOR - 1) // SECTOR
        for _fname, _ftype, content in files:
            needed += max(1, (len(content) + SECTOR - 1) // SECTOR)
    total = needed + spare
    sat = [0] * SAT_CNT
    for s in range(HEADER_SECTORS):
        sat[s] = 0x4000
    sectors = {}
    free = list(range(HEADER_SECTORS, total))

    def take(count, how):
        nonlocal free
        if how == "contiguous":
            for at in range(len(free) - count + 1):
                run = free[at:at + count]
                if run[-1] - run[0] == count - 1:
                    break
            else:
                raise AssertionError("no contiguous run")
            chosen = run
        elif how == "ascending":
            chosen = sorted(rnd.sample(free, count))
        elif how == "descending":
            chosen = sorted(rnd.sample(free, count), reverse=True)
        else:
            chosen = rnd.sample(free, count)
        free = [s for s in free if s not in chosen]
        return chosen

    def store(chain, payload):
        for n, s in enumerate(chain):
            sectors[s] = payload[n * SECTOR:(n + 1) * SECTOR].ljust(SECTOR, b"\x00")

    # directories first (a reserved run needs a non reserved sector behind it)
    dir_chains = []
    for _name, _type, files in volumes:
        count = (24 * (len(files) + 1) + SECTOR - 1) // SECTOR
        if dir_style == "reserved":
            chain = take(count + 1, "contiguous")
            guard = chain.pop()
            free.append(guard)
            free.sort()
            for s in chain:
                sat[s] = 0x4000
            # keep the guard sector out of later reserved runs: leave it free
            free.remove(guard)
        else:
            chain = take(count, "contiguous" if dir_style == "chain" else "random")
            for a, b in zip(chain, chain[1:]):
                sat[a] = b
            sat[chain[-1]] = 0xC000
        dir_chains.append(chain)

    volume_table = bytearray()
    for (name, vtype, files), dir_chain in zip(volumes, dir_chains):
        table = bytearray()
        for fname, ftype, content in files:
            count = max(1, (len(content) + SECTOR - 1) // SECTOR)
            how = layout if layout != "mixed" else rnd.choice(
                ["contiguous", "ascending", "descending", "random"])
            chain = take(count, how)
            for a, b in zip(chain, chain[1:]):
                sat[a] = b
            sat[chain[-1]] = 0xC000
            store(chain, content)
            table += akai_name(fname) + bytes(4) + bytes([ftype])
            table += len(content).to_bytes(3, "little")
            table += _struct.pack("<H", chain[0]) + bytes(2)
        end = bytearray(24)
        end[8:10] = (0xD747).to_bytes(2, "little")
        table += end
        store(dir_chain, bytes(table))
        volume_table += akai_name(name) + _struct.pack("<HH", vtype, dir_chain[0])
    volume_table += bytes(16 * (100 - len(volumes)))

    head = _struct.pack("<H", total) + b"\x00\x00" + MAGIC
    check = total // 128 - 1
    head += bytes([0x55 if check % 2 == 0 else 0xD5, (check // 2 + 0xBA) & 0xFF]) + b"\x2F\x00"
    head += bytes(volume_table)
    head += b"".join(_struct.pack("<H", x) for x in sat)
    assert len(head) == HEADER_SECTORS * SECTOR - 2, len(head)
    body = bytearray(head.ljust(HEADER_SECTORS * SECTOR, b"\x00"))
    for s in range(HEADER_SECTORS, total):
        body += sectors.get(s, bytes(SECTOR))
    return bytes(body)
# ---------------------------------------------------------------------------

# ---- shared demo plumbing --------------------------------------------------
failures = 0
checks = 0


def check(label, a, b):
    global failures, checks
    checks += 1
    if a != b:
        failures += 1
        if failures <= 10:
            print("MISMATCH", label, "\n   live:", repr(a)[:600], "\n   orig:", repr(b)[:600])


def describe_exc(e):
    cause = e.__cause__
    return (
        type(e).__module__ + "." + type(e).__qualname__,
        str(e),
        None if cause is None else (type(cause).__qualname__, str(cause)),
        e.__suppress_context__,
    )


def outcome(f):
    try:
        return ("ok", f())
    except BaseException as e:  # noqa - demo compares every exception
        return ("raise", describe_exc(e))


def snapshot_dir(base):
    found = {}
    for root, dirs, files in os.walk(base):
        dirs.sort()
        rel = os.path.relpath(root, base)
        found[rel + "/"] = None
        for name in sorted(files):
            with open(os.path.join(root, name), "rb") as fh:
                found[os.path.join(rel, name)] = hashlib.sha256(fh.read()).hexdigest()
    return found


def export_image(image_bytes, scratch, tag):
    from smpl_extract.actions import export_samples_to_wav
    from smpl_extract.akai.image import AkaiImageParser
    dest = os.path.join(scratch, tag)
    os.makedirs(dest)
    captured = io.StringIO()
    with contextlib.redirect_stdout(captured):
        result = outcome(lambda: export_samples_to_wav(
            AkaiImageParser(io.BytesIO(image_bytes)), dest))
    return (result, captured.getvalue(), snapshot_dir(dest))


def make_images(rnd):
    """A spread of logical models x allocation layouts x directory styles."""
    def pcm(words):
        return bytes(rnd.getrandbits(8) for _ in range(2 * words))

    images = []
    lengths = [1, 2, 100, 4096 - 70, 4096 - 69, 4096 - 71, 2 * 4096 - 70,
               3 * 4096 - 70, 5000, 9000, 13000]
    for layout in ("contiguous", "ascending", "descending", "random", "mixed"):
        for dir_style in ("chain", "reserved", "scattered"):
            parts = []
            for p in range(rnd.choice([1, 2, 3])):
                volumes = []
                for v in range(rnd.choice([1, 2, 3])):
                    files = []
                    for f in range(rnd.choice([0, 1, 3, 5])):
                        words = rnd.choice(lengths)
                        start = rnd.choice([0, 0, 1, 7, words // 3])
                        end = rnd.choice([words, words, words - 1, max(start, words - 5)])
                        s3000 = rnd.random() < 0.5
                        files.append((
                            "S%d%d%d" % (p, v, f),
                            0xF3 if s3000 else 0x73,
                            sample_file(
                                "S%d" % f, 3 if s3000 else 1,
                                rnd.choice([0, 8000, 22050, 44100, 48000]),
                                pcm(words), start, end
                            )
                        ))
                    if rnd.random() < 0.5:
                        words = rnd.choice(lengths)
                        for side in "LR":
                            files.append((
                                "PAIR -" + side, 0xF3,
                                sample_file("PAIR -" + side, 3, 44100, pcm(words), 0, words)
                            ))
                    volumes.append(("VOL %d%d" % (p, v), rnd.choice([1, 3]), files))
                parts.append(build_partition(rnd, volumes, layout=layout, dir_style=dir_style))
            images.append(((layout, dir_style), b"".join(parts)))
    return images
# ---------------------------------------------------------------------------


def sharing_pattern(table, before):
    first = {}
    pattern = []
    old = {id(x): n for n, x in reversed(list(enumerate(before)))}
    for n, item in enumerate(table):
        pattern.append((first.setdefault(id(item), n), old.get(id(item))))
    return pattern


def run_direct(fn, make_links, size, prefill):
    shared = SectorLink()
    table = [shared] * size
    for at, (nxt, end) in prefill:
        if at < size:
            table[at] = SectorLink(next=nxt, end=end)
    before = list(table)
    links = make_links()
    links_copy = list(links) if isinstance(links, (list, tuple, range)) else None
    result = outcome(lambda: fn(links, table))
    return (
        result,
        [(type(x).__name__, repr(x.next), x.end) for x in table],
        sharing_pattern(table, before),
        None if links_copy is None else (list(links) == links_copy),
        (shared.next, shared.end),
    )


class Weird:
    """An int-like index whose formatting is distinctive."""
    def __init__(self, v):
        self.v = v

    def __index__(self):
        return self.v

    def __format__(self, spec):
        return "<W%d|%s>" % (self.v, spec)

    def __str__(self):
        return "W%d" % self.v

    def __repr__(self):
        return "Weird(%d)" % self.v


def part_a():
    rnd = random.Random(1301)
    fixed = [
        lambda: [],
        lambda: (),
        lambda: [0],
        lambda: [5],
        lambda: [-1],
        lambda: [-1, -2, -3],
        lambda: [0, 1, 2, 3],
        lambda: [3, 2, 1, 0],
        lambda: [2, 2, 2],
        lambda: [1, 9, 4, 9, 1],
        lambda: (4, 7, 1),
        lambda: range(3, 9),
        lambda: range(0),
        lambda: iter([1, 2, 3]),
        lambda: (x for x in [6, 3, 8]),
        lambda: [1, 2, 10 ** 6],
        lambda: [10 ** 6, 1],
        lambda: [1, -(10 ** 6), 2],
        lambda: [0, "a", 1],
        lambda: ["a"],
        lambda: [0, None],
        lambda: [None],
        lambda: [1.5, 2],
        lambda: [True, False],
        lambda: [Weird(1), Weird(2)],
        lambda: [Weird(1), Weird(99999)],
        lambda: [Weird(99999)],
        lambda: None,
        lambda: 7,
        lambda: "12",
    ]
    for size in (0, 1, 2, 5, 12, 64):
        for n, make_links in enumerate(fixed):
            prefill = [(rnd.randrange(70), (rnd.randrange(70), rnd.random() < 0.5)) for _ in range(4)]
            check(
                ("direct", size, n),
                run_direct(live_add_to_sector_links, make_links, size, prefill),
                run_direct(orig_add_to_sector_links, make_links, size, prefill),
            )
    for case in range(4000):
        size = rnd.choice([1, 2, 3, 8, 33, 200])
        count = rnd.choice([1, 1, 2, 3, 5, 9, 40])
        span = size + rnd.choice([0, 0, 0, 1, 5])
        links = [rnd.randrange(-2 if rnd.random() < 0.1 else 0, max(1, span)) for _ in range(count)]
        prefill = [(rnd.randrange(size), (rnd.randrange(size), rnd.random() < 0.5)) for _ in range(3)]
        check(
            ("random", case),
            run_direct(live_add_to_sector_links, lambda: list(links), size, prefill),
            run_direct(orig_add_to_sector_links, lambda: list(links), size, prefill),
        )
    # the module level templates (if any) must still describe pristine entries
    for name in dir(fat_module):
        value = getattr(fat_module, name)
        if isinstance(value, SectorLink):
            check(("template", name), (value.next, value.end) in ((0, False), (0, True)), True)


def decode_with(fn, block):
    saved = sat_module.add_to_sector_links
    sat_module.add_to_sector_links = fn
    try:
        adapter = SegmentAllocationTableAdapter("STREAM", Int16ul[4])
        def go():
            table = adapter._decode(list(block), {}, "path")
            return (
                type(table).__name__, table.parent_stream, table.size,
                [(x.next, x.end) for x in table.sector_links],
                sharing_pattern(table.sector_links, []),
            )
        return outcome(go)
    finally:
        sat_module.add_to_sector_links = saved


def part_b():
    rnd = random.Random(1302)
    for case in range(1500):
        size = rnd.choice([0, 1, 2, 4, 9, 30, 120])
        block = []
        for _ in range(size):
            kind = rnd.random()
            if kind < 0.15:
                block.append(0x0000)
            elif kind < 0.30:
                block.append(rnd.choice([0x4000, 0x8000]))
            elif kind < 0.45:
                block.append(0xC000)
            elif kind < 0.95:
                block.append(rnd.randrange(size))
            else:
                block.append(rnd.randrange(size, 0xFFFF))
        check(
            ("sat", case),
            decode_with(live_add_to_sector_links, block),
            decode_with(orig_add_to_sector_links, block),
        )


def part_c(scratch):
    rnd = random.Random(1303)
    exported = 0
    for n, (label, image) in enumerate(make_images(rnd)):
        live = export_image(image, scratch, "live%d" % n)
        saved = sat_module.add_to_sector_links
        sat_module.add_to_sector_links = orig_add_to_sector_links
        try:
            orig = export_image(image, scratch, "orig%d" % n)
        finally:
            sat_module.add_to_sector_links = saved
        check(("export", label), live, orig)
        exported += sum(1 for digest in live[2].values() if digest)
    print("wav files exported per run:", exported)
    check("exports are not vacuous", exported > 40, True)


def main():
    scratch = tempfile.mkdtemp(prefix="r13_demo_")
    try:
        part_a()
        part_b()
        part_c(scratch)
    finally:
        shutil.rmtree(scratch, ignore_errors=True)
    print("checks:", checks, "failures:", failures)
    return 1 if failures or not checks else 0


if __name__ == "__main__":
    sys.exit(main())
