"""Equivalence demo for r8: smpl_extract.actions.attempt_parse_cue_sheet.

An inline copy of the ORIGINAL function is compiled with the globals of the
live smpl_extract.actions module, so both versions see the same (optionally
instrumented) os / open / determine_image_type / CompactDiskAudioImageAdapter.

Two comparisons are made on many generated cue sheets + bin files:
  A. traced: os.path.join, open, determine_image_type and from_bin_cue are
     wrapped by recorders; the full ordered call trace, the result and any
     exception must be identical;
  B. real: nothing is stubbed; the resulting image (type, tracks, titles,
     sample counts and the PCM bytes of every track) or the exception must
     be identical.
Also compared: determine_image_type(<cue path>) and a full export to WAV.
Exit 0 on full agreement, 1 otherwise.
"""
import builtins
import hashlib
import os
import random
import shutil
import sys
import tempfile

from smpl_extract import actions
from smpl_extract.cdda.image import CompactDiskAudioImage


ORIGINAL_SOURCE = '''
def original_attempt_parse_cue_sheet(lines, directory = ""):
    cue_sheet_file = parse_cue_sheet(lines)
    binary_track = next(
        (x for x in cue_sheet_file.tracks if x.mode.lower() != "audio"),
        None
    )
    if binary_track:
        bin_file_path = os.path.join(directory, cue_sheet_file.bin_file_name)
        bin_file_stream = open(bin_file_path, "rb")
        bin_image = determine_image_type(bin_file_stream)
        return bin_image

    if all((x.mode.lower() == "audio" for x in cue_sheet_file.tracks)):
        bin_file_path = os.path.join(directory, cue_sheet_file.bin_file_name)
        bin_file_stream = open(bin_file_path, "rb")
        image = CompactDiskAudioImageAdapter.from_bin_cue(
            bin_file_stream,
            cue_sheet_file
        )
        return image

    raise BadCueSheet
'''
_namespace = {}
exec(compile(ORIGINAL_SOURCE, "<original>", "exec"), actions.__dict__,
     _namespace)
original_attempt_parse_cue_sheet = _namespace["original_attempt_parse_cue_sheet"]


# --------------------------------------------------------------- tracing
class Tracer:
    def __init__(self):
        self.events = []
        self.opened = []


class _PathShim:
    def __init__(self, tracer):
        self._tracer = tracer

    def join(self, *args, **kwargs):
        result = os.path.join(*args, **kwargs)
        self._tracer.events.append(("join", args, kwargs, result))
        return result

    def __getattr__(self, name):
        return getattr(os.path, name)


class _OsShim:
    def __init__(self, tracer):
        self.path = _PathShim(tracer)

    def __getattr__(self, name):
        return getattr(os, name)


class Sentinel:
    def __init__(self, label):
        self.label = label


def run_traced(func, lines, directory, pass_directory):
    tracer = Tracer()
    saved = {
        name: actions.__dict__.get(name, None)
        for name in ("os", "determine_image_type",
                     "CompactDiskAudioImageAdapter")
    }
    had_open = "open" in actions.__dict__

    def traced_open(*args, **kwargs):
        try:
            stream = builtins.open(*args, **kwargs)
        except Exception as e:
            tracer.events.append(("open-exc", args, kwargs, type(e).__name__))
            raise
        tracer.opened.append(stream)
        tracer.events.append(("open", args, kwargs))
        return stream

    def traced_determine(*args, **kwargs):
        tracer.events.append((
            "determine", len(args), sorted(kwargs),
            args[0] is tracer.opened[-1], args[0].tell()
        ))
        return Sentinel("binary-image")

    class TracedAdapter:
        @classmethod
        def from_bin_cue(cls, *args, **kwargs):
            stream = args[0] if args else kwargs.get("bin_file_stream")
            tracer.events.append((
                "from_bin_cue", len(args), sorted(kwargs),
                stream is tracer.opened[-1], stream.tell(),
                repr(args[1:]), repr(sorted(
                    (k, v) for k, v in kwargs.items()
                    if k != "bin_file_stream"
                ))
            ))
            return Sentinel("cdda-image")

    actions.os = _OsShim(tracer)
    actions.open = traced_open
    actions.determine_image_type = traced_determine
    actions.CompactDiskAudioImageAdapter = TracedAdapter
    work = list(lines)
    try:
        try:
            if pass_directory:
                result = func(work, directory)
            else:
                result = func(work)
            outcome = ("OK", type(result).__name__,
                       getattr(result, "label", None))
        except Exception as e:
            outcome = ("EXC", type(e).__name__, str(e))
    finally:
        for name, value in saved.items():
            setattr(actions, name, value)
        if had_open:
            pass
        else:
            del actions.open
        for stream in tracer.opened:
            stream.close()
    return (outcome, tracer.events, work)


# ------------------------------------------------------------------ real
def describe_image(image):
    if isinstance(image, CompactDiskAudioImage):
        tracks = []
        for track in image.tracks:
            ds = track._data_stream
            pcm = b""
            if ds.end_of_file >= 0:
                ds.seek(0, os.SEEK_SET)
                pcm = ds.read(None)
            tracks.append((
                track.title, track.num_audio_samples, list(track._path),
                ds.offset, ds.end_of_file, hashlib.sha1(pcm).hexdigest(),
                len(pcm), ds.substream.name, ds.substream.mode,
            ))
        streams = {id(t._data_stream.substream): t._data_stream.substream
                   for t in image.tracks}
        for stream in streams.values():
            stream.close()
        return ("CDDA", len(streams), tracks)
    return (type(image).__name__,)


def run_real(func, lines, directory, pass_directory):
    work = list(lines)
    try:
        if pass_directory:
            result = func(work, directory)
        else:
            result = func(work)
    except Exception as e:
        return ("EXC", type(e).__name__, str(e), work)
    return ("OK", describe_image(result), work)


def export_tree(cue_path, destination):
    try:
        actions.export_samples_to_wav(cue_path, destination)
    except Exception as e:
        return ("EXC", type(e).__name__, str(e))
    listing = []
    for root, _dirs, files in sorted(os.walk(destination)):
        for name in sorted(files):
            full = os.path.join(root, name)
            with open(full, "rb") as f:
                listing.append((
                    os.path.relpath(full, destination),
                    hashlib.sha1(f.read()).hexdigest()
                ))
    return ("OK", listing)


# ----------------------------------------------------------------- cases
def msf(total):
    return "%02d:%02d:%02d" % (total // 4500, (total // 75) % 60, total % 75)


def make_cue(rng, bin_name):
    lines = []
    if rng.random() < 0.1:
        lines.append("REM generated\n")
    if rng.random() < 0.95:
        lines.append("FILE \"%s\" BINARY\n" % bin_name)
    position = rng.randint(0, 2)
    n_tracks = rng.randint(0, 6)
    flavour = rng.choice(["audio", "audio", "audio", "mixed", "data"])
    for t in range(n_tracks):
        if flavour == "audio":
            mode = rng.choice(["AUDIO", "AUDIO", "audio", "Audio"])
        elif flavour == "data":
            mode = rng.choice(["MODE1/2352", "MODE2/2336"])
        else:
            mode = rng.choice(["AUDIO", "MODE1/2352", "audio", "CDG"])
        lines.append("  TRACK %02d %s\n" % (t+1, mode))
        if rng.random() < 0.5:
            lines.append("    TITLE \"%s\"\n" % rng.choice(
                ["One", "Two", "Same", "a/b", ""]
            ))
        for k in range(rng.choice([0, 1, 1, 1, 2])):
            lines.append("    INDEX %02d %s\n" % (k, msf(position)))
            position += rng.choice([0, 1, 1, 2, 3])
        if rng.random() < 0.2:
            lines.append("\n")
    return lines


def main():
    failures = 0
    rng = random.Random(0xC0308)
    base = tempfile.mkdtemp(prefix="r8demo_")
    saved_cwd = os.getcwd()
    try:
        os.chdir(base)
        bins = {}
        for name, n_sectors, tail in [
            ("empty.bin", 0, 0), ("one.bin", 1, 0), ("odd.bin", 5, 3),
            ("big.bin", 14, 0), ("tail.bin", 9, 1177), ("sub dir.bin", 4, 2),
        ]:
            data = bytes(
                rng.getrandbits(8) for _ in range(n_sectors*2352 + tail)
            )
            with open(os.path.join(base, name), "wb") as f:
                f.write(data)
            bins[name] = data
        names = list(bins) + ["missing.bin", ""]

        cases = [
            ([], base),
            (["\n"], base),
            (["FILE \"one.bin\" BINARY\n"], base),
            (["FILE \"missing.bin\" BINARY\n", "TRACK 01 AUDIO\n",
              "INDEX 01 00:00:00\n"], base),
            (["FILE \"one.bin\" BINARY\n", "TRACK 01 MODE1/2352\n",
              "INDEX 01 00:00:00\n"], base),
            (["FILE \"missing.bin\" BINARY\n", "TRACK 01 MODE1/2352\n",
              "INDEX 01 00:00:00\n"], base),
            (["FILE \"odd.bin\" BINARY\n", "TRACK 01 AUDIO\n",
              "INDEX 01 00:00:00\n", "TRACK 02 AUDIO\n",
              "INDEX 00 00:00:02\n", "INDEX 01 00:00:03\n"], base),
            (["FILE \"odd.bin\" BINARY\n", "TRACK 01 AUDIO\n",
              "INDEX 01 00:00:00\n", "TRACK 02 MODE1/2352\n",
              "INDEX 01 00:00:03\n"], base),
            (["FILE \"one.bin\" BINARY\n", "TRACK 01 AUDIO\n",
              "INDEX 01 00:00:00\n"], os.path.join(base, "nowhere")),
            (["FILE \"one.bin\" BINARY\n", "TRACK 01 AUDIO\n",
              "INDEX 01 00:00:00\n"], ""),
        ]
        for _ in range(400):
            directory = rng.choice([base, base, base, "", base + os.sep,
                                    os.path.join(base, "nowhere")])
            cases.append((make_cue(rng, rng.choice(names)), directory))

        live = actions.attempt_parse_cue_sheet
        outcomes = {}
        for number, (lines, directory) in enumerate(cases):
            for pass_directory in (True, False):
                expected = run_traced(
                    original_attempt_parse_cue_sheet, lines, directory,
                    pass_directory
                )
                actual = run_traced(live, lines, directory, pass_directory)
                key = expected[0][1] if expected[0][0] == "EXC" \
                    else expected[0][2]
                outcomes[key] = outcomes.get(key, 0) + 1
                if expected != actual:
                    failures += 1
                    print("MISMATCH (traced) in case", number, lines)
                    print("   expected", expected)
                    print("   actual  ", actual)

                expected = run_real(
                    original_attempt_parse_cue_sheet, lines, directory,
                    pass_directory
                )
                actual = run_real(live, lines, directory, pass_directory)
                if expected != actual:
                    failures += 1
                    print("MISMATCH (real) in case", number, lines)
                    print("   expected", expected)
                    print("   actual  ", actual)

        # End to end: export through the live code and compare with the
        # bytes predicted directly from the bin file.
        cue_path = os.path.join(base, "disc.cue")
        with open(cue_path, "w", encoding="ascii") as f:
            f.write(
                "FILE \"tail.bin\" BINARY\n"
                "  TRACK 01 AUDIO\n    INDEX 01 00:00:01\n"
                "  TRACK 02 AUDIO\n    TITLE \"Two\"\n"
                "    INDEX 00 00:00:03\n    INDEX 01 00:00:04\n"
                "  TRACK 03 AUDIO\n    INDEX 01 00:00:07\n"
            )
        destination = os.path.join(base, "out")
        os.mkdir(destination)
        status = export_tree(cue_path, destination)
        data = bins["tail.bin"]
        windows = [
            data[1*2352:3*2352], data[3*2352:7*2352],
            data[7*2352:len(data) - ((len(data) - 7*2352) % 4)],
        ]
        if status[0] != "OK" or len(status[1]) != 3:
            failures += 1
            print("MISMATCH (export)", status)
        else:
            found = []
            for root, _dirs, files in sorted(os.walk(destination)):
                for name in sorted(files):
                    with open(os.path.join(root, name), "rb") as f:
                        found.append(f.read())
            for window in windows:
                if not any(blob.endswith(window) and
                           len(blob) - len(window) == 44 for blob in found):
                    failures += 1
                    print("MISMATCH (export pcm window)", len(window))
        print("cases:", len(cases), "outcomes:", outcomes,
              "failures:", failures)
    finally:
        os.chdir(saved_cwd)
        shutil.rmtree(base, ignore_errors=True)
    return 1 if failures else 0


if __name__ == "__main__":
    sys.exit(main())
