"""Equivalence demo for r13: smpl_extract.cuesheet.get_nonempty_entry.

An inline copy of the ORIGINAL function is compared with the live one.

  A. direct: thousands of line lists (blank lines, every kind of ASCII and
     unicode whitespace, empty list, only blanks, leading / trailing blanks)
     - returned text, identity of the returned list, remaining content of the
     (mutated in place) argument must agree.
  B. traced: a list subclass records every __len__ / pop made on it and the
     elements are objects whose strip() result records every __len__ made on
     it, so the ORDER of all operations on the arguments is compared too.
     Non-str elements (bytes, None, int, objects with failing strip / len)
     are included: the exception type, message and the state of the list at
     the time of the exception must agree.
  C. module level: parse_cue_sheet / CueSheetFileAdapter.parse /
     CueSheetTrackAdapter.parse are run on random cue sheets once with the
     live get_nonempty_entry and once with the original patched into the
     module; results or exceptions must agree.
  D. a cue/bin pair is exported to WAV and the PCM checked against the bin.
Exit 0 on full agreement, 1 otherwise.
"""
import copy
import os
import random
import shutil
import sys
import tempfile

from smpl_extract import cuesheet
from smpl_extract import actions


def original_get_nonempty_entry(lines):
    text = ""
    while len(lines):
        text = lines.pop(0).strip()
        if len(text):
            break
    return text, lines


# ---------------------------------------------------------------- direct
WHITESPACE = ["", " ", "\t", "\n", "\r\n", "  \t ", "\x0b", "\x0c", "\x1c",
              "\x1f", "\x85", "\xa0", " ", "　", " \n", "\n\n"]
WORDS = ["FILE \"a.bin\" BINARY", "TRACK 01 AUDIO", "INDEX 01 00:00:00",
         "x", "0", "  padded  ", "\ttab\t", "a b", "​", "﻿",
         "TITLE \"\"", "REM", "\x00", "é"]


def random_lines(rng):
    n = rng.choice([0, 0, 1, 1, 2, 3, 4, 6, 9])
    lines = []
    for _ in range(n):
        if rng.random() < 0.55:
            lines.append(rng.choice(WHITESPACE))
        else:
            lines.append(rng.choice(WHITESPACE) + rng.choice(WORDS)
                         + rng.choice(WHITESPACE))
    return lines


def direct_cases():
    failures = 0
    count = 0
    rng = random.Random(0xC0313)
    fixed = [[], [""], ["", ""], ["a"], [" a "], ["", "a"], ["a", ""],
             ["", "", "a", "", "b"], ["\n", "\n"], [" ", "\t", "x\n", "y\n"]]
    cases = fixed + [random_lines(rng) for _ in range(6000)]
    for lines in cases:
        first = list(lines)
        second = list(lines)
        text_a, rest_a = original_get_nonempty_entry(first)
        text_b, rest_b = cuesheet.get_nonempty_entry(second)
        count += 1
        ok = (text_a == text_b and type(text_a) is type(text_b)
              and rest_a is first and rest_b is second and first == second)
        if not ok:
            failures += 1
            if failures < 10:
                print("MISMATCH (direct)", lines, (text_a, first),
                      (text_b, second))
        # repeated calls drain the list identically
        first = list(lines)
        second = list(lines)
        seq_a = []
        seq_b = []
        for _ in range(len(lines) + 2):
            seq_a.append(original_get_nonempty_entry(first)[0])
            seq_b.append(cuesheet.get_nonempty_entry(second)[0])
        count += 1
        if seq_a != seq_b or first != second:
            failures += 1
            print("MISMATCH (drain)", lines, seq_a, seq_b)
    return count, failures


# ---------------------------------------------------------------- traced
class TracedList(list):
    def __init__(self, items, events):
        super().__init__(items)
        self.events = events

    def __len__(self):
        n = super().__len__()
        self.events.append(("list.len", n))
        return n

    def pop(self, *args):
        self.events.append(("list.pop", args))
        return super().pop(*args)


class Stripped:
    """Result of Line.strip(): records len() calls."""
    def __init__(self, label, length, events):
        self.label = label
        self.length = length
        self.events = events

    def __len__(self):
        self.events.append(("text.len", self.label))
        if self.length == "boom":
            raise RuntimeError("len failed for %s" % self.label)
        return self.length

    def __repr__(self):
        return "<Stripped %s>" % self.label


class Line:
    def __init__(self, label, length, events):
        self.label = label
        self.length = length
        self.events = events

    def strip(self, *args):
        self.events.append(("line.strip", self.label, args))
        if self.length == "stripboom":
            raise ValueError("strip failed for %s" % self.label)
        if self.length == "none":
            return None
        if self.length == "int":
            return 7
        return Stripped(self.label, self.length, self.events)


class ShortList(TracedList):
    """A list whose len() lies (reports one more than it holds)."""
    def __len__(self):
        n = list.__len__(self)
        self.events.append(("list.len+1", n))
        return n + 1


def run_traced(func, spec, list_class):
    events = []
    items = []
    for position, kind in enumerate(spec):
        label = "L%d" % position
        if kind == "bytes_blank":
            items.append(b"  ")
        elif kind == "bytes_word":
            items.append(b" w ")
        elif kind == "None":
            items.append(None)
        elif kind == "int":
            items.append(3)
        elif kind == "str_blank":
            items.append(" \n")
        elif kind == "str_word":
            items.append(" word\n")
        else:
            items.append(Line(label, kind, events))
    lines = list_class(items, events)
    try:
        text, rest = func(lines)
        if isinstance(text, Stripped):
            text_description = ("Stripped", text.label)
        else:
            text_description = (type(text).__name__, repr(text))
        outcome = ("OK", text_description, rest is lines)
    except Exception as e:
        outcome = ("EXC", type(e).__name__, str(e))
    remaining = [getattr(x, "label", repr(x)) for x in list.__iter__(lines)]
    return outcome, events, remaining


def traced_cases():
    failures = 0
    count = 0
    rng = random.Random(0x13C03)
    kinds = [0, 0, 0, 1, 5, "boom", "stripboom", "none", "int",
             "bytes_blank", "bytes_word", "None", "int", "str_blank",
             "str_word"]
    specs = [[], [0], [1], [0, 0], [0, 1], [1, 0], [0, 0, 0, 2, 0],
             ["bytes_blank"], ["bytes_blank", "bytes_word"], ["None"],
             ["int"], ["boom"], ["stripboom"], [0, "boom", 1],
             [0, "stripboom", 1], ["none"], [0, "int"]]
    for _ in range(3000):
        specs.append([rng.choice(kinds) for _ in range(rng.randint(0, 7))])
    for spec in specs:
        for list_class in (TracedList, ShortList):
            expected = run_traced(original_get_nonempty_entry, spec,
                                  list_class)
            actual = run_traced(cuesheet.get_nonempty_entry, spec, list_class)
            count += 1
            if expected != actual:
                failures += 1
                if failures < 10:
                    print("MISMATCH (traced)", spec, list_class.__name__)
                    print("   expected", expected)
                    print("   actual  ", actual)
    # arguments that are not lists at all
    for odd in (None, 5, "abc", (" ", "a"), {"a": 1}, b" x"):
        results = []
        for func in (original_get_nonempty_entry,
                     cuesheet.get_nonempty_entry):
            try:
                argument = copy.copy(odd)
                results.append(("OK", repr(func(argument))))
            except Exception as e:
                results.append(("EXC", type(e).__name__, str(e)))
        count += 1
        if results[0] != results[1]:
            failures += 1
            print("MISMATCH (odd)", odd, results)
    return count, failures


# ---------------------------------------------------------- module level
def msf(total):
    return "%02d:%02d:%02d" % (total // 4500, (total // 75) % 60, total % 75)


def make_cue(rng):
    lines = []
    blank = lambda: rng.choice(["\n", "   \n", "\t\n", "", "\r\n"])
    for _ in range(rng.choice([0, 0, 0, 1, 3])):
        lines.append(blank())
    if rng.random() < 0.15:
        lines.append("REM comment\n")
    if rng.random() < 0.9:
        lines.append(rng.choice(["", "  "]) + "FILE \"disc.bin\" BINARY\n")
    position = rng.randint(0, 3)
    for t in range(rng.randint(0, 6)):
        if rng.random() < 0.3:
            lines.append(blank())
        lines.append("  TRACK %02d %s\n" % (
            t + 1, rng.choice(["AUDIO", "AUDIO", "audio", "MODE1/2352"])))
        if rng.random() < 0.5:
            lines.append("    TITLE \"%s\"\n" % rng.choice(
                ["One", "Two", "", "x y"]))
        if rng.random() < 0.2:
            lines.append("    FLAGS DCP\n")
        for k in range(rng.choice([0, 1, 1, 1, 2, 3])):
            if rng.random() < 0.15:
                lines.append(blank())
            lines.append("    INDEX %02d %s\n" % (k, msf(position)))
            position += rng.choice([0, 1, 2, 80, 4600])
    if rng.random() < 0.1:
        lines.append("FILE \"second.bin\" BINARY\n")
        lines.append("TRACK 09 AUDIO\n")
    for _ in range(rng.choice([0, 0, 1, 2])):
        lines.append(blank())
    return lines


def run_module(entry, lines, implementation):
    saved = cuesheet.get_nonempty_entry
    cuesheet.get_nonempty_entry = implementation
    argument = list(lines)
    try:
        try:
            outcome = ("OK", repr(entry(argument)))
        except Exception as e:
            outcome = ("EXC", type(e).__name__, str(e))
    finally:
        cuesheet.get_nonempty_entry = saved
    return outcome, argument


def module_cases():
    failures = 0
    count = 0
    rng = random.Random(0x3C13)
    live = cuesheet.get_nonempty_entry
    entries = [cuesheet.parse_cue_sheet, cuesheet.CueSheetFileAdapter.parse,
               cuesheet.CueSheetTrackAdapter.parse]
    for number in range(1500):
        lines = make_cue(rng)
        if number % 7 == 0:
            lines = lines[rng.randint(0, len(lines)):]
        for entry in entries:
            expected = run_module(entry, lines, original_get_nonempty_entry)
            actual = run_module(entry, lines, live)
            count += 1
            if expected != actual:
                failures += 1
                if failures < 10:
                    print("MISMATCH (module)", entry.__qualname__, lines)
                    print("   expected", expected)
                    print("   actual  ", actual)
    return count, failures


# ---------------------------------------------------------------- export
def export_case():
    rng = random.Random(13)
    base = tempfile.mkdtemp(prefix="r13demo_")
    failures = 0
    try:
        data = bytes(rng.getrandbits(8) for _ in range(9*2352 + 1177))
        with open(os.path.join(base, "disc.bin"), "wb") as f:
            f.write(data)
        cue_path = os.path.join(base, "disc.cue")
        with open(cue_path, "w", encoding="ascii") as f:
            f.write(
                "\n   \nFILE \"disc.bin\" BINARY\n\n"
                "  TRACK 01 AUDIO\n\n    INDEX 01 00:00:01\n"
                "  TRACK 02 AUDIO\n    TITLE \"Two\"\n\t\n"
                "    INDEX 00 00:00:03\n    INDEX 01 00:00:04\n"
                "  TRACK 03 AUDIO\n    INDEX 01 00:00:07\n\n\n"
            )
        destination = os.path.join(base, "out")
        os.mkdir(destination)
        actions.export_samples_to_wav(cue_path, destination)
        found = []
        for root, _dirs, files in sorted(os.walk(destination)):
            for name in sorted(files):
                with open(os.path.join(root, name), "rb") as f:
                    found.append(f.read())
        windows = [
            data[1*2352:3*2352], data[3*2352:7*2352],
            data[7*2352:len(data) - ((len(data) - 7*2352) % 4)],
        ]
        if sorted(blob[44:] for blob in found) != sorted(windows):
            failures += 1
            print("MISMATCH (export)", [len(blob) for blob in found])
    finally:
        shutil.rmtree(base, ignore_errors=True)
    return 1, failures


def main():
    total = 0
    failed = 0
    for part in (direct_cases, traced_cases, module_cases, export_case):
        count, failures = part()
        print(part.__name__, "cases:", count, "failures:", failures)
        total += count
        failed += failures
    print("total cases:", total, "failures:", failed)
    return 1 if failed else 0


if __name__ == "__main__":
    sys.exit(main())
