"""Equivalence demo for r24: smpl_extract/cuesheet.py CueSheetFileAdapter.parse -
the parser of the `FILE "..." BINARY` block that parse_cue_sheet calls for
actions.attempt_parse_cue_sheet (the cue data-track indirection of property
C09: it yields bin_file_name and the track modes that decide between "sampler
image behind a data track" and "CDDA").

The refactoring merges the two BadCueSheet guards (`len(text) <= 0` and "FILE
regex does not match") into one by computing
`file_match = _FILE_LINE_REGEX.match(first_entry) if first_entry else None` and
testing `file_match is None`; spells `result.groups()[0]` as
`file_match.group(1)`, passes it to CueSheetFile by keyword, writes the
`len(...)` tests as truthiness tests (`while lines`, `if not text`) and inlines
the `lines = [text] + lines` push-back into the CueSheetTrackAdapter.parse call.

The ORIGINAL method is pasted below.  Checks:
  * thousands of line lists (well-formed sheets, several FILE blocks, blank
    lines, junk, lower case, odd quoting, missing TRACK/INDEX, FILE lines that do
    not match, empty input, non-string items) through both: same
    (CueSheetFile, remaining lines) or same exception type and message; the
    caller's list is consumed in place in exactly the same way; the same
    identity relation between the returned list and the argument; the same
    sequence of calls to get_nonempty_entry, the FILE regex and
    CueSheetTrackAdapter.parse (arguments included);
  * parse_cue_sheet with the live method and with the original patched in;
  * end to end: actions.determine_image_type on cue files in a fresh temp
    directory (data track over a raw and over a 2352-byte-sector Roland image,
    all-audio sheet -> CDDA, sheet without FILE, non-ASCII file), live vs
    original patched in: same kind of image, same `ls` text.
"""
import contextlib
import copy
import io
import os
import random
import shutil
import struct
import sys
import tempfile
from typing import List

from smpl_extract import actions
from smpl_extract import cuesheet
from smpl_extract.alcohol.mdx import MdxHeaderConstruct
from smpl_extract.cuesheet import BadCueSheet
from smpl_extract.cuesheet import CueSheetFile
from smpl_extract.cuesheet import CueSheetFileAdapter
from smpl_extract.cuesheet import CueSheetTrackAdapter
from smpl_extract.cuesheet import _FILE_LINE_REGEX
from smpl_extract.cuesheet import get_nonempty_entry
from smpl_extract.cuesheet import parse_cue_sheet
from smpl_extract.roland.s7xx.data_types import FAT_AREA_ID
from smpl_extract.roland.s7xx.data_types import FAT_AREA_OFFSET
from smpl_extract.roland.s7xx.data_types import FAT_AREA_SIZE
from smpl_extract.roland.s7xx.image import IdAreaStruct


# ---- the ORIGINAL method, verbatim -------------------------------------------------
class OriginalCueSheetFileAdapter:


    @classmethod
    def parse(cls, lines: List[str]):
        text, lines = get_nonempty_entry(lines)
        if len(text) <= 0:
            raise BadCueSheet
        result = _FILE_LINE_REGEX.match(text)
        if not result:
            raise BadCueSheet

        bin_file_name = result.groups()[0]
        cue_sheet = CueSheetFile(bin_file_name)
        while len(lines):
            text, lines = get_nonempty_entry(lines)
            if len(text) <= 0:
                break
            lines = [text] + lines
            track, lines = CueSheetTrackAdapter.parse(lines)
            if track:
                cue_sheet.tracks.append(track)

        return cue_sheet, lines
# --------------------------------------------------------------------------------


failures = []
checks = 0


def check(label, a, b):
    global checks
    checks += 1
    if a != b:
        failures.append((label, a, b))


def outcome(fn):
    try:
        return ("ok", fn())
    except Exception as e:  # noqa: BLE001 - compared, not hidden
        return ("exc", type(e).__name__, str(e))


class Spy:
    """Logs the calls the method makes to its three collaborators.

    The pasted original looks the names up in this module, the live method in
    smpl_extract.cuesheet, so both are patched for the duration.
    """

    def __init__(self):
        self.log = []

    @contextlib.contextmanager
    def installed(self):
        spy = self
        real_entry = cuesheet.get_nonempty_entry
        real_regex = cuesheet._FILE_LINE_REGEX
        real_track_parse = CueSheetTrackAdapter.__dict__["parse"]

        def entry(lines):
            spy.log.append(("entry", copy.deepcopy(lines)))
            return real_entry(lines)

        class Regex:
            def match(self, text, *a):
                spy.log.append(("file regex", text) + a)
                return real_regex.match(text, *a)

        def track_parse(cls, lines):
            spy.log.append(("track parse", copy.deepcopy(lines)))
            return real_track_parse.__func__(cls, lines)

        module_globals = globals()
        saved = (module_globals["get_nonempty_entry"], module_globals["_FILE_LINE_REGEX"])
        cuesheet.get_nonempty_entry = module_globals["get_nonempty_entry"] = entry
        cuesheet._FILE_LINE_REGEX = module_globals["_FILE_LINE_REGEX"] = Regex()
        CueSheetTrackAdapter.parse = classmethod(track_parse)
        try:
            yield
        finally:
            cuesheet.get_nonempty_entry = real_entry
            cuesheet._FILE_LINE_REGEX = real_regex
            module_globals["get_nonempty_entry"], module_globals["_FILE_LINE_REGEX"] = saved
            CueSheetTrackAdapter.parse = real_track_parse


FILE_LINES = [
    'FILE "image.bin" BINARY', 'file "IMAGE.BIN" binary', '  FILE   "a b.img"   BINARY  ', '\tFILE "" BINARY',
    'FILE "x.bin" BINARY trailing', 'FILE "quo"te.bin" BINARY', 'FILE "x.wav" WAVE', 'FILE x.bin BINARY',
    'FILE "x.bin"BINARY', 'FILE "x.bin" BINARYFILE "y.bin" BINARY', 'FILES "x.bin" BINARY', 'REM FILE "x.bin" BINARY',
]
TRACK_LINES = [
    '  TRACK 01 MODE1/2352', 'TRACK 02 AUDIO', 'track 3 audio', '  TRACK 99 MODE2/2336', 'TRACK 01', 'TRACK AUDIO',
    'TRACK 04 CDG', '\tTRACK 5 Audio',
]
OTHER_LINES = [
    '    INDEX 01 00:00:00', 'INDEX 00 12:34:56', 'index 1 1:2:3', 'INDEX 01 00:00', '    TITLE "Song"', 'TITLE ""',
    'title "a "quoted" b"', 'PERFORMER "x"', 'FLAGS DCP', 'REM comment', 'PREGAP 00:02:00', 'garbage', '0', '"',
]
BLANKS = ['', ' ', '\t', '\n', '  \n', '\r\n']


def random_lines(rng):
    style = rng.random()
    lines = []
    if style < 0.5:                                     # a sheet shaped like a real one
        for _ in range(rng.choice([1, 1, 1, 2, 3])):
            if rng.random() < 0.3:
                lines += rng.choices(BLANKS + ['REM x', 'CATALOG 123'], k=rng.randrange(0, 3))
            lines.append(rng.choice(FILE_LINES[:4] if rng.random() < 0.8 else FILE_LINES))
            for _ in range(rng.randrange(0, 5)):
                if rng.random() < 0.2:
                    lines.append(rng.choice(BLANKS))
                lines.append(rng.choice(TRACK_LINES[:4] if rng.random() < 0.8 else TRACK_LINES))
                lines += rng.choices(OTHER_LINES + BLANKS, k=rng.randrange(0, 4))
    elif style < 0.9:                                   # a shuffle of everything
        pool = FILE_LINES + TRACK_LINES + OTHER_LINES + BLANKS
        lines = rng.choices(pool, k=rng.randrange(0, 12))
    else:                                               # blanks only / nothing
        lines = rng.choices(BLANKS, k=rng.randrange(0, 4))
    if rng.random() < 0.7:
        lines = [line + "\n" for line in lines]         # as readlines() delivers them
    if rng.random() < 0.03 and lines:
        lines[rng.randrange(len(lines))] = rng.choice([None, 7, b'FILE "x" BINARY', b""])
    return lines


def run(parse, lines, spy=None):
    argument = copy.deepcopy(lines)
    with (spy.installed() if spy else contextlib.nullcontext()):
        out = outcome(lambda: parse(argument))
    if out[0] == "ok":
        cue_sheet, rest = out[1]
        out = (
            "ok",
            type(cue_sheet).__name__,
            cue_sheet,                                  # dataclass equality: name, tracks, indices, unparsed
            repr(cue_sheet),
            rest,
            type(rest).__name__,
            rest is argument,                           # handed back the caller's own list?
        )
    return out, argument                                # ... and what is left in the caller's list


def unit(rng):
    tally = {"ok": 0, "exc": 0}
    tracks_seen = 0
    for n in range(6000):
        lines = random_lines(rng)
        a = run(CueSheetFileAdapter.parse, lines)
        b = run(OriginalCueSheetFileAdapter.parse, lines)
        check(("parse", n, lines), a, b)
        tally[b[0][0]] += 1
        if b[0][0] == "ok":
            tracks_seen += len(b[0][2].tracks)
        if n % 4 == 0:
            spies = (Spy(), Spy())
            a = run(CueSheetFileAdapter.parse, lines, spies[0])
            b = run(OriginalCueSheetFileAdapter.parse, lines, spies[1])
            check(("parse with spies", n, lines), a, b)
            check(("collaborator calls", n, lines), spies[0].log, spies[1].log)
    check("both outcomes exercised", (tally["ok"] > 1500, tally["exc"] > 1500, tracks_seen > 1500), (True, True, True))

    # a few fixed cases spelled out
    fixed = [
        [],
        [""],
        ["\n", "   \n"],
        ['FILE "a.bin" BINARY\n'],
        ['FILE "a.bin" BINARY\n', "\n", "\n"],
        ['\n', 'FILE "a.bin" BINARY\n', '  TRACK 01 MODE1/2352\n', '    INDEX 01 00:00:00\n'],
        ['FILE "a.bin" BINARY\n', 'INDEX 01 00:00:00\n'],              # TRACK missing -> BadCueSheet from the track parser
        ['FILE "a.bin" BINARY\n', 'TRACK 01 AUDIO\n', 'FILE "b.bin" BINARY\n', 'TRACK 02 AUDIO\n'],
        ['TRACK 01 AUDIO\n', 'FILE "a.bin" BINARY\n'],
        ['FILE "a.bin" WAVE\n', 'TRACK 01 AUDIO\n'],
    ]
    for n, lines in enumerate(fixed):
        check(("fixed", n), run(CueSheetFileAdapter.parse, lines), run(OriginalCueSheetFileAdapter.parse, lines))
    check(
        "fixed value",
        run(CueSheetFileAdapter.parse, fixed[5])[0][2],
        CueSheetFile("a.bin", [cuesheet.CueSheetTrack(1, "MODE1/2352", None, [cuesheet.CueSheetIndex(1, 0, 0, 0)], [])]),
    )
    check("empty raises BadCueSheet", run(CueSheetFileAdapter.parse, [])[0], ("exc", "BadCueSheet", ""))


@contextlib.contextmanager
def original_method_installed():
    live = CueSheetFileAdapter.__dict__["parse"]
    CueSheetFileAdapter.parse = OriginalCueSheetFileAdapter.__dict__["parse"]
    try:
        yield
    finally:
        CueSheetFileAdapter.parse = live


def whole_sheets(rng):
    for n in range(2500):
        lines = random_lines(rng)
        first = copy.deepcopy(lines)
        second = copy.deepcopy(lines)
        a = outcome(lambda: parse_cue_sheet(first))
        with original_method_installed():
            b = outcome(lambda: parse_cue_sheet(second))
        check(("parse_cue_sheet", n, lines), (a, first), (b, second))


def header(sector_id):
    return b"\x00" + b"\xFF" * 10 + b"\x00" + struct.pack(">I", sector_id)[1:] + b"\x01"


def mdf_wrap(payload):
    out = bytearray()
    for i in range(0, len(payload), 2048):
        out += header(i // 2048) + payload[i:i + 2048].ljust(2048, b"\0") + bytes(288)
    return bytes(out)


def mdx_wrap(payload):
    return MdxHeaderConstruct.build(dict(
        copyright=b"\xA9" + b" " * 25,
        eof=MdxHeaderConstruct.sizeof() + len(payload),
    )) + payload


def make_roland_image(rng, extra):
    values = dict(
        revision=rng.randint(0, 2**32 - 1),
        s7xx_str="S770 MR25A",
        empty_str="",
        version_str="S-770 Hard Disk Ver. 2.25",
        copyright_str="Copyright Roland",
        disk_name=rng.choice(["MYDISK", "A B C"]),
        disk_capacity=rng.randint(0, 2**32 - 1),
        num_volumes=0,
        num_performances=0,
        num_patches=rng.randint(0, 0xFFFF),
        num_partials=rng.randint(0, 0xFFFF),
        num_samples=rng.randint(0, 0xFFFF),
    )
    img = bytearray(0x110000 + extra)
    ida = IdAreaStruct.build(values)
    img[:len(ida)] = ida
    fat = bytearray(FAT_AREA_SIZE)
    struct.pack_into("<HH", fat, 0, FAT_AREA_ID, 77)
    struct.pack_into("<HH", fat, FAT_AREA_SIZE - 4, 0xFFFF, 0xFFFF)
    img[FAT_AREA_OFFSET:FAT_AREA_OFFSET + FAT_AREA_SIZE] = fat
    return bytes(img)


def ls_text(image, path=""):
    buf = io.StringIO()
    with contextlib.redirect_stdout(buf):
        actions.ls_action(image, path)
    return buf.getvalue()


def describe(path):
    def go():
        image = actions.determine_image_type(path)
        return (type(image).__name__, ls_text(image))
    return outcome(go)


def end_to_end(rng):
    workdir = tempfile.mkdtemp(prefix="r24_demo_")
    try:
        payload = make_roland_image(rng, 777)
        files = {
            "img.raw": payload,
            "img.mdf": mdf_wrap(payload),
            "img.mdx": mdx_wrap(payload),
            "audio.bin": bytes(2352 * 75 * 4),
        }
        for name, blob in files.items():
            with open(os.path.join(workdir, name), "wb") as f:
                f.write(blob)
        sheets = {
            "data_raw.cue": 'FILE "img.raw" BINARY\n  TRACK 01 MODE1/2352\n    INDEX 01 00:00:00\n',
            "data_mdf.cue": 'FILE "img.mdf" BINARY\n  TRACK 01 MODE1/2352\n    INDEX 01 00:00:00\n',
            "data_mdx.cue": '\n\nfile "img.mdx" binary\n\n  track 01 mode1/2048\n    index 01 00:00:00\n\n',
            "mixed.cue": 'FILE "img.mdf" BINARY\n  TRACK 01 MODE1/2352\n    INDEX 01 00:00:00\n  TRACK 02 AUDIO\n    INDEX 01 00:02:00\n',
            "audio.cue": 'REM made up\nFILE "audio.bin" BINARY\n  TRACK 01 AUDIO\n    TITLE "One"\n    INDEX 01 00:00:00\n'
                         '  TRACK 02 AUDIO\n    INDEX 00 00:01:00\n    INDEX 01 00:02:00\n',
            "two_files.cue": 'FILE "img.raw" BINARY\n  TRACK 01 MODE1/2352\n    INDEX 01 00:00:00\n'
                             'FILE "audio.bin" BINARY\n  TRACK 02 AUDIO\n    INDEX 01 00:00:00\n',
            "no_tracks.cue": 'FILE "img.raw" BINARY\n',
            "no_file.cue": 'TRACK 01 AUDIO\n  INDEX 01 00:00:00\n',
            "wave.cue": 'FILE "audio.wav" WAVE\n  TRACK 01 AUDIO\n    INDEX 01 00:00:00\n',
            "missing_bin.cue": 'FILE "nowhere.bin" BINARY\n  TRACK 01 MODE1/2352\n    INDEX 01 00:00:00\n',
            "broken_track.cue": 'FILE "img.raw" BINARY\n  INDEX 01 00:00:00\n',
            "empty.cue": '',
        }
        for name, text in sheets.items():
            with open(os.path.join(workdir, name), "w", encoding="ascii", newline="") as f:
                f.write(text)

        results = {}
        for name in list(sheets) + ["img.raw", "img.mdf", "img.mdx"]:
            path = os.path.join(workdir, name)
            live = describe(path)
            with original_method_installed():
                reference = describe(path)
            check(("e2e", name), live, reference)
            results[name] = live

        roland = results["img.raw"]
        check("e2e raw is roland", roland[:1] + roland[1][:1], ("ok", "RolandS7xxImage"))
        for name in ("img.mdf", "img.mdx", "data_raw.cue", "data_mdf.cue", "data_mdx.cue", "mixed.cue", "two_files.cue"):
            check(("e2e same listing as raw", name), results[name], roland)
        check("e2e audio sheet is CDDA", results["audio.cue"][0] == "ok" and results["audio.cue"][1][0] != "RolandS7xxImage", True)
    finally:
        shutil.rmtree(workdir, ignore_errors=True)


def main():
    rng = random.Random(0x524)
    unit(rng)
    whole_sheets(rng)
    end_to_end(rng)

    print(f"{checks} checks, {len(failures)} disagreements")
    for f in failures[:10]:
        print("  MISMATCH", repr(f)[:700])
    return 1 if failures else 0


if __name__ == "__main__":
    sys.exit(main())
