"""Equivalence demo for r16 (smpl_extract/roland/s7xx/partial_entry.py:
SampleEntryReferenceAdapter._parse - called once per sample slot by the
tolerant loop of PartialEntryAdapter._parse; it resolves the sample a partial's
sample section points at and copies the section's nine mixing values into a
SampleEntryReference).

An inline copy of the ORIGINAL adapter is compared with the live one.

 A. direct: _parse with hand-made section containers (construct Containers,
    objects whose attribute reads are logged, containers that lack one or two
    of the attributes - every single one and every pair -, values of odd
    types) and sample selections that are negative / zero / large / None /
    not a number, a missing "ref_container", with the sample look-up replaced
    by recording fakes (succeeding, raising ConstructError / KeyError).
    Compared: every field of the resulting reference (identity for the sample
    entry), the order of attribute reads, the arguments handed to the sample
    look-up, exception type and text.
 B. records: a sparse synthetic S-7xx image with partial and sample records is
    read through SafeListConstruct(PartialEntryAdapter(...)) with the module's
    SampleEntryReferenceAdapter bound to the original or to the live class.
    For one partial EVERY byte of its parameter record is set to several
    values (every value for the bytes of the first two sample selections, every
    fifth for the other two), every
    byte of its directory record and of the records of a sample it uses to a
    few values, plus random multi-byte damage confined to one record.
    Compared: all partials that survive (names, paths, parents, every field of
    every reference and of its sample entry, the re-parented sample_entries)
    and the trace of seek/read/tell on the image stream.

Exit 0 when everything agrees, 1 otherwise.
"""
import dataclasses
import io
import itertools
import random
import struct
import sys
from typing import cast

from construct.core import ConstructError
from construct.core import Pass
from construct.core import Struct
from construct.core import Subconstruct
from construct.lib.containers import Container

import smpl_extract.roland.s7xx.partial_entry as pe
from smpl_extract.roland.s7xx.data_types import PARTIAL_DIRECTORY_AREA_OFFSET
from smpl_extract.roland.s7xx.data_types import PARTIAL_DIRECTORY_ENTRY_SIZE
from smpl_extract.roland.s7xx.data_types import PARTIAL_PARAMETER_AREA_OFFSET
from smpl_extract.roland.s7xx.data_types import PARTIAL_PARAMETER_ENTRY_SIZE
from smpl_extract.roland.s7xx.data_types import SAMPLE_DIRECTORY_AREA_OFFSET
from smpl_extract.roland.s7xx.data_types import SAMPLE_DIRECTORY_ENTRY_SIZE
from smpl_extract.roland.s7xx.data_types import SAMPLE_PARAMETER_AREA_OFFSET
from smpl_extract.roland.s7xx.data_types import SAMPLE_PARAMETER_ENTRY_SIZE
from smpl_extract.roland.s7xx.partial_entry import PartialParamSampleSectionContainer
from smpl_extract.roland.s7xx.partial_entry import SampleEntryReference
from smpl_extract.util.constructs import SafeListConstruct

LiveAdapter = pe.SampleEntryReferenceAdapter


# ---------------------------------------------------------------- original
class OrigSampleEntryReferenceAdapter(Subconstruct):

    def _parse(self, stream, context, path) -> SampleEntryReference:
        container = cast(
            PartialParamSampleSectionContainer,
            context["ref_container"]
        )
        if container.sample_selection < 0:
            raise ConstructError
        # module globals of partial_entry.py, looked up at call time
        sample_entry_sc = pe.SampleEntryAdapter(
            pe.SampleEntryConstruct(container.sample_selection)
        )
        new_path = path + " -> sample_entries"
        sample_entry = sample_entry_sc._parse(  # type: ignore
            stream,
            context,
            new_path
        )
        result = pe.SampleEntryReference(
            sample_entry=sample_entry,
            pitch_kf=container.pitch_kf,
            sample_level=container.sample_level,
            pan=container.pan,
            coarse_tune=container.coarse_tune,
            fine_tune=container.fine_tune,
            smt_velocity_lower=container.smt_velocity_lower,
            smt_velocity_upper=container.smt_velocity_upper,
            smt_fade_with_lower=container.smt_fade_with_lower,
            smt_fade_with_upper=container.smt_fade_with_upper
        )
        return result

    def _encode(self, obj, context, path):
        raise NotImplementedError


failures = []
checked = 0


def check(cond, msg):
    global checked
    checked += 1
    if not cond:
        failures.append(msg)


SECTION_FIELDS = [
    "sample_selection", "pitch_kf", "sample_level", "pan", "coarse_tune",
    "fine_tune", "smt_velocity_lower", "smt_fade_with_lower",
    "smt_velocity_upper", "smt_fade_with_upper",
]


# ---------------------------------------------------------------- part A
class LoggedSection:
    """attribute reads are logged; missing names raise AttributeError"""

    def __init__(self, log, values):
        object.__setattr__(self, "_values", values)
        object.__setattr__(self, "_log", log)

    def __getattr__(self, name):
        self._log.append(("read", name))
        try:
            return self._values[name]
        except KeyError:
            raise AttributeError("section has no %s" % name)


class FakeSampleConstruct:
    def __init__(self, log, index):
        log.append(("SampleEntryConstruct", repr(index)))
        self.index = index


class FakeSampleAdapter:
    mode = "ok"

    def __init__(self, log, subcon):
        log.append(("SampleEntryAdapter", type(subcon).__name__))
        self.log = log
        self.subcon = subcon

    def _parse(self, stream, context, path):
        self.log.append(("sample._parse", stream, sorted(context.keys()), path))
        if self.mode == "construct-error":
            raise ConstructError("no such sample")
        if self.mode == "key-error":
            raise KeyError("fat")
        return ("sample-entry", self.subcon.index)


def describe_reference(ref, expected_entry=None):
    if not isinstance(ref, SampleEntryReference):
        return ("not-a-reference", type(ref))
    out = [type(ref).__name__]
    for f in dataclasses.fields(ref):
        v = getattr(ref, f.name)
        out.append((f.name, type(v).__name__, repr(v)))
    return out


def run_direct(cls, section_kind, values, mode, path="p", with_ref=True):
    log = []
    if section_kind == "container":
        section = Container(values)
    elif section_kind == "dataclass":
        try:
            section = PartialParamSampleSectionContainer(**values)
        except TypeError:
            section = Container(values)
    elif section_kind == "none":
        section = None
    else:
        section = LoggedSection(log, values)
    context = Container(fat="FAT", _=Container(up=1))
    if with_ref:
        context["ref_container"] = section
    saved = (pe.SampleEntryAdapter, pe.SampleEntryConstruct)
    FakeSampleAdapter.mode = mode
    pe.SampleEntryAdapter = lambda subcon: FakeSampleAdapter(log, subcon)
    pe.SampleEntryConstruct = lambda index: FakeSampleConstruct(log, index)
    try:
        try:
            ref = cls(Pass)._parse("STREAM", context, path)
        except BaseException as e:  # noqa: B902
            return ("raise", type(e), str(e), log, sorted(context.keys()))
    finally:
        pe.SampleEntryAdapter, pe.SampleEntryConstruct = saved
    return ("ok", describe_reference(ref), log, sorted(context.keys()))


def compare_direct(label, *args, **kw):
    a = run_direct(OrigSampleEntryReferenceAdapter, *args, **kw)
    b = run_direct(LiveAdapter, *args, **kw)
    check(a == b, f"direct {label} {args} {kw}: {str(a)[:500]} != {str(b)[:500]}")
    return b


def part_a():
    rng = random.Random(0xC14)
    base = dict(
        sample_selection=7, pitch_kf=1, sample_level=2, pan=-3, coarse_tune=4,
        fine_tune=-5, smt_velocity_lower=6, smt_fade_with_lower=7,
        smt_velocity_upper=8, smt_fade_with_upper=9,
    )
    modes = ("ok", "construct-error", "key-error")
    kinds = ("container", "logged", "dataclass")
    for kind in kinds:
        for mode in modes:
            compare_direct("base", kind, base, mode)
            for sel in (-1, -32768, 0, 1, 8191, 8192, 32767, None, "3", 2.5, -0.5,
                        True, [1]):
                compare_direct("selection", kind, dict(base, sample_selection=sel), mode)
            # every single attribute missing, then every pair
            for name in SECTION_FIELDS:
                values = {k: v for k, v in base.items() if k != name}
                compare_direct(f"missing {name}", kind, values, mode)
            for first, second in itertools.combinations(SECTION_FIELDS, 2):
                values = {k: v for k, v in base.items() if k not in (first, second)}
                compare_direct(f"missing {first}+{second}", kind, values, mode)
            compare_direct("empty", kind, {}, mode)
            compare_direct("extra", kind, dict(base, sample_entry="decoy", extra=1), mode)
    compare_direct("no ref_container", "container", base, "ok", with_ref=False)
    compare_direct("None section", "none", base, "ok")
    for path in ("", "a -> b", None, 5, b"bytes"):
        compare_direct("path", "logged", base, "ok", path=path)
    for _ in range(1500):
        values = {}
        for name in SECTION_FIELDS:
            if rng.random() < 0.93:
                values[name] = rng.choice([rng.randrange(-128, 256), None, "x", 1.5])
        if "sample_selection" in values and rng.random() < 0.8:
            values["sample_selection"] = rng.randrange(-5, 9000)
        compare_direct("random", rng.choice(kinds), values, rng.choice(modes))

    # expected values independent of the copy
    res = run_direct(LiveAdapter, "logged", base, "ok")
    check(res[0] == "ok", f"base decodes: {str(res)[:300]}")
    if res[0] == "ok":
        d = {x[0]: x[2] for x in res[1][1:]}
        check(d == dict({k: repr(v) for k, v in base.items()
                         if k != "sample_selection"},
                        sample_entry=repr(("sample-entry", 7))), f"fields {d}")
        check([x[1] for x in res[2] if x[0] == "read"] == [
            "sample_selection", "sample_selection", "pitch_kf", "sample_level",
            "pan", "coarse_tune", "fine_tune", "smt_velocity_lower",
            "smt_velocity_upper", "smt_fade_with_lower", "smt_fade_with_upper"],
            f"read order {res[2]}")
        check(("sample._parse", "STREAM", ["_", "fat", "ref_container"],
               "p -> sample_entries") in res[2], "sample look-up arguments")
    res = run_direct(LiveAdapter, "logged", dict(base, sample_selection=-1), "ok")
    check(res[0] == "raise" and res[1] is ConstructError and res[3] == [
        ("read", "sample_selection")], f"negative selection: {res}")


# ---------------------------------------------------------------- part B
class TracingFile(io.BytesIO):

    def __init__(self, data):
        super().__init__(data)
        self.trace = []

    def tell(self):
        pos = super().tell()
        self.trace.append(("tell", pos))
        return pos

    def seek(self, *args):
        pos = super().seek(*args)
        self.trace.append(("seek", args, pos))
        return pos

    def read(self, *args):
        data = super().read(*args)
        self.trace.append(("read", args, len(data)))
        return data


def dir_record(name, ftype, fat_entry, nclusters):
    return name.ljust(16, "\0").encode("ascii") + bytes([ftype, 0]) \
        + struct.pack("<HHHIHH", 0, 0, 0, 0, fat_entry, nclusters)


def sample_param_record(name, loop_mode, cluster_top, nclusters, options, key):
    rec = name.ljust(16, "\0").encode("ascii")
    for point in (0x100, 0x2000, 0x30FF, 0x4000, 0x5001):
        rec += struct.pack("<I", point)
    rec += bytes([loop_mode, 1, 2, 3]) + struct.pack("<HH", cluster_top, nclusters)
    rec += bytes([options, key, 0, 0])
    assert len(rec) == SAMPLE_PARAMETER_ENTRY_SIZE, len(rec)
    return rec


def section(selection, seed):
    return struct.pack(
        "<hBBbbbBBBB", selection, seed, seed + 1, -seed, seed + 2, -seed - 1,
        seed + 3, seed + 4, seed + 5, seed + 6
    )


def partial_param_record(name, selections, seed):
    rec = name.ljust(16, "\0").encode("ascii")
    rec += section(selections[0], seed) + b"\0" + bytes([1, 2, 3, 4])
    rec += section(selections[1], seed + 10) + b"\0" + bytes([5, 0xFE, 7, 8])
    rec += section(selections[2], seed + 20) + b"\0" * 5
    rec += section(selections[3], seed + 30)
    rec += bytes(range(40, 61))          # tvf: 21 bytes
    rec += bytes(range(70, 86))          # tva: 16 bytes
    rec += bytes(range(90, 99))          # lfo: 9 bytes
    rec += b"\0" * 7
    assert len(rec) == PARTIAL_PARAMETER_ENTRY_SIZE, len(rec)
    return rec


NUM_SAMPLES = 6
NUM_PARTIALS = 4
IMAGE_SIZE = SAMPLE_PARAMETER_AREA_OFFSET \
    + SAMPLE_PARAMETER_ENTRY_SIZE * (NUM_SAMPLES + 2)
SELECTIONS = [
    (0, 1, -1, -1),
    (2, 3, 4, 5),
    (5, -1, 2, 300),          # 300: an all-zero sample record
    (-1, -1, -1, -1),
]


def make_image():
    buf = bytearray(IMAGE_SIZE)
    for i in range(NUM_SAMPLES):
        d = dir_record("SAMPLE %d" % i, 0x44, 10 + i, 3)
        off = SAMPLE_DIRECTORY_AREA_OFFSET + i * SAMPLE_DIRECTORY_ENTRY_SIZE
        buf[off:off + len(d)] = d
        p = sample_param_record("SPARAM %d" % i, i % 7, i % 3, 3,
                                0x01 | ((i % 2) << 4), 60 + i)
        off = SAMPLE_PARAMETER_AREA_OFFSET + i * SAMPLE_PARAMETER_ENTRY_SIZE
        buf[off:off + len(p)] = p
    for i in range(NUM_PARTIALS):
        d = dir_record("PARTIAL %d" % i, 0x43, 0, 0)
        off = PARTIAL_DIRECTORY_AREA_OFFSET + i * PARTIAL_DIRECTORY_ENTRY_SIZE
        buf[off:off + len(d)] = d
        p = partial_param_record("PPARAM %d" % i, SELECTIONS[i], i + 1)
        off = PARTIAL_PARAMETER_AREA_OFFSET + i * PARTIAL_PARAMETER_ENTRY_SIZE
        buf[off:off + len(p)] = p
    return buf


class FakeFat:
    def __init__(self, log):
        self.log = log

    def get_file(self, *args, **kwargs):
        self.log.append(("get_file", args, sorted(kwargs.items())))
        if args and args[0] == 0xFFFF:
            raise IndexError("no such chain")
        return ("file", args, tuple(sorted(kwargs.items())))


class PatchParent:
    path = ["IMG", "PERF", "PATCH"]


PartialList = Struct(
    "partials" / SafeListConstruct(
        NUM_PARTIALS + 1,
        pe.PartialEntryAdapter(pe.PartialEntryConstruct(lambda this: this._index))
    )
)


def describe_dataclass(obj, parent):
    out = []
    for f in dataclasses.fields(obj):
        v = getattr(obj, f.name)
        if f.name == "_parent":
            v = ("parent", v is parent, type(v).__name__)
        elif f.name == "sample_entry":
            v = describe_dataclass(v, parent)
        elif f.name == "sample_entry_references":
            v = [describe_dataclass(r, parent) for r in v]
        elif f.name == "_routines":
            v = sorted(v)
        out.append((f.name, type(v).__name__, repr(v)))
    return out


def run_image(adapter_cls, data, dir_version=None):
    stream = TracingFile(bytes(data))
    log = []
    parent = PatchParent()
    kw = dict(fat=FakeFat(log), _elem_parent=parent, _elem_routines={})
    if dir_version is not None:
        kw["_dir_version"] = dir_version
    saved = pe.SampleEntryReferenceAdapter
    pe.SampleEntryReferenceAdapter = adapter_cls
    try:
        try:
            c = PartialList.parse_stream(stream, **kw)
        except BaseException as e:  # noqa: B902
            return ("raise", type(e), str(e), log, list(stream.trace))
        trace = list(stream.trace)
        desc = []
        for partial in c.partials:
            before = describe_dataclass(partial, parent)
            try:
                children = [
                    (s.name, list(s.path), s.parent is partial, s.index)
                    for s in partial.sample_entries
                ]
            except BaseException as e:  # noqa: B902
                children = ("children-raise", type(e), str(e))
            desc.append((partial.name, list(partial.path), before, children))
    finally:
        pe.SampleEntryReferenceAdapter = saved
    return ("ok", desc, log, trace, list(stream.trace))


def compare_image(label, data, **kw):
    a = run_image(OrigSampleEntryReferenceAdapter, data, **kw)
    b = run_image(LiveAdapter, data, **kw)
    check(a == b, f"image {label} {kw}: {str(a)[:500]} != {str(b)[:500]}")
    return b


def part_b():
    rng = random.Random(0x16C14)
    good = make_image()
    for kw in ({}, {"dir_version": 1}, {"dir_version": 2}):
        compare_image("good", good, **kw)
    compare_image("truncated", good[:SAMPLE_PARAMETER_AREA_OFFSET + 10])
    compare_image("truncated partial params", good[:PARTIAL_PARAMETER_AREA_OFFSET + 200])
    compare_image("empty", b"")

    target = 1
    pdoff = PARTIAL_DIRECTORY_AREA_OFFSET + target * PARTIAL_DIRECTORY_ENTRY_SIZE
    ppoff = PARTIAL_PARAMETER_AREA_OFFSET + target * PARTIAL_PARAMETER_ENTRY_SIZE
    sdoff = SAMPLE_DIRECTORY_AREA_OFFSET + 3 * SAMPLE_DIRECTORY_ENTRY_SIZE
    spoff = SAMPLE_PARAMETER_AREA_OFFSET + 3 * SAMPLE_PARAMETER_ENTRY_SIZE
    few = (0x00, 0x01, 0x7F, 0x80, 0xFF)
    selection_bytes = {16, 17, 32, 33, 48, 49, 64, 65}

    def damaged(pos, value):
        d = bytearray(good)
        d[pos] = value
        return d

    for off in range(PARTIAL_PARAMETER_ENTRY_SIZE):
        if off in (16, 17, 32, 33):
            values = range(256)
        elif off in selection_bytes:
            values = range(0, 256, 5)
        else:
            values = few
        for value in values:
            compare_image(f"ppar[{off}]={value:#x}", damaged(ppoff + off, value))
    for off in range(PARTIAL_DIRECTORY_ENTRY_SIZE):
        for value in few:
            compare_image(f"pdir[{off}]={value:#x}", damaged(pdoff + off, value))
    for off in range(SAMPLE_DIRECTORY_ENTRY_SIZE):
        for value in (0x00, 0x80, 0xFF):
            compare_image(f"sdir[{off}]={value:#x}", damaged(sdoff + off, value))
    for off in range(SAMPLE_PARAMETER_ENTRY_SIZE):
        for value in (0x00, 0x80, 0xFF):
            compare_image(f"spar[{off}]={value:#x}", damaged(spoff + off, value))
    for _ in range(300):
        d = bytearray(good)
        base, width = rng.choice([
            (ppoff, PARTIAL_PARAMETER_ENTRY_SIZE), (ppoff, PARTIAL_PARAMETER_ENTRY_SIZE),
            (pdoff, PARTIAL_DIRECTORY_ENTRY_SIZE),
            (sdoff, SAMPLE_DIRECTORY_ENTRY_SIZE), (spoff, SAMPLE_PARAMETER_ENTRY_SIZE),
        ])
        for _ in range(rng.randrange(2, 10)):
            d[base + rng.randrange(width)] = rng.getrandbits(8)
        compare_image("random record damage", d,
                      dir_version=rng.choice([None, 1, 2]))

    # expected values, independent of the inline copy
    res = run_image(LiveAdapter, good)
    check(res[0] == "ok", f"good image parses: {str(res)[:300]}")
    if res[0] == "ok":
        names = [p[0] for p in res[1]]
        check(names[:NUM_PARTIALS] == ["PARTIAL %d" % i for i in range(NUM_PARTIALS)],
              f"partial names {names}")
        check(res[1][1][1] == PatchParent.path + ["PARTIAL 1"], "partial path")
        check([c[0] for c in res[1][1][3]]
              == ["SAMPLE 2", "SAMPLE 3", "SAMPLE 4", "SAMPLE 5"],
              f"children of partial 1: {res[1][1][3]}")
        check(res[1][1][3][1][1] == PatchParent.path + ["PARTIAL 1", "SAMPLE 3"]
              and res[1][1][3][1][2], "child path/parent")
        check([c[0] for c in res[1][0][3]] == ["SAMPLE 0", "SAMPLE 1"],
              "negative selections are skipped")
        refs = dict((x[0], x[2]) for x in res[1][1][2])["sample_entry_references"]
        check("('pitch_kf', 'int', '12')" in refs and "('pan', 'int', '-12')" in refs
              and "('smt_fade_with_upper', 'int', '18')" in refs,
              f"second section values: {refs[:300]}")
    d = damaged(sdoff, 0xFF)              # non-ascii name byte in sample 3
    res = run_image(LiveAdapter, d)
    check(res[0] == "ok" and [c[0] for c in res[1][1][3]]
          == ["SAMPLE 2", "SAMPLE 4", "SAMPLE 5"],
          "a damaged sample record drops only that sample")


def main():
    part_a()
    part_b()
    print(f"{checked} checks, {len(failures)} failures")
    for msg in failures[:15]:
        print("FAIL:", msg[:1500])
    return 1 if failures else 0


if __name__ == "__main__":
    sys.exit(main())
