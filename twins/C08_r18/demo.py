"""Equivalence demo for r18 (SectorStream._read: `result +=` -> chunk list + join).

The ORIGINAL SectorStream._read is pasted into a mix-in placed in front of
the three sector-based view classes (SectorStream, chained FileStream,
raw-sector MdfStream).  Twin views (live class / class with the original
_read) over twin logging images - alone and nested with offset windows and
reversed views - are driven through identical histories of seek / tell /
read(n) / read(None) calls: reads of size 0, reads inside one sector, reads
spanning 1..k sector boundaries, reads at and across the logical end, reads
over images that are shorter than the view claims (short parent reads ->
SectorReadError), chains that are shorter than the size (index error path),
direct _read calls with sizes <= 0.  After every call the demo compares the
return value and its type, the exception type and text, position /
true_size / end_of_file of every layer and the ordered log of calls made on
the underlying image (so the order and sizes of the parent reads are
checked too).  Where the logical content is known, reads are also checked
against it.  Exit 0 = all agree, 1 = mismatch.
"""
import itertools
import random
import sys
from io import BytesIO, SEEK_CUR, SEEK_END, SEEK_SET

from smpl_extract.alcohol.mdf import MdfStream
from smpl_extract.util.fat import FileStream
from smpl_extract.util.sector import SectorStream
from smpl_extract.util.stream import SectorReadError
from smpl_extract.util.stream import StreamOffset
from smpl_extract.util.stream import StreamReversed
from smpl_extract.util.stream import StreamWrapper


class OrigRead:
    """Original SectorStream._read, verbatim."""

    def _read(self, size: int)->bytes:

        if size <= 0:
            return bytes()

        remaining_size = size

        initial_sector_index    = self.position // self.sector_length
        initial_sector_offset   = self.position % self.sector_length

        # read partial initial sector
        if initial_sector_offset + size <= self.sector_length:
            initial_read_size = size
        else:
            initial_read_size = self.sector_length - initial_sector_offset
        result = self._read_sector(
            initial_sector_index,
            initial_sector_offset,
            initial_read_size
        )
        remaining_size -= initial_read_size

        # read full size middle sectors
        i = 1
        while remaining_size > self.sector_length:
            result += self._read_sector(
                initial_sector_index + i,
                0,
                self.sector_length
            )
            remaining_size -= self.sector_length
            i += 1

        # read partial final sector
        final_sector_index = initial_sector_index + i
        if remaining_size > 0:
            result += self._read_sector(
                final_sector_index,
                0,
                remaining_size
            )

        if len(result) != size:
            raise SectorReadError(f"Wanted {size}, read {len(result)}.")

        return result


class OSector(OrigRead, SectorStream): ...
class OFile(OrigRead, FileStream): ...
class OMdf(OrigRead, MdfStream): ...


LIVE = dict(w=StreamWrapper, o=StreamOffset, r=StreamReversed,
            s=SectorStream, f=FileStream, m=MdfStream)
ORIG = dict(w=StreamWrapper, o=StreamOffset, r=StreamReversed,
            s=OSector, f=OFile, m=OMdf)


class Image(BytesIO):
    """BytesIO that logs every call made on it."""

    def __init__(self, data):
        super().__init__(data)
        self.log = []

    def tell(self):
        r = super().tell()
        self.log.append(("tell", r))
        return r

    def seek(self, *a):
        r = super().seek(*a)
        self.log.append(("seek", a, r))
        return r

    def read(self, *a):
        r = super().read(*a)
        self.log.append(("read", a, r))
        return r


def call(fn, *a):
    try:
        r = fn(*a)
        return ("ok", type(r).__name__, r)
    except Exception as e:  # noqa: BLE001
        return ("exc", type(e).__name__, str(e))


def state(v):
    out = []
    while isinstance(v, StreamWrapper):
        out.append((v.position, v.true_size, v.end_of_file))
        v = v.substream
    return out


def image_of(v):
    while isinstance(v, StreamWrapper):
        v = v.substream
    return v


def build(classes, spec, data):
    """spec: list of (kind, params) from the innermost layer outwards."""
    stream = Image(data)
    for kind, params in spec:
        stream = classes[kind](stream, **params)
    return stream


failures = 0
checks = 0


def compare(tag, spec, data, history, logical=None):
    """Run one history on twin views; optionally check reads against the
    known logical content with a simple cursor model."""
    global failures, checks
    a = build(LIVE, spec, data)
    b = build(ORIG, spec, data)
    for step, (op, args) in enumerate(history):
        before = a.position
        ra = call(getattr(a, op), *args)
        rb = call(getattr(b, op), *args)
        checks += 1
        ok = (ra == rb and state(a) == state(b)
              and image_of(a).log == image_of(b).log)
        if ok and logical is not None and op == "read" and ra[0] == "ok":
            n = args[0]
            want = logical[before:] if n is None or n < 0 else logical[before:before + n]
            ok = ra[2] == want and a.position == before + len(want)
        if not ok:
            failures += 1
            if failures <= 10:
                print("MISMATCH", tag, spec, "step", step, op, args)
                print("  live:", ra, state(a))
                print("  orig:", rb, state(b))
            return


def main():
    global checks, failures
    rng = random.Random(1818)

    # 1. exhaustive short histories on tiny sector views
    data = bytes(range(1, 13))
    ops = [("seek", (o, w)) for o in (-1, 0, 1, 2, 3, 5) for w in (SEEK_SET, SEEK_CUR, SEEK_END)]
    ops += [("read", (n,)) for n in (0, 1, 2, 3, 4, 5, 7, 12, 13, None, -1)]
    ops += [("tell", ())]
    tiny = [
        ([("s", dict(size=12, sector_length=1))], data),
        ([("s", dict(size=12, sector_length=3))], data),
        ([("s", dict(size=12, sector_length=5))], data[:12]),
        ([("s", dict(size=11, sector_length=4))], data[:11]),
        ([("f", dict(sector_size=3, sector_list=[3, 1, 0, 2]))],
         data[9:12] + data[3:6] + data[0:3] + data[6:9]),
        ([("f", dict(sector_size=4, sector_list=[2, 0]))], data[8:12] + data[0:4]),
        ([("f", dict(sector_size=2, sector_list=[5, 5, 0]))], data[10:12] * 2 + data[0:2]),
    ]
    for spec, logical in tiny:
        for history in itertools.product(ops, repeat=2):
            compare("tiny2", spec, data, history, logical)
    for spec, logical in tiny[1::3]:
        for history in itertools.product(ops[::2], repeat=3):
            compare("tiny3", spec, data, history, logical)

    # 2. every (position, size) pair incl. reads across 1..k boundaries
    for sl in (1, 2, 3, 4, 7, 16):
        n = 40
        data = bytes(rng.randrange(256) for _ in range(n))
        cnt = n // sl
        chain = list(range(cnt))
        rng.shuffle(chain)
        logical_f = b"".join(data[c * sl:(c + 1) * sl] for c in chain)
        for pos in range(0, n + 2):
            for size in list(range(0, n + 3)) + [None]:
                compare("grid-s", [("s", dict(size=n, sector_length=sl))], data,
                        [("seek", (pos, SEEK_SET)), ("read", (size,)), ("read", (size,))],
                        data)
                compare("grid-f", [("f", dict(sector_size=sl, sector_list=chain))], data,
                        [("seek", (pos, SEEK_SET)), ("read", (size,)), ("read", (size,))],
                        logical_f)

    # 3. error paths: view longer than the image (short parent reads), chain
    #    pointing outside the image, size larger than the chain, _read direct
    for sl in (1, 3, 4, 8):
        n = 30
        data = bytes(rng.randrange(256) for _ in range(n))
        specs = [
            [("s", dict(size=n + 10, sector_length=sl))],
            [("s", dict(size=3 * n, sector_length=sl))],
            [("f", dict(sector_size=sl, sector_list=[0, 1, 100, 2]))],
            [("f", dict(sector_size=sl, sector_list=[n // sl, 0, n // sl - 1]))],
            [("f", dict(sector_size=sl, sector_list=[]))],
            [("f", dict(sector_size=sl, sector_list=[-1, 0]))],
        ]
        for spec in specs:
            for pos in range(0, n + 12, 1 if sl < 4 else 3):
                for size in (0, 1, sl - 1, sl, sl + 1, 2 * sl, 3 * sl + 1, n, n + 11, 4 * n, None):
                    compare("err", spec, data,
                            [("seek", (pos, SEEK_SET)), ("read", (size,)), ("tell", ()), ("read", (1,))])
        # a FileStream whose end_of_file was enlarged past its chain
        for size in (1, sl, 2 * sl + 1, 50):
            for pos in (0, 1, 2 * sl - 1, 2 * sl, 2 * sl + 1):
                views = []
                for classes in (LIVE, ORIG):
                    v = classes["f"](Image(data), sector_size=sl, sector_list=[1, 0])
                    v.end_of_file = 100
                    views.append(v)
                a, b = views
                for op, args in (("seek", (pos, SEEK_SET)), ("read", (size,)), ("_read", (size,)),
                                 ("_read", (0,)), ("_read", (-3,))):
                    ra = call(getattr(a, op), *args)
                    rb = call(getattr(b, op), *args)
                    checks += 1
                    if not (ra == rb and state(a) == state(b) and a.substream.log == b.substream.log):
                        failures += 1
                        print("MISMATCH enlarged", sl, pos, size, op, ra, rb)

    # 4. raw-sector MDF view: reads spanning 2352-byte raw sectors
    for sectors, extra in ((0, 5), (1, 0), (3, 17), (4, 2351)):
        data = bytes(rng.randrange(256) for _ in range(sectors * 2352 + extra))
        logical = b"".join(data[k * 2352 + 16:k * 2352 + 16 + 2048] for k in range(sectors))
        spec = [("m", dict())]
        for pos in (0, 1, 2047, 2048, 2049, 4095, 4096, 6143, 6144, 9000):
            for size in (0, 1, 2, 2047, 2048, 2049, 4096, 4097, 6144, 7000, None):
                compare("mdf", spec, data,
                        [("seek", (pos, SEEK_SET)), ("read", (size,)), ("read", (size,)), ("tell", ())],
                        logical)
        # truncated image: last raw sector incomplete but counted by nobody
        compare("mdf-all", spec, data, [("read", (None,))], logical)

    # 5. nestings up to depth 4 with long random histories
    for _ in range(250):
        n = rng.randrange(8, 80)
        data = bytes(rng.randrange(256) for _ in range(n))
        sl = rng.choice([1, 2, 3, 4, 5, 8])
        cnt = n // sl
        chain = list(range(cnt))
        rng.shuffle(chain)
        flen = cnt * sl
        sl2 = rng.choice([1, 2, 3])
        nest = [
            [("f", dict(sector_size=sl, sector_list=chain))],
            [("o", dict(size=n - 2, offset=1)), ("s", dict(size=n - 2, sector_length=sl))],
            [("f", dict(sector_size=sl, sector_list=chain)),
             ("o", dict(size=max(flen - 1, 0), offset=1))],
            [("f", dict(sector_size=sl, sector_list=chain)),
             ("s", dict(size=flen, sector_length=sl2))],
            [("s", dict(size=n, sector_length=sl)),
             ("f", dict(sector_size=sl2, sector_list=list(range(n // sl2))[::-1]))],
            [("f", dict(sector_size=sl, sector_list=chain)),
             ("r", dict(size=(flen // 2) * 2, sample_width=2)),
             ("o", dict(size=max((flen // 2) * 2 - 2, 0), offset=2))],
            [("o", dict(size=n, offset=0)),
             ("f", dict(sector_size=sl, sector_list=chain)),
             ("s", dict(size=flen, sector_length=sl2)),
             ("r", dict(size=flen, sample_width=1))],
            [("s", dict(size=n + 5, sector_length=sl)),
             ("o", dict(size=n + 3, offset=1))],
        ]
        for spec in nest:
            top = build(LIVE, spec, data).end_of_file
            history = []
            for _ in range(40):
                k = rng.random()
                if k < 0.35:
                    history.append(("seek", (rng.randrange(-3, top + 4),
                                             rng.choice([SEEK_SET, SEEK_CUR, SEEK_END]))))
                elif k < 0.9:
                    history.append(("read", (rng.choice(
                        [0, 1, 2, sl, sl + 1, 2 * sl, 3 * sl + 1, top, top + 2, None]),)))
                else:
                    history.append(("tell", ()))
            compare("nest", spec, data, history)

    print(f"{checks} calls compared, {failures} mismatching histories")
    return 1 if failures else 0


if __name__ == "__main__":
    sys.exit(main())
