"""Equivalence demo for r5: CompactDiskAudioImageAdapter.from_bin_cue.

Compares the live implementation against an inline copy of the ORIGINAL
implementation on many generated cue sheets / bin lengths, including a
recording stream so that the order of seek/tell/read calls on the shared
bin stream is compared too.  Exit 0 on full agreement, 1 otherwise.
"""
from io import BytesIO
from io import SEEK_END
from io import SEEK_SET
import random
import sys

from smpl_extract.cdda import image as live
from smpl_extract.cdda.image import AudioTrack
from smpl_extract.cdda.image import BYTES_PER_FRAME
from smpl_extract.cdda.image import CompactDiskAudioImage
from smpl_extract.cdda.image import SAMPLES_PER_FRAME
from smpl_extract.cuesheet import CueSheetFile
from smpl_extract.cuesheet import CueSheetIndex
from smpl_extract.cuesheet import CueSheetTrack
from smpl_extract.util.stream import StreamOffset


def original_from_bin_cue(bin_file_stream, cue_file):
    image = CompactDiskAudioImage()
    element_path = image.path

    bin_file_stream.seek(0, SEEK_END)
    end_of_file = bin_file_stream.tell()
    bin_file_stream.seek(0, SEEK_SET)

    audio_tracks = []
    cue_track_list = [x for x in cue_file.tracks if x.mode.lower() == "audio"]
    if len(cue_track_list):

        cue_track_iter = iter(cue_track_list)
        i = 0
        cur_cue_track = next(cue_track_iter)
        while True:
            try:
                next_cue_track = next(cue_track_iter)
            except StopIteration:
                break

            if len(cur_cue_track.indices) and len(next_cue_track.indices):
                title = cur_cue_track.title or f"Untitled Track {i+1}"

                cur_index = cur_cue_track.indices[0]
                cur_n_frames = cur_index.get_total_audio_frames()
                next_index = next_cue_track.indices[0]
                next_n_frames = next_index.get_total_audio_frames()
                total_n_frames = next_n_frames - cur_n_frames

                offset_bytes = BYTES_PER_FRAME*cur_n_frames
                size_bytes = BYTES_PER_FRAME*total_n_frames

                total_num_samples = SAMPLES_PER_FRAME*total_n_frames

                data_stream = StreamOffset(
                    bin_file_stream,
                    size_bytes,
                    offset_bytes
                )

                track_path = element_path + [title]

                audio_track = AudioTrack(
                    title=title,
                    num_audio_samples=total_num_samples,
                    _data_stream=data_stream,
                    _parent=image,
                    _path=track_path
                )
                audio_tracks.append(audio_track)

                i += 1
                cur_cue_track = next_cue_track

        if len(cur_cue_track.indices):
            title = cur_cue_track.title or f"Untitled Track {i+1}"

            cur_index = cur_cue_track.indices[0]
            cur_n_frames = cur_index.get_total_audio_frames()
            offset_bytes = BYTES_PER_FRAME*cur_n_frames
            size_bytes = end_of_file - offset_bytes

            total_n_frames = (size_bytes // BYTES_PER_FRAME)
            total_num_samples = SAMPLES_PER_FRAME*total_n_frames

            data_stream = StreamOffset(
                    bin_file_stream,
                    size_bytes,
                    offset_bytes
                )

            track_path = element_path + [title]

            audio_track = AudioTrack(
                title=title,
                num_audio_samples=total_num_samples,
                _data_stream=data_stream,
                _parent=image,
                _path=track_path
            )
            audio_tracks.append(audio_track)

    image.tracks = audio_tracks
    return image


class RecordingStream(BytesIO):
    def __init__(self, data):
        super().__init__(data)
        self.log = []

    def seek(self, *args):
        result = super().seek(*args)
        self.log.append(("seek", args, result))
        return result

    def tell(self):
        result = super().tell()
        self.log.append(("tell", result))
        return result

    def read(self, *args):
        result = super().read(*args)
        self.log.append(("read", args, len(result)))
        return result


def describe(func, data, cue_file):
    stream = RecordingStream(data)
    try:
        image = func(stream, cue_file)
    except Exception as e:  # compare exception behaviour as well
        return ("EXC", type(e).__name__, str(e), list(stream.log))
    construction_log = list(stream.log)
    tracks = []
    for track in image.tracks:
        ds = track._data_stream
        ds.seek(0, SEEK_SET)
        pcm = ds.read(None) if ds.end_of_file >= 0 else b""
        tracks.append((
            type(track).__name__,
            track.title,
            track.name,
            track.num_audio_samples,
            track.num_channels,
            track.sample_rate,
            track.bytes_per_sample,
            list(track._path),
            track._parent is image,
            type(ds).__name__,
            ds.substream is stream,
            ds.offset,
            ds.end_of_file,
            ds.position,
            pcm,
        ))
    return (
        type(image).__name__,
        len(image.tracks),
        tracks,
        construction_log,
        list(stream.log),
    )


def make_cases():
    rng = random.Random(0xC03)
    cases = []

    def idx(n, total):
        return CueSheetIndex(
            n, total // (75*60), (total // 75) % 60, total % 75
        )

    # hand written edge cases
    cases.append((b"", CueSheetFile("a.bin")))
    cases.append((b"\x01"*100, CueSheetFile("a.bin", [])))
    cases.append((b"\x01"*100, CueSheetFile(
        "a.bin", [CueSheetTrack(1, "AUDIO")]
    )))
    cases.append((bytes(range(256))*30, CueSheetFile(
        "a.bin", [CueSheetTrack(1, "AUDIO", None, [idx(1, 0)])]
    )))
    cases.append((bytes(range(256))*30, CueSheetFile(
        "a.bin", [CueSheetTrack(1, "audio", "", [idx(1, 1)])]
    )))
    cases.append((bytes(range(256))*30, CueSheetFile(
        "a.bin", [
            CueSheetTrack(1, "MODE1/2352", "data", [idx(1, 0)]),
            CueSheetTrack(2, "Audio", "two", [idx(0, 1), idx(1, 2)]),
            CueSheetTrack(3, "AUDIO", None, []),
            CueSheetTrack(4, "AUDIO", None, [idx(1, 3)]),
        ]
    )))
    # non-normalised MSF values and a start beyond the end of the file
    cases.append((b"\x07"*5000, CueSheetFile(
        "a.bin", [
            CueSheetTrack(1, "AUDIO", "x", [CueSheetIndex(1, 0, 0, 80)]),
            CueSheetTrack(2, "AUDIO", "y", [CueSheetIndex(1, 0, 61, 99)]),
            CueSheetTrack(3, "AUDIO", None, [CueSheetIndex(1, 1, 0, 0)]),
        ]
    )))
    # decreasing indices (negative sizes)
    cases.append((b"\x09"*(2352*6+3), CueSheetFile(
        "a.bin", [
            CueSheetTrack(1, "AUDIO", None, [idx(1, 4)]),
            CueSheetTrack(2, "AUDIO", None, [idx(1, 2)]),
            CueSheetTrack(3, "AUDIO", "t", [idx(1, 5)]),
        ]
    )))

    # generated cases
    for _ in range(600):
        n_tracks = rng.randint(0, 7)
        n_sectors = rng.randint(0, 12)
        tail = rng.choice([0, 0, 1, 2, 3, 4, 5, 2351, 1176])
        data = bytes(rng.getrandbits(8) for _ in range(n_sectors*2352 + tail))
        tracks = []
        position = rng.randint(0, 2)
        for t in range(n_tracks):
            mode = rng.choice(
                ["AUDIO", "AUDIO", "AUDIO", "audio", "Audio", "MODE1/2352"]
            )
            title = rng.choice([None, None, "", "Song %d" % t, "Same"])
            indices = []
            n_indices = rng.choice([0, 1, 1, 1, 2, 3])
            for k in range(n_indices):
                indices.append(idx(k, position))
                position += rng.choice([0, 1, 1, 2, 3])
            if rng.random() < 0.05:
                position -= rng.randint(0, 3)
                position = max(position, 0)
            tracks.append(CueSheetTrack(t+1, mode, title, indices))
        cases.append((data, CueSheetFile("x.bin", tracks)))
    return cases


def main():
    failures = 0
    cases = make_cases()
    for number, (data, cue_file) in enumerate(cases):
        expected = describe(original_from_bin_cue, data, cue_file)
        actual = describe(
            live.CompactDiskAudioImageAdapter.from_bin_cue, data, cue_file
        )
        if expected != actual:
            failures += 1
            print("MISMATCH in case", number, cue_file)
    print("cases:", len(cases), "failures:", failures)
    return 1 if failures else 0


if __name__ == "__main__":
    sys.exit(main())
