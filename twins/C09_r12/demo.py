"""Equivalence demo for r12: the three ID-area regex constants of
roland.s7xx.image.IdAreaAdapter (the Roland signature test).

The refactoring hoists the pattern texts and the flag into module-level
constants, passes the flag positionally as re.IGNORECASE instead of
flags=re.I, writes the long version pattern as adjacent string literals, and
spells `\\d\\d` as `\\d{2}` in the S7xx pattern.

Checks:
  * flags / groups / (for VERSION and COPYRIGHT) pattern text of the class
    attributes equal those of the ORIGINAL regexes compiled inline here;
  * on a large set of strings (hand-made, exhaustive small-alphabet, random,
    unicode digits / case-folding oddities) every regex gives the same
    match / span / groups() as its original;
  * IdAreaAdapterParser.parse and is_roland_s7xx_image agree with a reference
    built from the original regexes on generated 512-byte ID areas (result
    object, exception type, calls on the stream, final position).
"""
import io
import itertools
import random
import re
import struct
import sys

from construct.core import ConstructError

from smpl_extract.roland.s7xx.image import IdArea
from smpl_extract.roland.s7xx.image import IdAreaAdapter
from smpl_extract.roland.s7xx.image import IdAreaAdapterParser
from smpl_extract.roland.s7xx.image import IdAreaStruct
from smpl_extract.roland.s7xx.image import is_roland_s7xx_image


# ---- the ORIGINAL constants, verbatim --------------------------------------
ORIG_S7XX_REGEX = re.compile(r"\s*S7\d\d\s+MR25A", flags=re.I)
ORIG_VERSION_REGEX = re.compile(
    r"\s*([Ss][A-z]*-\d+)\s+([A-z\s\-]*?Disk)\s?([A-z\s]*?)\s+Ver\.?\s*(\d(\.\d+)?[\w-]*)\s*",
    flags=re.I
)
ORIG_COPYRIGHT_REGEX = re.compile(r"\s*Copyright\s+Roland", flags=re.I)

PAIRS = (
    ("S7XX", ORIG_S7XX_REGEX, IdAreaAdapter._S7XX_REGEX),
    ("VERSION", ORIG_VERSION_REGEX, IdAreaAdapter._VERSION_REGEX),
    ("COPYRIGHT", ORIG_COPYRIGHT_REGEX, IdAreaAdapter._COPYRIGHT_REGEX),
)


def describe(regex, text):
    out = []
    for method in (regex.match, regex.search, regex.fullmatch):
        m = method(text)
        out.append(None if m is None else (m.span(), m.groups(), m.group(0)))
    return out


def original_decode(container):
    """What the ORIGINAL IdAreaAdapter._decode computes from a parsed struct."""
    verifications = (
        (container.s7xx_str, ORIG_S7XX_REGEX),
        (container.version_str, ORIG_VERSION_REGEX),
        (container.copyright_str, ORIG_COPYRIGHT_REGEX)
    )
    match_results = []
    for test_str, regex in verifications:
        match_result = regex.match(test_str)
        if not match_result:
            raise ConstructError
        match_results.append(match_result)
    return IdArea(
        revision=container.revision,
        model_version=match_results[1].groups()[0],
        disk_type=match_results[1].groups()[1],
        disk_version=match_results[1].groups()[3],
        disk_name=container.disk_name,
        disk_capacity=container.disk_capacity,
        num_volumes=container.num_volumes,
        num_performances=container.num_performances,
        num_patches=container.num_patches,
        num_partials=container.num_partials,
        num_samples=container.num_samples
    )


def field(text, width):
    raw = text if isinstance(text, bytes) else text.encode("latin-1")
    return raw[:width].ljust(width, b"\x00")


def id_area(s7xx, version, copyright_, name="DISK NAME", revision=1, tail=226):
    out = struct.pack("<I", revision)
    out += field(s7xx, 10) + bytes(2)
    out += field("", 15) + bytes(1)
    out += field(version, 31) + bytes(1)
    out += field(copyright_, 31) + bytes(1)
    out += bytes(160)
    out += field(name, 16)
    out += struct.pack("<IHHHHH", 1234, 3, 4, 5, 6, 7)
    return out + bytes(tail)


class Recorder(io.BytesIO):
    def __init__(self, data):
        super().__init__(data)
        self.log = []

    def tell(self):
        r = super().tell()
        self.log.append(("tell", r))
        return r

    def seek(self, *a):
        r = super().seek(*a)
        self.log.append(("seek", a, r))
        return r

    def read(self, *a):
        r = super().read(*a)
        self.log.append(("read", a, r))
        return r


def reference_is_roland(data, start):
    """is_roland_s7xx_image as the ORIGINAL module computes it."""
    s = Recorder(data)
    io.BytesIO.seek(s, start)
    stream_head = s.tell()
    s.seek(0, 0)
    result = True
    try:
        original_decode(IdAreaStruct.parse_stream(s))
    except (ConstructError, UnicodeDecodeError):
        result = False
    s.seek(stream_head, 0)
    return result, s.log, io.BytesIO.tell(s)


def actual_is_roland(data, start):
    s = Recorder(data)
    io.BytesIO.seek(s, start)
    try:
        result = is_roland_s7xx_image(s)
    except BaseException as e:  # noqa
        result = ("exc", type(e).__name__)
    return result, s.log, io.BytesIO.tell(s)


def main():
    rng = random.Random(1212)
    checked = bad = 0

    # 1. compiled-object level
    for name, orig, new in PAIRS:
        checked += 1
        if (orig.flags, orig.groups, orig.groupindex) != (new.flags, new.groups, new.groupindex):
            bad += 1
            print("MISMATCH flags/groups", name, orig.flags, new.flags)
        if name != "S7XX" and orig.pattern != new.pattern:
            bad += 1
            print("MISMATCH pattern text", name)
    if IdAreaAdapter._S7XX_REGEX.pattern not in (r"\s*S7\d\d\s+MR25A", r"\s*S7\d{2}\s+MR25A"):
        bad += 1
        print("unexpected S7XX pattern", IdAreaAdapter._S7XX_REGEX.pattern)

    # 2. string level
    texts = [
        "", " ", "S770 MR25A", "S770  MR25A", " S770 MR25A", "\t\nS750 MR25A", "s770 mr25a",
        "S770MR25A", "S77 MR25A", "S7700 MR25A", "S7 70 MR25A", "S770 MR25", "S770 MR25AX",
        "S870 MR25A", "S7a0 MR25A", "S7١٢ MR25A", "S7１２ MR25A", "ſ770 MR25A",
        "S7²³ MR25A", "S770 MR25A", "S770\x00MR25A", "xS770 MR25A",
        "S-770 Sampler Disk Ver 2.0", "S-770 Hard Disk  Ver. 2.25b", "s-550 system disk ver1",
        "SP-700 Sound Disk CD Ver. 1.01-a  ", "S-770 Disk Ver 2", "S-770  Disk  Ver  2.", "-770 Disk Ver 2",
        "S-770 Sampler Disk Version 2.0", "S-770 Sampler Disc Ver 2.0", "S_x-1 a-b Disk zz Ver.9.9.9",
        "S-770 Sampler Disk Ver ٢.0", "ſ-770 Sampler Disk Ver 2.0", "S-770 Sampler Diſk Ver 2.0",
        "S-770 Sampler Disk\nVer\n2.0", "S[x]^-1 `_\\ Disk Ver 3",
        "Copyright Roland", "  copyright   roland corp", "CopyrightRoland", "Copyright\tRoland",
        "(c) Copyright Roland", "Copyright Rolan", "COPYRIGHT ROLAND", "Copyright Roland",
    ]
    alphabet = ["S", "s", "7", "0", "9", " ", "M", "R", "2", "5", "A", "a", "x", "\t", "٣"]
    for n in range(0, 4):
        for combo in itertools.product(alphabet, repeat=n):
            mid = "".join(combo)
            texts.append("S7" + mid + " MR25A")
            if n <= 2:
                texts.append(mid + "S770 MR25A")
    pool = "Ss7012389 \tMRmr25Aa-.VvEeRrDdIiKkCcOoPpYyGgHhTtLlNn_١ſK\x00\n"
    seeds = ["S770 MR25A", "S-770 Sampler Disk Ver 2.0", "Copyright Roland Corporation"]
    for _ in range(6000):
        if rng.random() < 0.5:
            t = list(rng.choice(seeds))
            for _ in range(rng.choice([1, 1, 2, 3])):
                k = rng.random()
                pos = rng.randrange(len(t) + 1)
                if k < 0.4 and t:
                    t[min(pos, len(t) - 1)] = rng.choice(pool)
                elif k < 0.7:
                    t.insert(pos, rng.choice(pool))
                elif t:
                    del t[min(pos, len(t) - 1)]
            texts.append("".join(t))
        else:
            texts.append("".join(rng.choice(pool) for _ in range(rng.randrange(0, 31))))

    hits = {name: 0 for name, _, _ in PAIRS}
    for text in texts:
        for name, orig, new in PAIRS:
            a = describe(orig, text)
            b = describe(new, text)
            checked += 1
            hits[name] += a[0] is not None
            if a != b:
                bad += 1
                print("MISMATCH", name, repr(text), a, b)
    assert all(v > 20 for v in hits.values()), hits

    # 3. parser / signature-test level
    s7xx_choices = ["S770 MR25A", "S750  MR25A", "s770 mr25a", "S77 MR25A", "S7700 MR25", "S7x0 MR25A",
                    " S760 MR25", "", "S770 MR25\xe9", b"S7\xb2\xb3 MR25A", "S770\tMR25A"]
    version_choices = ["S-770 Sampler Disk Ver 2.0", "S-770 Hard Disk Ver. 2.25", "s-550 system disk ver1",
                       "S-770 Sampler Disc Ver 2.0", "", "S-760 CD-ROM Disk Ver 1.00 beta",
                       "S-770 Sampler Disk Ver \xe9", "SP-700 Sound Disk X Ver.3-rc"]
    copyright_choices = ["Copyright Roland", "  COPYRIGHT  ROLAND CORP 1990", "Copyleft Roland", "",
                         "Copyright Rol\xe9nd", "Copyright Roland \xa9"]
    blobs = []
    for a in s7xx_choices:
        for b in version_choices:
            for c in copyright_choices:
                blobs.append(id_area(a, b, c))
    good = id_area(s7xx_choices[0], version_choices[0], copyright_choices[0])
    blobs += [good[:n] for n in (0, 3, 4, 14, 100, 285, 286, 287, 511)]
    blobs += [good + bytes(5000), bytes(600), bytes(rng.randrange(256) for _ in range(600))]

    verdicts = {True: 0, False: 0}
    for blob in blobs:
        # a) parse result / exception
        def attempt(fn):
            try:
                return ("ret", fn())
            except BaseException as e:  # noqa
                return ("exc", type(e).__name__)
        a = attempt(lambda: original_decode(IdAreaStruct.parse(blob)))
        b = attempt(lambda: IdAreaAdapterParser.parse(blob))
        checked += 1
        # ConstructError subclasses raised by the struct keep their own type in both
        if a != b:
            bad += 1
            print("MISMATCH parse", blob[:80], a, b)
        # b) signature test incl. stream interaction
        for start in (0, 7, len(blob)):
            ra = reference_is_roland(blob, start)
            rb = actual_is_roland(blob, start)
            checked += 1
            if ra != rb:
                bad += 1
                print("MISMATCH is_roland", blob[:80], start, ra[0], rb[0])
            if ra[0] in verdicts:
                verdicts[ra[0]] += 1
    assert verdicts[True] > 10 and verdicts[False] > 10, verdicts

    # precomputed on the unmodified tree
    parsed = IdAreaAdapterParser.parse(id_area("S770 MR25A", "S-770 Hard Disk  Ver. 2.25b", "Copyright Roland"))
    assert (parsed.model_version, parsed.disk_type, parsed.disk_version) == ("S-770", "Hard Disk", "2.25b"), parsed
    assert actual_is_roland(good, 5)[0] is True and actual_is_roland(good, 5)[2] == 5
    assert actual_is_roland(id_area("S77 MR25A", version_choices[0], "Copyright Roland"), 0)[0] is False

    print("checked", checked, "mismatches", bad, "regex hits", hits, "verdicts", verdicts)
    return 1 if bad else 0


if __name__ == "__main__":
    sys.exit(main())
