"""Equivalence demo for r13 (smpl_extract/akai/file_entry.py: the
FileEntryConstruct declaration - the 24 byte record of one AKAI file table
entry that the skip-on-error loop of FileEntriesAdapter._parse reads once per
slot; its last, computed field opens the entry's data stream through the
partition's segment allocation table and is where RequestedInvalidSector comes
from).

An inline copy of the ORIGINAL declaration is compared with the live one.

 A. records: single 24 byte records parsed through both constructs with a
    recording fake SAT (some start sectors raise RequestedInvalidSector, some
    raise other errors): for five base records EVERY value of EVERY byte,
    truncated records of every length, random records, a missing `sat`, a
    parent context that is not a container.  Compared: every field of the
    resulting container (the StreamWrapper by its substream / size / position),
    the order of container keys, the log of SAT calls (arguments included),
    exception type and text, stream position afterwards.
 B. tables: synthetic AKAI partitions (sample files, empty slots, the damage
    of property C14: every value of the type byte of one entry, every byte of
    one entry set to several values, random multi-byte damage confined to one
    entry, SAT damage, truncation) whose file tables are listed through
    FileEntriesAdapter(sat, <original or live record construct>).  Compared:
    error type/text, entry names and types, file names, decoded sample bytes
    and the trace of every seek/read/tell on the shared image stream.

Exit 0 when everything agrees, 1 otherwise.
"""
import io
import random
import struct
import sys

from construct.core import Computed
from construct.core import ConstructError
from construct.core import Int8ul
from construct.core import Int16ul
from construct.core import Int24ul
from construct.core import Padding
from construct.core import Struct
from construct.expr import this
from construct.lib.containers import Container

import smpl_extract.akai.file_entry as fe
from smpl_extract.akai.akai_string import AkaiPaddedString
from smpl_extract.akai.akai_string import char_ascii_to_akai
from smpl_extract.akai.data_types import AKAI_PARTITION_MAGIC
from smpl_extract.akai.data_types import AKAI_SAT_ENTRY_CNT
from smpl_extract.akai.data_types import AKAI_VOLUME_ENTRY_CNT
from smpl_extract.akai.data_types import FileType
from smpl_extract.akai.partition import PartitionHeaderConstruct
from smpl_extract.akai.sat import SegmentAllocationTableAdapter
from smpl_extract.akai.volume import VolumeEntryConstruct
from smpl_extract.util.constructs import EnumWrapper
from smpl_extract.util.fat import RequestedInvalidSector
from smpl_extract.util.stream import StreamWrapper


# ---------------------------------------------------------------- original
OrigFileEntryConstruct = Struct(
    "name"      / AkaiPaddedString(12),
    Padding(4),
    "file_type" / EnumWrapper(Int8ul, FileType),
    "size"      / Int24ul,
    "start"     / Int16ul,
    Padding(2),
    "file_stream" / Computed(lambda this:
        StreamWrapper(this._.sat.get_segment(this.start), this.size)
    )
)


failures = []
checked = 0


def check(cond, msg):
    global checked
    checked += 1
    if not cond:
        failures.append(msg)


# ---------------------------------------------------------------- part A
class FakeSat:

    def __init__(self, log):
        self.log = log

    def get_segment(self, *args, **kwargs):
        self.log.append(("get_segment", args, sorted(kwargs.items())))
        sector = args[0]
        if sector % 7 == 3:
            raise RequestedInvalidSector("sector %d" % sector)
        if sector == 0x0505:
            raise IndexError("five-o-five")
        if sector == 0x0606:
            raise ConstructError("six-o-six")
        return ("segment", sector)


def akai_name(text):
    return bytes(char_ascii_to_akai(text.ljust(12)[:12]))


def record(name, ftype, size, start, pad1=b"\0" * 4, pad2=b"\0\0"):
    return (
        akai_name(name) + pad1 + bytes([ftype]) + size.to_bytes(3, "little")
        + struct.pack("<H", start) + pad2
    )


def describe_container(c):
    out = []
    for key in c.keys():
        value = c[key]
        if key == "_io":
            continue
        elif isinstance(value, StreamWrapper):
            value = (
                "StreamWrapper", type(value) is StreamWrapper, value.substream,
                value.end_of_file, value.position, value.buffer_length,
                value.true_size
            )
        elif isinstance(value, Container):
            value = ("container", sorted(k for k in value.keys()))
        else:
            value = (type(value).__name__, repr(value))
        out.append((key, value))
    return out


def run_record(construct, data, ctx_kind="sat", start_pos=0):
    log = []
    sat = FakeSat(log)
    stream = io.BytesIO(bytes(data))
    stream.seek(start_pos)
    kw = {}
    if ctx_kind == "sat":
        kw = dict(_=Container(marker=1), sat=sat)
    elif ctx_kind == "no_sat":
        kw = dict(_=Container(marker=1))
    elif ctx_kind == "sat_none":
        kw = dict(sat=None)
    elif ctx_kind == "sat_is_list":
        kw = dict(sat=[1, 2])
    elif ctx_kind == "extra":
        kw = dict(sat=sat, size=99, start=77, this=5, entry_context=6)
    try:
        c = construct.parse_stream(stream, **kw)
    except BaseException as e:  # noqa: B902
        return ("raise", type(e), str(e), type(e.__cause__), log, stream.tell())
    return ("ok", type(c), describe_container(c), log, stream.tell())


def run_nested(construct, data):
    """the record as a member of an outer struct / array, as `_` chains differ"""
    log = []
    sat = FakeSat(log)
    outer = Struct("sat" / Computed(lambda ctx: sat), "entries" / construct[2])
    try:
        c = outer.parse(bytes(data))
    except BaseException as e:  # noqa: B902
        return ("raise", type(e), str(e), log)
    return ("ok", [describe_container(x) for x in c.entries], log)


def compare_record(label, data, **kw):
    a = run_record(OrigFileEntryConstruct, data, **kw)
    b = run_record(fe.FileEntryConstruct, data, **kw)
    check(a == b, f"record {label} {kw}: {str(a)[:400]} != {str(b)[:400]}")
    return b


def part_a():
    rng = random.Random(0xC14)
    bases = [
        record("SAMPLE A", 0x73, 0x001234, 5),
        record("PROG 1", 0xF0, 0, 0),
        record("TEN", 0xF3, 0xFFFFFF, 10),              # 10 % 7 == 3 -> invalid
        record("", 0x64, 1, 0x0505, b"\1\2\3\4", b"\xff\xfe"),
        record("Z9 #+-.", 0x78, 0x800000, 0xFFFF),
    ]
    for bi, base in enumerate(bases):
        compare_record(f"base{bi}", base)
        for kind in ("no_sat", "sat_none", "sat_is_list", "extra"):
            compare_record(f"base{bi}", base, ctx_kind=kind)
        for off in range(len(base)):
            for value in range(256):
                d = bytearray(base)
                d[off] = value
                compare_record(f"base{bi}[{off}]={value:#x}", d)
        for n in range(len(base)):
            compare_record(f"base{bi} truncated to {n}", base[:n])
        compare_record(f"base{bi} offset", b"\xaa" * 7 + base + b"\xbb" * 9,
                       start_pos=7)
    compare_record("0x0606", record("CERR", 0x73, 4, 0x0606))
    for _ in range(3000):
        d = bytes(rng.getrandbits(8) for _ in range(24))
        compare_record("random", d)
    for _ in range(1500):
        # valid name and type, random rest
        d = bytearray(record("RND", rng.choice(list(FileType)), 0, 0))
        for off in range(12, 24):
            if off != 16:
                d[off] = rng.getrandbits(8)
        compare_record("random tail", d)
    for a_rec in bases:
        for b_rec in bases:
            x = run_nested(OrigFileEntryConstruct, a_rec + b_rec)
            y = run_nested(fe.FileEntryConstruct, a_rec + b_rec)
            check(x == y, f"nested: {str(x)[:300]} != {str(y)[:300]}")
    check(OrigFileEntryConstruct.sizeof() == fe.FileEntryConstruct.sizeof() == 24,
          "sizeof")
    check([sc.name for sc in OrigFileEntryConstruct.subcons]
          == [sc.name for sc in fe.FileEntryConstruct.subcons], "field names")
    check([type(sc).__name__ for sc in OrigFileEntryConstruct.subcons]
          == [type(sc).__name__ for sc in fe.FileEntryConstruct.subcons],
          "field construct types")

    # expected values independent of the copy
    res = run_record(fe.FileEntryConstruct, bases[0])
    check(res[0] == "ok", f"good record parses: {str(res)[:300]}")
    if res[0] == "ok":
        d = dict(res[2])
        check(list(d) == ["name", "file_type", "size", "start", "file_stream"],
              f"keys {list(d)}")
        check(d["name"] == ("str", repr("SAMPLE A")), f"name {d['name']}")
        check(d["size"] == ("int", "4660") and d["start"] == ("int", "5"), "size/start")
        check(d["file_stream"][2] == ("segment", 5) and d["file_stream"][3] == 0x1234,
              f"stream {d['file_stream']}")
        check(res[3] == [("get_segment", (5,), [])], f"sat calls {res[3]}")
        check(res[4] == 24, "position")
    res = run_record(fe.FileEntryConstruct, bases[2])
    check(res[0] == "raise" and res[1] is RequestedInvalidSector and res[5] == 24,
          f"invalid sector passes through: {str(res)[:200]}")
    d = bytearray(bases[0])
    d[16] = 0x01
    res = run_record(fe.FileEntryConstruct, d)
    check(res[0] == "raise" and issubclass(res[1], ConstructError) and res[4] == []
          and res[5] == 17, f"unknown type byte: {str(res)[:200]}")


# ---------------------------------------------------------------- part B
SECT = 0x2000
PREAMBLE_HDR_LEN = 2 + 2 + len(AKAI_PARTITION_MAGIC) + 4

PreambleParser = Struct(
    "header" / PartitionHeaderConstruct,
    "volume_entries" / VolumeEntryConstruct[AKAI_VOLUME_ENTRY_CNT],
    "sat" / SegmentAllocationTableAdapter(
        this.header.partition_stream,
        Int16ul[AKAI_SAT_ENTRY_CNT]  # type: ignore
    ),
)


def make_partition(size, volumes):
    """volumes: list of (name, type, [(fname, ftype, data)])."""
    buf = bytearray(size * SECT)
    hdr = (
        struct.pack("<H", size)
        + b"\x00\x00" + AKAI_PARTITION_MAGIC + b"\x55\xba\x2f\x00"
    )
    buf[:len(hdr)] = hdr
    sat = [0] * AKAI_SAT_ENTRY_CNT
    sat[0] = sat[1] = sat[2] = 0x4000
    next_sector = 3
    vol_entries = b""
    for vname, vtype, files in volumes:
        vsect = next_sector
        next_sector += 1
        sat[vsect] = 0xC000
        vol_entries += akai_name(vname) + struct.pack("<HH", vtype, vsect)
        table = b""
        for fname, ftype, data in files:
            nsect = max(1, -(-len(data) // SECT))
            start = next_sector
            for k in range(nsect):
                sat[start + k] = start + k + 1 if k < nsect - 1 else 0xC000
            next_sector += nsect
            buf[start * SECT:start * SECT + len(data)] = data
            table += record(fname, ftype, len(data), start)
        table += b"\x00" * 8 + struct.pack("<H", 0xD747) + b"\x00" * 14
        buf[vsect * SECT:vsect * SECT + len(table)] = table
    assert next_sector <= max(size, 3)
    off = len(hdr)
    buf[off:off + len(vol_entries)] = vol_entries
    off = len(hdr) + 16 * AKAI_VOLUME_ENTRY_CNT
    buf[off:off + 2 * AKAI_SAT_ENTRY_CNT] = struct.pack(
        f"<{AKAI_SAT_ENTRY_CNT}H", *sat
    )
    return bytes(buf)


class TracingFile(io.BytesIO):

    def __init__(self, data):
        super().__init__(data)
        self.trace = []

    def tell(self):
        pos = super().tell()
        self.trace.append(("tell", pos))
        return pos

    def seek(self, *args):
        pos = super().seek(*args)
        self.trace.append(("seek", args, pos))
        return pos

    def read(self, *args):
        data = super().read(*args)
        self.trace.append(("read", args, len(data)))
        return data


class VolParent:
    path = ["IMG", "A:", "VOL"]


def describe_entries(entries):
    out = []
    for entry in entries:
        item = [type(entry).__name__, entry.name, str(entry.file_type)]
        try:
            f = entry.file
        except BaseException as e:  # noqa: B902
            item.append(("file-raise", type(e), str(e)))
            out.append(item)
            continue
        item += [type(f).__name__, getattr(f, "name", None),
                 list(getattr(f, "path", []))]
        stream = getattr(f, "_data_stream", None)
        if stream is not None:
            try:
                stream.seek(0)
                item.append(stream.read(4096))
            except BaseException as e:  # noqa: B902
                item.append(("data-raise", type(e), str(e)))
        out.append(item)
    return out


def load_image(data):
    """header, volume table and SAT are read once per image (the SAT decoder
    is slow and is not under test); both record constructs then list the file
    tables through the same SAT object on the same traced stream"""
    f = TracingFile(data)
    try:
        pre = PreambleParser.parse_stream(f)
    except BaseException as e:  # noqa: B902
        return ("preamble-raise", type(e), str(e))
    return (f, pre)


def run_image(record_construct, loaded, volume_starts):
    if loaded[0] == "preamble-raise":
        return loaded
    f, pre = loaded
    f.seek(0)
    f.trace.clear()
    out = []
    parent = VolParent()
    for start in volume_starts:
        f.trace.append(("--- volume", start))
        try:
            table_stream = pre.sat.get_segment(start)
            adapter = fe.FileEntriesAdapter(pre.sat, record_construct)
            entries = adapter.parse_stream(
                table_stream, _elem_parent=parent, _elem_routines={}
            )
        except BaseException as e:  # noqa: B902
            out.append(("table-raise", type(e), str(e)))
            continue
        out.append(("ok", type(entries), describe_entries(entries)))
    return ("ok", out, list(f.trace))


def sample(n, seed):
    rng = random.Random(seed)
    return b"\x03" + b"\x00" * 149 + bytes(rng.getrandbits(8) for _ in range(n))


def part_b():
    rng = random.Random(0x14C)
    s1, s2, s3 = sample(200, 1), sample(20000, 2), sample(64, 3)
    volumes = [
        ("VOL ONE", 1, [("SAMPLE A", 0x73, s1), ("SAMPLE B", 0xF3, s2),
                        ("THIRD", 0x73, s3), ("FOURTH", 0xF3, s1)]),
        ("SECOND", 3, [("X", 0x73, s3)]),
        ("EMPTY", 1, []),
    ]
    good = make_partition(16, volumes)
    starts = (3, 10, 12, 4000)
    # sectors 2 and 15 hold no table at all (341 unreadable slots each)
    more_starts = starts + (2, 15)
    images = [
        ("good", good),
        ("truncated-body", good[:6 * SECT]),
        ("truncated-table", good[:3 * SECT + 30]),
    ]
    ft = 3 * SECT
    for value in range(256):
        d = bytearray(good)
        d[ft + 1 * 24 + 16] = value
        images.append((f"file[1].type={value:#x}", bytes(d)))
    for entry in (0, 1, 2, 3, 4):
        for field_off in range(24):
            for value in (0x00, 0x29, 0xD7, 0xFF):
                d = bytearray(good)
                d[ft + entry * 24 + field_off] = value
                images.append((f"file[{entry}]+{field_off}={value:#x}", bytes(d)))
    for value in range(0, 256, 5):
        d = bytearray(good)
        d[ft + 2 * 24 + 20] = value          # start sector, low byte
        images.append((f"file[2].start={value:#x}", bytes(d)))
        d = bytearray(good)
        d[ft + 2 * 24 + 21] = value          # start sector, high byte
        images.append((f"file[2].start_hi={value:#x}", bytes(d)))
    for _ in range(120):
        d = bytearray(good)
        base = ft + rng.randrange(0, 5) * 24
        for _ in range(rng.randrange(2, 8)):
            d[base + rng.randrange(24)] = rng.getrandbits(8)
        images.append(("random-entry-damage", bytes(d)))
    sat_off = PREAMBLE_HDR_LEN + 16 * AKAI_VOLUME_ENTRY_CNT
    for _ in range(40):
        d = bytearray(good)
        for _ in range(rng.randrange(1, 4)):
            idx = rng.randrange(0, 18)
            d[sat_off + 2 * idx:sat_off + 2 * idx + 2] = struct.pack(
                "<H", rng.choice([0, 3, 4, 5, 11, 12, 0x4000, 0x8000, 0xC000,
                                  0xFFFF, rng.randrange(0, 0x10000)])
            )
        images.append(("sat-damage", bytes(d)))

    for label, data in images:
        loaded = load_image(data)
        which = more_starts if label in ("good", "truncated-body", "sat-damage") \
            else starts
        a = run_image(OrigFileEntryConstruct, loaded, which)
        b = run_image(fe.FileEntryConstruct, loaded, which)
        check(a == b, f"image mismatch {label}: {str(a)[:500]} != {str(b)[:500]}")

    # expected values, independent of the inline copy
    res = run_image(fe.FileEntryConstruct, load_image(good), (3, 10, 12))
    check(res[0] == "ok" and all(v[0] == "ok" for v in res[1]),
          f"good image lists: {str(res)[:300]}")
    if res[0] == "ok" and res[1][0][0] == "ok":
        names = [[e[1] for e in v[2]] for v in res[1]]
        check(names == [["SAMPLE A", "SAMPLE B", "THIRD", "FOURTH"], ["X"], []],
              f"entry names {names}")
        first = res[1][0][2][0]
        check(first[4] == "SAMPLE A" and first[5] == VolParent.path + ["SAMPLE A"],
              f"file name/path {first[:6]}")
        check(first[-1] == b"", "sample A bytes")
    d = bytearray(good)
    d[ft + 24 + 16] = 0x01          # unknown type byte in entry 1
    res = run_image(fe.FileEntryConstruct, load_image(bytes(d)), (3,))
    check(res[0] == "ok" and [e[1] for e in res[1][0][2]]
          == ["SAMPLE A", "THIRD", "FOURTH"],
          "damaged type byte drops only that entry")
    d = bytearray(good)
    d[ft + 24 + 20:ft + 24 + 22] = struct.pack("<H", 4000)   # start beyond the SAT use
    res = run_image(fe.FileEntryConstruct, load_image(bytes(d)), (3,))
    check(res[0] == "ok" and res[1][0][0] == "ok"
          and [e[1] for e in res[1][0][2]][0] == "SAMPLE A"
          and [e[1] for e in res[1][0][2]][-2:] == ["THIRD", "FOURTH"],
          f"damaged start sector keeps the neighbours: {str(res[1])[:300]}")


def main():
    part_a()
    part_b()
    print(f"{checked} checks, {len(failures)} failures")
    for msg in failures[:15]:
        print("FAIL:", msg)
    return 1 if failures else 0


if __name__ == "__main__":
    sys.exit(main())
