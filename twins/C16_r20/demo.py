"""Equivalence demo for r20: is_mdf_image (smpl_extract/alcohol/mdf.py) and
is_mdx_image (smpl_extract/alcohol/mdx.py) - the two format probes that
actions.determine_image_type runs first on the stream it has just opened with
open(file, "rb"); they must answer from the bytes alone and hand the shared
stream back at the position they found it.

Part 1: the live probes and inline copies of the ORIGINAL are run on twin
logging streams over the same bytes (valid MDF / MDX headers, every truncation
of them, single-byte corruptions, random data, empty streams) from random
start positions.  Compared: the answer, the exception that escapes (type and
args; streams that fail with OSError / ValueError / a ConstructError subclass
on read, seek or tell are included), the full sequence of tell/seek/read
calls with their arguments, and the final stream position.

Part 2: real files in a fresh temporary directory go through
actions.determine_image_type with the original probes monkey-patched in versus
the live ones; the kind of result / exception, the wrapper stream type, the
file mode and the file bytes afterwards must agree.
"""
import hashlib
import io
import os
import random
import shutil
import sys
import tempfile

from construct.core import ConstructError
from construct.core import StreamError
from io import SEEK_SET

from smpl_extract import actions as actions_module
from smpl_extract.alcohol import mdf as mdf_module
from smpl_extract.alcohol import mdx as mdx_module
from smpl_extract.alcohol.mdf import MDF_SECTOR_HEADER_MAGIC
from smpl_extract.alcohol.mdf import MdfSectorHeaderConstruct
from smpl_extract.alcohol.mdx import MDX_SECTOR_HEADER_MAGIC
from smpl_extract.alcohol.mdx import MdxHeaderConstruct

live_is_mdf_image = mdf_module.is_mdf_image
live_is_mdx_image = mdx_module.is_mdx_image


# --------------------------------------------------------------------------
# inline copies of the ORIGINAL implementation
# --------------------------------------------------------------------------
def orig_is_mdf_image(stream):
    stream_head = stream.tell()
    stream.seek(0, SEEK_SET)

    result = True
    try:
        MdfSectorHeaderConstruct.parse_stream(stream)  # type: ignore
    except ConstructError:
        result = False 

    stream.seek(stream_head, SEEK_SET)

    return result


def orig_is_mdx_image(stream):
    stream_head = stream.tell()
    stream.seek(0, SEEK_SET)

    result = True
    try:
        MdxHeaderConstruct.parse_stream(stream)  # type: ignore
    except ConstructError as e:
        result = False 

    stream.seek(stream_head, SEEK_SET)

    return result


class LoggingStream(io.BytesIO):
    """BytesIO that records every call and can be told to fail at the n-th."""

    def __init__(self, data, fail_at=None, fail_with=None):
        super().__init__(data)
        self.calls = []
        self.fail_at = fail_at
        self.fail_with = fail_with

    def _note(self, entry):
        self.calls.append(entry)
        if self.fail_at is not None and len(self.calls) == self.fail_at:
            raise self.fail_with

    def tell(self):
        self._note(("tell",))
        return super().tell()

    def seek(self, offset, whence=SEEK_SET):
        self._note(("seek", offset, whence))
        return super().seek(offset, whence)

    def read(self, size=-1):
        self._note(("read", size))
        return super().read(size)


VALID_MDF = MDF_SECTOR_HEADER_MAGIC + b"\x00\x02\x00" + b"\x01" + bytes(range(64))
VALID_MDX = (
    MDX_SECTOR_HEADER_MAGIC + b"\x02\x01" + b"\xA9" + b" " * 25 + b"\xFF" * 4
    + (4096).to_bytes(8, "little") + b"\x00" * 8 + bytes(range(40))
)
FAILURES = [
    OSError("disk gone"),
    ValueError("I/O operation on closed file."),
    StreamError("stream failed"),
    ConstructError("generic"),
    KeyError("k"),
]


def make_inputs(rng):
    inputs = [b"", b"\x00", VALID_MDF, VALID_MDX, VALID_MDF + VALID_MDX, VALID_MDX + VALID_MDF]
    for base in (VALID_MDF, VALID_MDX):
        for cut in range(0, min(len(base), 70)):
            inputs.append(base[:cut])
        for position in range(0, 64):
            corrupted = bytearray(base)
            corrupted[position] ^= rng.choice([0x01, 0x80, 0xFF])
            inputs.append(bytes(corrupted))
    for _ in range(300):
        inputs.append(bytes(rng.randrange(256) for _ in range(rng.randrange(0, 90))))
    return inputs


def probe(func, data, start, fail_at, fail_with):
    stream = LoggingStream(data)
    io.BytesIO.seek(stream, start)
    stream.fail_at = fail_at
    stream.fail_with = fail_with
    try:
        outcome = ("ok", func(stream))
    except BaseException as exc:  # noqa
        outcome = ("exc", type(exc).__name__, repr(exc.args))
    return outcome, stream.calls, io.BytesIO.tell(stream)


def part1():
    rng = random.Random(2020)
    failures = 0
    cases = 0
    answers = {"mdf": [0, 0], "mdx": [0, 0]}
    pairs = (
        ("mdf", orig_is_mdf_image, live_is_mdf_image),
        ("mdx", orig_is_mdx_image, live_is_mdx_image),
    )
    for data in make_inputs(rng):
        starts = {0, len(data), len(data) + 7, rng.randrange(0, len(data) + 1)}
        for start in sorted(starts):
            plans = [(None, None)]
            for _ in range(3):
                plans.append((rng.randrange(1, 9), rng.choice(FAILURES)))
            for fail_at, fail_with in plans:
                for label, orig, live in pairs:
                    expected = probe(orig, data, start, fail_at, fail_with)
                    actual = probe(live, data, start, fail_at, fail_with)
                    cases += 1
                    if expected[0][0] == "ok":
                        answers[label][1 if expected[0][1] else 0] += 1
                    if expected != actual:
                        failures += 1
                        if failures < 5:
                            print("MISMATCH part1", label, data[:20], start, fail_at, fail_with)
                            print(" expected", expected)
                            print(" actual  ", actual)
    print("part1 cases:", cases, "answers (False/True):", answers, "failures:", failures)
    if not (answers["mdf"][1] and answers["mdx"][1] and answers["mdf"][0] and answers["mdx"][0]):
        print("part1 did not see both answers")
        failures += 1
    return failures


def sha(path):
    with open(path, "rb") as handle:
        return hashlib.sha256(handle.read()).hexdigest()


def describe(path):
    before = sha(path)
    try:
        result = actions_module.determine_image_type(path)
        outcome = ["ok", type(result).__name__]
        stream = getattr(result, "file", None)
        outcome.append(type(stream).__name__)
        outcome.append(getattr(result, "file_size", None))
        # walk down to the underlying OS file and note its mode
        raw = stream
        for _ in range(4):
            if hasattr(raw, "mode") or raw is None:
                break
            raw = next(
                (v for v in vars(raw).values() if hasattr(v, "read") and v is not raw),
                None
            )
        outcome.append(getattr(raw, "mode", None))
    except BaseException as exc:  # noqa
        outcome = ["exc", type(exc).__name__, repr(exc.args)[:200]]
    outcome.append(before == sha(path))
    return outcome


def part2():
    rng = random.Random(202020)
    failures = 0
    workdir = tempfile.mkdtemp(prefix="r20_demo_")
    try:
        payloads = {
            "empty.img": b"",
            "mdf.mdf": (VALID_MDF[:16] + b"\x00" * 2048 + b"\x11" * 288) * 3,
            "mdx.mdx": VALID_MDX[:64] + b"\x00" * 4032,
            "short_mdf.mdf": VALID_MDF[:10],
            "short_mdx.mdx": VALID_MDX[:30],
            "zeros.img": b"\x00" * 9000,
            "text.cue": b"FILE \"nothing.bin\" BINARY\n  TRACK 01 AUDIO\n    INDEX 01 00:00:00\n",
        }
        for index in range(12):
            payloads["random%d.img" % index] = bytes(rng.randrange(256) for _ in range(rng.randrange(1, 6000)))
        for name, payload in sorted(payloads.items()):
            path = os.path.join(workdir, name)
            with open(path, "wb") as handle:
                handle.write(payload)
            actions_module.is_mdf_image = orig_is_mdf_image
            actions_module.is_mdx_image = orig_is_mdx_image
            try:
                expected = describe(path)
            finally:
                actions_module.is_mdf_image = live_is_mdf_image
                actions_module.is_mdx_image = live_is_mdx_image
            actual = describe(path)
            if expected != actual or expected[-1] is not True:
                failures += 1
                print("MISMATCH part2", name, expected, actual)
    finally:
        shutil.rmtree(workdir, ignore_errors=True)
    print("part2 failures:", failures)
    return failures


def main():
    failures = part1() + part2()
    return 1 if failures else 0


if __name__ == "__main__":
    sys.exit(main())
