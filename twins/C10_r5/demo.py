"""Equivalence demo for r5 (Traversable.parse_path + _TOKENIZE_PATH_REGEX).

Compares smpl_extract.structural.Traversable.parse_path (as currently in the
tree) against an inline copy of the ORIGINAL implementation, on synthetic
trees, for a large set of path strings.  For every path we compare
  - the node returned (by uid) or the exception (type, text, type of
    __context__),
  - the exact sequence of observable events on the tree (children being
    realised, safe_name reads, _sanitize_string calls).
Also compares the tokenising regex against the original spelling.
Exit 0 when all agree, 1 otherwise.
"""
from dataclasses import dataclass
import itertools
import random
import re
import sys
from typing import List, cast

from smpl_extract.akai.image import AkaiImageParser
from smpl_extract.elements import LeafElement
from smpl_extract.structural import ErrorInvalidPath
from smpl_extract.structural import ErrorNoChildWithName
from smpl_extract.structural import ErrorNotTraversable
from smpl_extract.structural import Image
from smpl_extract.structural import Traversable


# --------------------------------------------------------------------------
# ORIGINAL implementation (verbatim copy, only made a free function)
# --------------------------------------------------------------------------
ORIG_TOKENIZE_PATH_REGEX = re.compile(r"(\\{1,2}|\/)")


def orig_parse_path(self, path):

    tokens_raw = ORIG_TOKENIZE_PATH_REGEX.split(path.strip())
    tokens_raw_iter = iter(tokens_raw)

    tokens: List[str] = []
    tokens.append(next(tokens_raw_iter))
    while True:
        try:
            next(tokens_raw_iter)
            next_token = next(tokens_raw_iter)
        except StopIteration:
            break
        tokens.append(next_token)

    if len(tokens) > 0 and len(tokens[-1]) < 1:
        tokens = tokens[:-1]

    current_node = self
    for i, token in enumerate(tokens):
        token_sanitized = self._sanitize_string(token)

        try:
            if isinstance(current_node, Traversable):
                current_node = cast(Traversable, current_node)
                children = current_node.children

                child = next((
                    x for x in children
                    if self._sanitize_string(x.safe_name) == token_sanitized
                ))
                if not child:
                    raise ErrorNoChildWithName()
                current_node = child

            else:
                raise ErrorNotTraversable

        except (ErrorNoChildWithName, ErrorNotTraversable, StopIteration) as e:
            path_so_far = "/".join(tokens[:i]) + "/" if current_node != self else "image"
            msg = f"The entity \"{token}\" was not found in \"{path_so_far}\"."
            raise ErrorInvalidPath(msg)

    if isinstance(current_node, Traversable):
        children = current_node.children

    return current_node


# --------------------------------------------------------------------------
# synthetic trees with an event log
# --------------------------------------------------------------------------
LOG: List[tuple] = []


@dataclass
class Leaf(LeafElement):
    uid: str = ""
    shown: str = ""
    type_name: str = "Sample"
    value: int = 0

    @property
    def name(self):
        return self.shown

    @property
    def safe_name(self):
        LOG.append(("safe_name", self.uid))
        return self.shown


@dataclass
class FalsyLeaf(Leaf):
    def __bool__(self):
        LOG.append(("bool", self.uid))
        return False


class Dir(Traversable):
    def __init__(self, uid, shown, spec, mode="ok"):
        self.uid = uid
        self.shown = shown
        self.name = shown
        self.mode = mode
        Traversable.__init__(
            self, lambda ctx: self._realize(spec), type_name="Volume"
        )

    def _realize(self, spec):
        LOG.append(("realize", self.uid))
        if self.mode == "stop":
            raise StopIteration("from children")
        if self.mode == "value":
            raise ValueError("from children")
        return make_children(self.uid, spec)

    @property
    def safe_name(self):
        LOG.append(("safe_name", self.uid))
        return self.shown


def make_children(prefix, spec):
    out = []
    for n, entry in enumerate(spec):
        uid = f"{prefix}.{n}"
        kind = entry[0]
        if kind == "leaf":
            out.append(Leaf(uid=uid, shown=entry[1]))
        elif kind == "falsy":
            out.append(FalsyLeaf(uid=uid, shown=entry[1]))
        elif kind == "dir":
            out.append(Dir(uid, entry[1], entry[2]))
        elif kind == "dir_stop":
            out.append(Dir(uid, entry[1], (), mode="stop"))
        elif kind == "dir_value":
            out.append(Dir(uid, entry[1], (), mode="value"))
        else:
            raise AssertionError(kind)
    return out


SPEC = (
    ("dir", "A", (
        ("dir", "VOLUME 001", (
            ("leaf", "STRINGS -L"),
            ("leaf", "STRINGS -R"),
            ("leaf", "strings -l"),
            ("leaf", ""),
            ("leaf", "  PADDED  "),
            ("leaf", "A:B"),
            ("leaf", "TRAIL:"),
            ("falsy", "GHOST"),
            ("leaf", "DUP"),
            ("leaf", "DUP"),
            ("leaf", "DUP (2)"),
        )),
        ("dir", "EMPTY", ()),
        ("dir", "", (("leaf", "INSIDE BLANK"),)),
        ("dir_stop", "STOP", ()),
        ("dir_value", "BOOM", ()),
        ("leaf", "TOP LEAF"),
    )),
    ("dir", "B:", (
        ("leaf", "x"),
        ("leaf", "äöü"),
        ("leaf", "ß"),
    )),
    ("dir", "b", (("leaf", "lower"),)),
    ("leaf", "ROOT LEAF"),
    ("dir_stop", "RSTOP", ()),
)


class PlainImage(Image):
    name = "Fake Image"
    type_name = "Fake Image"
    uid = "root"

    def __init__(self, spec=SPEC, mode="ok"):
        self.mode = mode
        Traversable.__init__(self, lambda ctx: self._realize(spec))

    def _realize(self, spec):
        LOG.append(("realize", self.uid))
        if self.mode == "stop":
            raise StopIteration("root")
        return make_children(self.uid, spec)

    def _sanitize_string(self, input_str):
        LOG.append(("sanitize", input_str))
        return Traversable._sanitize_string(self, input_str)


class AkaiLikeImage(PlainImage):
    def _sanitize_string(self, input_str):
        LOG.append(("sanitize", input_str))
        return AkaiImageParser._sanitize_string(self, input_str)


def observe(func, image, path):
    del LOG[:]
    try:
        node = func(image, path)
        outcome = ("ok", getattr(node, "uid", repr(node)), type(node).__name__)
    except BaseException as exc:  # noqa: compare everything
        outcome = (
            "raise", type(exc).__name__, str(exc),
            type(exc.__context__).__name__,
            type(exc.__cause__).__name__,
            exc.__suppress_context__,
        )
    return outcome, list(LOG)


# --------------------------------------------------------------------------
# inputs
# --------------------------------------------------------------------------
def make_paths():
    names = [
        "A", "a", "B", "B:", "b", "b:", "VOLUME 001", "volume 001", "EMPTY",
        "STOP", "BOOM", "RSTOP", "TOP LEAF", "ROOT LEAF", "STRINGS -L",
        "strings -l", "STRINGS -R", "PADDED", "  PADDED  ", "A:B", "TRAIL",
        "TRAIL:", "TRAIL::", "GHOST", "DUP", "DUP (2)", "x", "X", "",
        " ", "INSIDE BLANK", "NOPE", "äöü", "ÄÖÜ",
        "ß", "SS", ":", "::", ".", "..",
    ]
    seps = ["/", "\\", "\\\\", "\\\\\\", "//", "/\\", "\\/", " / ", "\t/\n"]
    paths = set()
    for n in names:
        paths.add(n)
        for s in seps:
            paths.add(n + s)
            paths.add(s + n)
            paths.add(" " + n + s + " ")
    for a, b in itertools.product(names, names):
        for s in ("/", "\\", "\\\\"):
            paths.add(a + s + b)
    some = ["A", "a", "VOLUME 001", "", "STRINGS -L", "DUP", "TOP LEAF",
            "GHOST", "STOP", "EMPTY", "NOPE", "TRAIL:", "B:", "x"]
    for a, b, c in itertools.product(some, some, some):
        paths.add("/".join((a, b, c)))
        paths.add("\\".join((a, b, c)) + "\\")
        paths.add(" " + a + " \\\\ " + b + " / " + c + " // ")
    rnd = random.Random(20240610)
    alphabet = ["/", "\\", " ", ":", "A", "a", "B", "b", "x", "VOLUME 001",
                "DUP", "\t", "\n", "ä", "ß", " ", "\U0001f3b9",
                "\x00", "TOP LEAF", "(", ")", "-L", "STRINGS "]
    for _ in range(6000):
        k = rnd.randint(0, 9)
        paths.add("".join(rnd.choice(alphabet) for _ in range(k)))
    return sorted(paths)


def main():
    failures = 0
    checked = 0

    # 1. regex spelling
    current_regex = Traversable._TOKENIZE_PATH_REGEX
    if current_regex.flags != ORIG_TOKENIZE_PATH_REGEX.flags:
        print("regex flags differ")
        failures += 1
    if current_regex.groups != ORIG_TOKENIZE_PATH_REGEX.groups:
        print("regex group count differs")
        failures += 1
    paths = make_paths()
    exhaustive = [
        "".join(t) for k in range(0, 7)
        for t in itertools.product("\\/a ", repeat=k)
    ]
    for text in paths + exhaustive:
        checked += 1
        if current_regex.split(text) != ORIG_TOKENIZE_PATH_REGEX.split(text):
            failures += 1
            print("regex split differs on", repr(text))

    # 2. parse_path on trees
    factories = [
        lambda: PlainImage(),
        lambda: AkaiLikeImage(),
        lambda: PlainImage(spec=()),
        lambda: PlainImage(mode="stop"),
    ]
    for factory in factories:
        for path in paths + exhaustive[:400]:
            checked += 1
            expected = observe(orig_parse_path, factory(), path)
            actual = observe(Traversable.parse_path, factory(), path)
            if expected != actual:
                failures += 1
                if failures < 20:
                    print("MISMATCH", repr(path))
                    print("  expected", expected)
                    print("  actual  ", actual)

        # same image object reused across calls (cached children)
        img_a, img_b = factory(), factory()
        for path in paths[::7]:
            checked += 1
            expected = observe(orig_parse_path, img_a, path)
            actual = observe(Traversable.parse_path, img_b, path)
            if expected != actual:
                failures += 1
                if failures < 20:
                    print("MISMATCH (reused image)", repr(path))

    # 3. non-string path arguments fail the same way
    for bad in (None, 5, b"A/B", ["A"], ("A",)):
        checked += 1
        expected = observe(orig_parse_path, PlainImage(), bad)
        actual = observe(Traversable.parse_path, PlainImage(), bad)
        if expected != actual:
            failures += 1
            print("MISMATCH (bad type)", repr(bad), expected, actual)

    print(f"checked {checked} cases, {failures} mismatches")
    return 0 if failures == 0 else 1


if __name__ == "__main__":
    sys.exit(main())
