"""Equivalence demo for r5: Traversable.children (smpl_extract/structural.py).

The live `Traversable.children` is compared against an inline copy of the
ORIGINAL property body on many randomly generated scenarios.  For each
scenario an identical "script" of accesses is replayed on a live object and on
a reference object; every observable is logged (arguments handed to the
realiser, order and arguments of routine calls, returned objects, exceptions,
final cache state) and the two logs must be identical.
"""
import random
import sys

from smpl_extract.structural import Traversable


class OrigTraversable(Traversable):
    """Traversable with the ORIGINAL implementation of `children` pasted in."""

    @property
    def children(self):
        if self._children is None:
            context_additions = {
                "_elem_parent": self,
                "_elem_routines": self._routines
            }
            children = self._f_realize_children(context_additions)
            for routine in self._routines.values():
                children = routine(children)  # type: ignore
            self._children = children
        return self._children  # type: ignore


class Boom(Exception):
    pass


class Item:
    def __init__(self, tag):
        self.tag = tag
        self.name = tag
        self.marks = []

    def __repr__(self):
        return "Item(%r,%r)" % (self.tag, self.marks)


def describe(value):
    if value is None:
        return None
    if isinstance(value, list):
        return ["list"] + [repr(x) for x in value]
    return repr(value)


def build(cls, spec, log):
    """Build one node of class `cls` according to the scenario `spec`."""
    state = {"realize_calls": 0}
    node_box = []

    def f_realize(context_additions):
        state["realize_calls"] += 1
        n = state["realize_calls"]
        keys = list(context_additions.keys())
        log.append(("realize", n, keys, type(context_additions).__name__,
                    context_additions["_elem_parent"] is node_box[0],
                    sorted(context_additions["_elem_routines"].keys()),
                    context_additions["_elem_routines"] is node_box[0]._routines))
        mode = spec["realize_mode"]
        if mode == "raise_first" and n == 1:
            raise Boom("realize %d" % n)
        if mode == "raise_always":
            raise Boom("realize %d" % n)
        if mode == "none_first" and n == 1:
            return None
        if mode == "none_always":
            return None
        if mode == "swap_routines":
            # the realiser replaces the routines of its own parent
            node_box[0].set_routines(make_routines(spec["alt_routines"], "alt"))
        if mode == "mutate_context":
            context_additions["extra"] = 1
        return [Item("c%d_%d" % (n, i)) for i in range(spec["n_children"])]

    def make_routines(kinds, prefix):
        routines = {}
        for idx, kind in enumerate(kinds):
            key = "%s%d_%s" % (prefix, idx, kind)

            def routine(children, _key=key, _kind=kind):
                log.append(("routine", _key, describe(children)))
                if _kind == "raise":
                    raise Boom(_key)
                if _kind == "raise_once":
                    if not state.get(_key):
                        state[_key] = True
                        raise Boom(_key)
                    return children
                if _kind == "mark":
                    for c in children or []:
                        c.marks.append(_key)
                    return children
                if _kind == "reverse":
                    return list(reversed(children or []))
                if _kind == "drop":
                    return (children or [])[1:]
                if _kind == "to_none":
                    return None
                if _kind == "to_empty":
                    return []
                if _kind == "swap":
                    node_box[0].set_routines(
                        make_routines(spec["alt_routines"], "alt"))
                    return children
                return children
            routines[key] = routine
        return routines

    if spec["routines"] is None:
        routines = None
    else:
        routines = make_routines(spec["routines"], "r")
    node = cls(f_realize, routines=routines, path=["p"], parent=None,
               type_name=spec["type_name"])
    node_box.append(node)
    return node, make_routines


def run(cls, spec):
    log = []
    node, make_routines = build(cls, spec, log)
    for step in spec["script"]:
        if step == "get":
            try:
                got = node.children
                log.append(("got", describe(got), got is node._children))
            except Boom as e:
                log.append(("exc", type(e).__name__, str(e)))
            except Exception as e:  # anything unexpected is logged verbatim
                log.append(("exc", type(e).__name__, str(e)))
        elif step == "set_routines":
            node.set_routines(make_routines(spec["alt_routines"], "alt"))
            log.append(("set_routines",))
        elif step == "reset":
            node._children = None
            log.append(("reset",))
        elif step == "preset_empty":
            node._children = []
            log.append(("preset_empty",))
        elif step == "info":
            try:
                node.name = "n"
                info = node.get_info()
                log.append(("info", info.to_string()))
            except Exception as e:
                log.append(("exc", type(e).__name__, str(e)))
        log.append(("cache", describe(node._children)))
    return log


ROUTINE_KINDS = ["mark", "reverse", "drop", "raise", "raise_once", "to_none",
                 "to_empty", "swap", "noop"]
REALIZE_MODES = ["plain", "plain", "plain", "raise_first", "raise_always",
                 "none_first", "none_always", "swap_routines",
                 "mutate_context"]
STEPS = ["get", "get", "get", "set_routines", "reset", "preset_empty", "info"]


def make_spec(rng):
    if rng.random() < 0.1:
        routines = None
    else:
        routines = [rng.choice(ROUTINE_KINDS) for _ in range(rng.randint(0, 4))]
    return {
        "realize_mode": rng.choice(REALIZE_MODES),
        "n_children": rng.randint(0, 4),
        "routines": routines,
        "alt_routines": [rng.choice(ROUTINE_KINDS)
                         for _ in range(rng.randint(0, 3))],
        "type_name": rng.choice([None, "", "Thing"]),
        "script": [rng.choice(STEPS) for _ in range(rng.randint(1, 8))],
    }


def main():
    rng = random.Random(160005)
    specs = []
    # hand-written edge cases
    for mode in REALIZE_MODES:
        for routines in (None, [], ["mark"], ["mark", "reverse", "drop"],
                         ["raise"], ["raise_once", "mark"], ["to_none"],
                         ["swap", "mark"], ["to_empty", "mark"]):
            specs.append({
                "realize_mode": mode, "n_children": 3, "routines": routines,
                "alt_routines": ["reverse", "mark"], "type_name": None,
                "script": ["get", "get", "info", "set_routines", "get",
                           "reset", "get", "get"],
            })
    for _ in range(3000):
        specs.append(make_spec(rng))

    bad = 0
    for i, spec in enumerate(specs):
        live = run(Traversable, spec)
        ref = run(OrigTraversable, spec)
        if live != ref:
            bad += 1
            if bad <= 5:
                print("MISMATCH in scenario", i, spec)
                for a, b in zip(live, ref):
                    if a != b:
                        print("  live:", a)
                        print("  ref :", b)
                        break
    print("scenarios: %d, mismatches: %d" % (len(specs), bad))
    return 1 if bad else 0


if __name__ == "__main__":
    sys.exit(main())
