"""Equivalence demo for r22: SegmentAllocationTableAdapter._decode
(smpl_extract/akai/sat.py) - three small edits in the chain walk:
the tuple `(AKAI_SAT_RESERVED_FLAG_STD, AKAI_SAT_RESERVED_FLAG_V2)` tested on
every step is now the module constant `_DIRECTORY_AREA_FLAGS`; the trailing
`if not current_sector_is_directory: subpath_index = value_current / else:
subpath_index += 1` is a call of the new module helper
`_successor_index(index, word, in_directory_area)` (a conditional
expression); the dead `else: pass` of the outer `if not dirty_flags[i]:` is
gone.

`OriginalAdapter._decode` below is a verbatim copy of the ORIGINAL method.
The module's adapter is compared with it on

 * every raw SAT word table over 0..5 sectors whose entries are drawn from
   {free, end, reserved (std), reserved (v2), each in-range link, size,
   an out-of-range word, -1} (0..4 sectors additionally with a word below
   -size, for which the visited-flag lookup raises IndexError), and a large
   random sample of tables over 6..40 sectors with injected cycles / cross
   links / directory runs;
 * tables whose words are spelled with other numeric types (bool, float) that
   compare equal to flags / links, so that the membership test and the
   successor computation see non-int operands;
 * outcome = returned table (type, size, every SectorLink, which entries still
   share the default SectorLink object, the partition stream handed over) or
   the raised exception (type and text);
 * every start sector of every decoded table through get_path();
 * both spellings of the partition stream (plain object / callable receiving
   the context), with the calls made to the callable recorded;
 * the order in which the raw table is read (a list subclass records every
   __getitem__ / __len__);
 * when present, the helper `_successor_index` directly against the if/else it
   replaces.
"""
import itertools
import random
import sys
from typing import List

from construct.core import Adapter
from construct.core import Int16ul

from smpl_extract.akai import sat as sat_module
from smpl_extract.akai.data_types import AKAI_SAT_EOF_FLAG
from smpl_extract.akai.data_types import AKAI_SAT_FREE_FLAG
from smpl_extract.akai.data_types import AKAI_SAT_RESERVED_FLAG_STD
from smpl_extract.akai.data_types import AKAI_SAT_RESERVED_FLAG_V2
from smpl_extract.akai.sat import SegmentAllocationTable
from smpl_extract.akai.sat import SegmentAllocationTableAdapter
from smpl_extract.util.fat import SectorLink
from smpl_extract.util.fat import add_to_sector_links


# ---------------------------------------------------------------- original
class OriginalAdapter(Adapter):


    def __init__(self, partition_stream, subcon):
        super().__init__(subcon)  # type: ignore
        self.partition_stream = partition_stream


    def _decode(
            self,
            obj: List[int],
            context,
            path
    ) -> SegmentAllocationTable:

        del path  # Unused
        block = obj
        if callable(self.partition_stream):
            partition_stream = self.partition_stream(context)
        else:
            partition_stream = self.partition_stream

        size = len(block)
        sector_links = [SectorLink()] * size
        dirty_flags = [False] * size

        previous_sector_was_directory = True
        for i in range(size):
            if not dirty_flags[i]:

                links = []
                subpath_index = i

                continue_flag = True
                while continue_flag:
                    if subpath_index >= size:
                        continue_flag = False
                        break

                    value_current = block[subpath_index]
                    current_sector_is_directory = value_current in (
                            AKAI_SAT_RESERVED_FLAG_STD,
                            AKAI_SAT_RESERVED_FLAG_V2
                    )

                    if not current_sector_is_directory and previous_sector_was_directory and len(links) > 0:
                        add_to_sector_links(links, sector_links)
                        previous_sector_was_directory = False
                        continue_flag = False
                        break
                    elif value_current == AKAI_SAT_FREE_FLAG or \
                            (value_current < size and dirty_flags[value_current]):

                        continue_flag = False
                        dirty_flags[subpath_index] = True
                        previous_sector_was_directory = False
                        break
                    elif value_current == AKAI_SAT_EOF_FLAG:
                        links.append(subpath_index)
                        add_to_sector_links(links, sector_links)
                        dirty_flags[subpath_index] = True
                        previous_sector_was_directory = current_sector_is_directory
                        continue_flag = False
                        break

                    dirty_flags[subpath_index] = True
                    links.append(subpath_index)
                    if not current_sector_is_directory:
                        subpath_index = value_current
                    else:
                        subpath_index += 1
                    previous_sector_was_directory = current_sector_is_directory

            else:
                pass

        result = SegmentAllocationTable(partition_stream, size, sector_links)
        return result


    def _encode(self, obj, context, path):
        raise NotImplementedError


# ------------------------------------------------------------------ helpers
class RecordingList(list):
    """A list that logs how it is read."""

    def __init__(self, *args):
        super().__init__(*args)
        self.log = []

    def __getitem__(self, index):
        self.log.append(("get", index))
        return super().__getitem__(index)

    def __len__(self):
        self.log.append(("len",))
        return super().__len__()


class StreamFactory:
    """Callable partition stream; remembers what it was called with."""

    def __init__(self, product):
        self.product = product
        self.calls = []

    def __call__(self, context):
        self.calls.append(context)
        return self.product


def describe_table(table, partition_stream):
    links = table.sector_links
    default_ids = {}
    sharing = []
    for link in links:
        sharing.append(default_ids.setdefault(id(link), len(default_ids)))
    paths = []
    for start in range(-1, table.size + 2):
        try:
            paths.append(("ok", table.get_path(start)))
        except Exception as exc:  # noqa: BLE001
            paths.append(("raise", type(exc).__name__, str(exc)))
    return (
        type(table).__name__,
        table.size,
        [(type(link).__name__, link.next, link.end) for link in links],
        sharing,
        table.parent_stream is partition_stream,
        paths,
    )


def outcome(adapter_cls, words, use_factory, recording):
    stream = object()
    context = {"marker": len(words)}
    source = StreamFactory(stream) if use_factory else stream
    adapter = adapter_cls(source, Int16ul[len(words)])
    block = RecordingList(words) if recording else list(words)
    try:
        table = adapter._decode(block, context, "(demo)")
        result = ("ok", describe_table(table, stream))
    except Exception as exc:  # noqa: BLE001
        result = ("raise", type(exc).__name__, str(exc))
    calls = source.calls if use_factory else None
    log = block.log if recording else None
    if calls is not None:
        calls = [call is context for call in calls]
    return result, calls, log


failures = 0
checked = 0


def compare(words, use_factory=False, recording=False):
    global failures, checked
    checked += 1
    expected = outcome(OriginalAdapter, words, use_factory, recording)
    actual = outcome(SegmentAllocationTableAdapter, words, use_factory,
                     recording)
    if expected != actual:
        failures += 1
        if failures <= 10:
            print("MISMATCH for", words, use_factory, recording)
            print("  original :", expected)
            print("  module   :", actual)


def alphabet(size):
    return [
        AKAI_SAT_FREE_FLAG,
        AKAI_SAT_EOF_FLAG,
        AKAI_SAT_RESERVED_FLAG_STD,
        AKAI_SAT_RESERVED_FLAG_V2,
    ] + list(range(1, size + 1)) + [0x3FFF, -1]


def main():
    global failures, checked
    # exhaustive part
    for size in range(0, 6):
        for words in itertools.product(alphabet(size), repeat=size):
            compare(words)
    # a thinner exhaustive pass with the callable stream and the recorder
    for size in range(0, 5):
        for words in itertools.product(alphabet(size) + [-size - 1],
                                       repeat=size):
            compare(words, use_factory=True, recording=True)

    # random part
    rng = random.Random(0xC0718)
    for _ in range(20000):
        size = rng.randint(6, 40)
        letters = alphabet(size)
        weights = [3, 3, 2, 1] + [1] * size + [1, 1]
        words = rng.choices(letters, weights=weights, k=size)
        if rng.random() < 0.5:
            # a directory run at the front, the way real partitions look
            run = rng.randint(1, min(4, size))
            flag = rng.choice(
                [AKAI_SAT_RESERVED_FLAG_STD, AKAI_SAT_RESERVED_FLAG_V2])
            words[:run] = [flag] * run
        if rng.random() < 0.5:
            # a well-formed chain threaded through the table
            chain = rng.sample(range(size), rng.randint(1, size))
            for here, there in zip(chain, chain[1:]):
                words[here] = there
            words[chain[-1]] = rng.choice([AKAI_SAT_EOF_FLAG, chain[0]])
        compare(
            words,
            use_factory=rng.random() < 0.5,
            recording=rng.random() < 0.3,
        )

    # words of other numeric types
    odd_letters = [0, 0.0, False, True, 1.0, 2, 2.0, 3, float(0x4000),
                   float(0x8000), float(0xC000), AKAI_SAT_EOF_FLAG,
                   AKAI_SAT_RESERVED_FLAG_STD, 1.5, 4]
    for size in (3, 4):
        for words in itertools.product(odd_letters, repeat=size):
            compare(words)

    # the helper on its own
    helper = getattr(sat_module, "_successor_index", None)
    if helper is not None:
        for index, word, flag in itertools.product(
                (0, 1, 5, 11385, -1), (0, 1, 7, 0x4000, 0x8000, 0xC000, -1, 2.0),
                (True, False)):
            subpath_index = index
            if not flag:
                subpath_index = word
            else:
                subpath_index += 1
            checked += 1
            got = helper(index, word, flag)
            if got != subpath_index or type(got) is not type(subpath_index):
                failures += 1
                print("MISMATCH in _successor_index", index, word, flag)

    # tables of real size
    for _ in range(5):
        size = 11386
        words = [AKAI_SAT_FREE_FLAG] * size
        order = list(range(size))
        rng.shuffle(order)
        position = 0
        while position < size:
            length = rng.randint(1, 400)
            chain = order[position:position + length]
            position += length
            for here, there in zip(chain, chain[1:]):
                words[here] = there
            words[chain[-1]] = rng.choice(
                [AKAI_SAT_EOF_FLAG, AKAI_SAT_EOF_FLAG, chain[0], size + 5])
        expected = outcome(OriginalAdapter, words, False, False)[0]
        actual = outcome(SegmentAllocationTableAdapter, words, False, False)[0]
        checked += 1
        if expected[:1] != actual[:1] or expected[1][:5] != actual[1][:5]:
            failures += 1
            print("MISMATCH on a full-size table")

    # the module still exposes what others import
    for name in ("Segment", "SegmentAllocationTable",
                 "SegmentAllocationTableAdapter"):
        if not hasattr(sat_module, name):
            failures += 1
            print("missing public name", name)

    print(f"{checked} tables compared, {failures} mismatches")
    return 1 if failures else 0


if __name__ == "__main__":
    sys.exit(main())
