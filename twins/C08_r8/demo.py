"""Equivalence demo for r8 (FileStream._get_address_given_sector_index).

The ORIGINAL FileStream class is pasted below (OrigFileStream).  Identical
seek/tell/read histories over random sector chains are run through the live
and the original class, comparing results, exceptions (type, message and the
chained __cause__), state and the exact call sequence on the partition
stream.  A byte-level model of the chained file is checked too.
Exit 0 = all agree, 1 = mismatch.
"""
import itertools
import random
import sys
from io import BytesIO, IOBase, SEEK_CUR, SEEK_END, SEEK_SET
from typing import List

from smpl_extract.util.fat import FileStream
from smpl_extract.util.sector import SectorStream
from smpl_extract.util.stream import SectorReadError
from smpl_extract.util.stream import StreamOffset


# ------------------------------------------------------------------ original
class OrigFileStream(SectorStream):


    def __init__(
            self,
            parent_stream:      IOBase,
            sector_size:        int,
            sector_list:        List[int],
            position:           int = 0,
            buffer_length:      int = 0x1000
    ) -> None:
        super().__init__(
            parent_stream,
            size=(sector_size * len(sector_list)),
            sector_length=sector_size,
            position=position,
            buffer_length=buffer_length
        )
        self.sector_list = sector_list


    def _get_address_given_sector_index(
            self,
            sector_index: int,
            offset: int
        ):
        try:
            sector  = self.sector_list[sector_index]
        except IndexError as e:
            raise SectorReadError(
                f"Sector {sector_index} lies beyond the "
                f"{len(self.sector_list)} sectors of the file."
            ) from e
        result  = super()._get_address_given_sector_index(
            sector,
            offset
        )
        return result


# ------------------------------------------------------------------- harness
class Recorder(BytesIO):
    def __init__(self, data):
        super().__init__(data)
        self.log = []

    def seek(self, *a):
        r = super().seek(*a)
        self.log.append(("seek", a, r))
        return r

    def tell(self):
        r = super().tell()
        self.log.append(("tell", r))
        return r

    def read(self, *a):
        r = super().read(*a)
        self.log.append(("read", a, r))
        return r


def call(fn, *a, **k):
    try:
        return ("ok", fn(*a, **k))
    except Exception as e:  # noqa: BLE001
        c = e.__cause__
        return ("exc", type(e).__name__, str(e), e.args,
                type(c).__name__, str(c), e.__suppress_context__,
                type(e.__context__).__name__)


def state(s):
    return (s.position, s.end_of_file, s.true_size, s.sector_length, tuple(s.sector_list))


failures = 0


def check(label, a, b):
    global failures
    if a != b:
        failures += 1
        if failures <= 10:
            print("MISMATCH", label, repr(a)[:300], repr(b)[:300])


def run_history(data, sector_size, chain, kwargs, ops):
    ra, rb = Recorder(data), Recorder(data)
    a = FileStream(ra, sector_size, list(chain), **kwargs)
    b = OrigFileStream(rb, sector_size, list(chain), **kwargs)
    check("init", state(a), state(b))
    for op in ops:
        name, args = op[0], op[1:]
        xa = call(getattr(a, name), *args)
        xb = call(getattr(b, name), *args)
        check(("op", sector_size, chain, op), xa, xb)
        check(("state", op), state(a), state(b))
        check(("log", op), ra.log, rb.log)


def random_ops(rng, size, ss, n):
    ops = []
    for _ in range(n):
        k = rng.randrange(6)
        if k == 0:
            ops.append(("tell",))
        elif k == 1:
            # land on / next to a sector boundary, the end included
            ops.append(("seek", ss * rng.randint(0, size // ss) + rng.randint(-1, 1), SEEK_SET))
        elif k == 2:
            ops.append(("seek", rng.randint(-size - 3, size + 3),
                        rng.choice([SEEK_SET, SEEK_CUR, SEEK_END])))
        elif k == 3:
            ops.append(("seek", rng.randint(-ss - 1, ss + 1)))
        else:
            ops.append(("read", rng.choice([0, 1, ss - 1, ss, ss + 1, 2 * ss, 2 * ss + 1,
                                            3 * ss, size, size + 3, rng.randint(0, size + 2)])))
    return ops


def main():
    rng = random.Random(0xC088)

    # --- direct calls: every index (negative, in range, beyond) x offsets
    for ss in (1, 2, 4, 7):
        for chain in ([], [0], [3], [2, 0, 1], [5, 5, 1], [9, 4, 7, 0, 2]):
            a = FileStream(BytesIO(b""), ss, list(chain))
            b = OrigFileStream(BytesIO(b""), ss, list(chain))
            for idx in range(-len(chain) - 3, len(chain) + 4):
                for off in (-1, 0, 1, ss - 1, ss, ss + 5):
                    xa = call(a._get_address_given_sector_index, idx, off)
                    xb = call(b._get_address_given_sector_index, idx, off)
                    check(("direct", ss, chain, idx, off), xa, xb)
                    if -len(chain) <= idx < len(chain):
                        check(("direct-val", ss, chain, idx, off), xa,
                              ("ok", chain[idx] * ss + off))
                    else:
                        check(("direct-exc", ss, chain, idx, off), xa[1:3],
                              ("SectorReadError",
                               f"Sector {idx} lies beyond the {len(chain)} sectors of the file."))
                        check(("direct-cause", idx), xa[4], "IndexError")
            check(("direct-kw", ss, chain),
                  call(a._get_address_given_sector_index, sector_index=0, offset=1),
                  call(b._get_address_given_sector_index, sector_index=0, offset=1))
            # non-IndexError failures of the lookup propagate unchanged
            for bad in [("x", 0), (None, 0), (0.0, 0), (slice(0, 1), 0), (0, "x"), (0, None)]:
                check(("direct-bad", ss, chain, bad),
                      call(a._get_address_given_sector_index, *bad),
                      call(b._get_address_given_sector_index, *bad))
            # _translate_address / _read_sector use the same mechanism
            for addr in range(-2, ss * len(chain) + 3):
                check(("translate", ss, chain, addr),
                      call(a._translate_address, addr), call(b._translate_address, addr))

    # --- exhaustive 3-op histories over tiny chained files
    small_ops = [("tell",), ("read", 0), ("read", 1), ("read", 2), ("read", 3), ("read", 9),
                 ("seek", 0, SEEK_SET), ("seek", 1, SEEK_SET), ("seek", 2, SEEK_SET),
                 ("seek", 4, SEEK_SET), ("seek", 0, SEEK_END), ("seek", -1, SEEK_END),
                 ("seek", -2), ("seek", 2), ("seek", 99, SEEK_SET)]
    data = bytes(range(1, 17))
    for ss, chain in ((2, [3, 0]), (2, [1, 5, 2]), (1, [4, 2]), (3, [2, 0]), (4, [1])):
        for hist in itertools.product(small_ops, repeat=3):
            run_history(data, ss, chain, {}, list(hist))

    # --- long random histories: random sector sizes and chain permutations
    for trial in range(400):
        ss = rng.randint(1, 9)
        nsec = rng.randint(1, 10)
        data = bytes(rng.randrange(256) for _ in range(ss * nsec + rng.randint(0, 3)))
        length = rng.randint(1, nsec)
        chain = rng.sample(range(nsec), length)
        if rng.random() < 0.1:
            chain[rng.randrange(length)] = nsec + rng.randint(0, 2)   # points past the image
        kwargs = {}
        if rng.random() < 0.4:
            kwargs["buffer_length"] = rng.randint(1, 3 * ss)
        if rng.random() < 0.3:
            kwargs["position"] = rng.randint(0, ss * length)
        ops = random_ops(rng, ss * length, ss, 40)
        if rng.random() < 0.3:
            ops.insert(rng.randrange(len(ops)), ("read", None))
        run_history(data, ss, chain, kwargs, ops)

    # --- model: content is the concatenation of the chained sectors; the
    #     same through a StreamOffset window on top.  A read issued exactly
    #     at the end is compared live-vs-original above and skipped here.
    for trial in range(200):
        ss = rng.randint(1, 8)
        nsec = rng.randint(1, 8)
        data = bytes(rng.randrange(256) for _ in range(ss * nsec))
        chain = rng.sample(range(nsec), rng.randint(1, nsec))
        content = b"".join(data[c * ss:(c + 1) * ss] for c in chain)
        size = len(content)
        win_off = rng.randint(0, size - 1)
        win_size = rng.randint(1, size - win_off)
        views = [
            (FileStream(BytesIO(data), ss, chain), content),
            (StreamOffset(FileStream(BytesIO(data), ss, chain), win_size, win_off),
             content[win_off:win_off + win_size]),
        ]
        for s, logical in views:
            L = len(logical)
            pos = 0
            for _ in range(30):
                k = rng.randrange(3)
                if k == 0:
                    check("model-tell", s.tell(), pos)
                elif k == 1:
                    target = rng.randint(-2, L + 2)
                    pos = min(max(target, 0), L)
                    check("model-seek", s.seek(target, SEEK_SET), pos)
                elif pos < L:
                    n = rng.choice([0, 1, ss, ss + 1, 2 * ss, L, L + 2, rng.randint(0, L)])
                    exp = logical[pos:pos + n]
                    check("model-read", s.read(n), exp)
                    pos += len(exp)

    if failures:
        print(f"FAIL: {failures} mismatches")
        return 1
    print("OK: FileStream chain lookup live == original everywhere")
    return 0


if __name__ == "__main__":
    sys.exit(main())
