"""Equivalence evidence for r25: smpl_extract/akai/keygroup.py,
KeygroupAdapter._decode - the construction of the Keygroup object from the
common fields and the list of velocity zones.

The refactoring turns the for-loop-with-append that builds the VelocityZone
list into a list comprehension whose body lives in a local closure
(`make_zone`, locals renamed), and builds the Keygroup from ONE keyword dict
(the dict returned by get_common_field_args extended by item assignment with
"velocity_zones") instead of `**common_attribs` plus an explicit keyword; the
`keygroup` temporary is dropped.

An inline copy of the ORIGINAL adapter is compared with the live one:
  1. hand-made keygroup containers whose per-zone lists have every combination
     of lengths 0..5 against 0..5 zones, missing keys, non-sized values and
     different `path` values: returned Keygroup (every field, exact types) or
     exception type / message / path, plus the order of all item and attribute
     reads on the container;
  1b. zone containers that are themselves odd: keys that collide with the
     per-zone lists (duplicate keyword), unknown keys, private / empty keys,
     missing fields, non-mapping zones, per-zone lists that cannot be indexed,
     missing common fields; logging zone containers (order of reads);
  2. containers parsed from 3000 random keygroup records (0..6 stored zones);
  3. 400 whole programs through ProgramParser and through a ProgramParser
     assembled around the ORIGINAL adapter: itemised tree and `ls` text.
Exit 0 = all agree, 1 = a difference was found.
"""
import io
import itertools
import random
import struct
import sys
from dataclasses import fields
from dataclasses import is_dataclass
from typing import List

from construct.core import Adapter
from construct.core import Computed
from construct.core import ConstructError
from construct.core import FocusedSeq
from construct.core import If
from construct.core import Seek
from construct.core import Struct
from construct.expr import this
from construct.lib.containers import Container

from smpl_extract.akai.keygroup import Keygroup
from smpl_extract.akai.keygroup import KeygroupAdapter
from smpl_extract.akai.keygroup import KeygroupCommon
from smpl_extract.akai.keygroup import KeygroupConstruct
from smpl_extract.akai.keygroup import KeygroupContainer
from smpl_extract.akai.keygroup import VelocityZone
from smpl_extract.akai.keygroup import VelocityZoneContainer
from smpl_extract.akai.program import ProgramAdapter
from smpl_extract.akai.program import ProgramHeaderConstruct
from smpl_extract.akai.program import ProgramParser
from smpl_extract.akai.program import _has_next_keygroup
from smpl_extract.akai.program import _has_valid_first_keygroup
from smpl_extract.util.constructs import sanitize_container
from smpl_extract.util.dataclass import get_common_field_args


# --------------------------------------------------------------------------
# inline copy of the ORIGINAL implementation
# --------------------------------------------------------------------------
class OrigKeygroupAdapter(Adapter):


    def _decode(self, obj: KeygroupContainer, context, path)->Keygroup:
        del context  # Unused
        container = obj

        num_active_velocity_zones = len(container.velocity_zones)
        zone_aux_attrib_names = (
            "enable_key_tracking",
            "aux_out_offset",
            "velocity_to_sample_start"
        )
        cond = {
            k : len(container[k]) != num_active_velocity_zones
            for k in zone_aux_attrib_names
        }
        if any(cond.values()):
            bad_attribs = tuple(k for k, v in cond.items() if v)
            bad_lengths = tuple(str(len(container[x])) for x in bad_attribs)
            grammar = "have lengths" if len(bad_attribs) > 1 else "has a length"
            message = (
                f"{', '.join(bad_attribs)} {grammar} of {', '.join(bad_lengths)}. "
                f"Expected {num_active_velocity_zones}."
            )
            raise ConstructError(message, path)

        velocity_zones: List[VelocityZone] = list()
        for i, zone_container in enumerate(container.velocity_zones):
            zone_aux_attribs = {
                k : container[k][i] for k in zone_aux_attrib_names
            }
            velocity_zone = VelocityZone(
                **sanitize_container(zone_container),
                **zone_aux_attribs
            )
            velocity_zones.append(velocity_zone)

        common_attribs = get_common_field_args(KeygroupCommon, container)

        keygroup = Keygroup(
            **common_attribs,
            velocity_zones=velocity_zones
        )

        return keygroup


OrigKeygroupLinkConstruct = FocusedSeq(
    "keygroup",
    "keygroup_raw"  / KeygroupConstruct,
    "keygroup"      / OrigKeygroupAdapter(Computed(this.keygroup_raw)),
    If(_has_next_keygroup,
        Seek(this.keygroup_raw.next_keygroup_address)
    )
)
OrigProgramParser = ProgramAdapter(Struct(
    "header" / ProgramHeaderConstruct,
    If(_has_valid_first_keygroup,
        Seek(this.header.first_keygroup_address)
    ),
    "keygroups" / OrigKeygroupLinkConstruct[this.header.number_of_keygroups]
))


# --------------------------------------------------------------------------
failures = 0
checked = 0


def fail(*msg):
    global failures
    failures += 1
    if failures <= 5:
        print("MISMATCH", *[repr(m)[:500] for m in msg])


def same(tag, a, b, *extra):
    global checked
    checked += 1
    if a != b:
        fail(tag, a, b, *extra)
        return False
    return True


def freeze(value):
    """value with its exact type, str() and (for containers) key order"""
    if is_dataclass(value) and not isinstance(value, (type, dict)):
        return ("dataclass", type(value).__name__,
                [(f.name, freeze(getattr(value, f.name))) for f in fields(value)])
    if isinstance(value, dict):
        return ("dict", type(value).__name__,
                [(k, freeze(v)) for k, v in value.items() if k != "_io"])
    if isinstance(value, (list, tuple)):
        return (type(value).__name__, [freeze(v) for v in value])
    return (type(value).__module__, type(value).__name__, repr(value), str(value))


LOG = []


class LoggingContainer(Container):
    """construct Container that logs item / attribute reads in order"""
    def __getitem__(self, key):
        LOG.append(("item", key))
        return super().__getitem__(key)

    def __getattr__(self, name):
        LOG.append(("attr", name))
        return super().__getattr__(name)


class Sized:
    """value with a len() but nothing else; logs the calls"""
    def __init__(self, tag, n):
        self.tag = tag
        self.n = n

    def __len__(self):
        LOG.append(("len", self.tag))
        return self.n

    def __repr__(self):
        return "Sized(%r,%r)" % (self.tag, self.n)


def observe_decode(adapter, make_container, path):
    del LOG[:]
    container = make_container()
    del LOG[:]
    try:
        res = adapter._decode(container, None, path)
        out = ("ok", freeze(res))
    except ConstructError as e:
        out = ("cexc", type(e).__name__, str(e), e.path, e.args)
    except Exception as e:  # noqa
        out = ("exc", type(e).__name__, str(e), e.args)
    return out, list(LOG)


live = KeygroupAdapter(Computed(None))
orig = OrigKeygroupAdapter(Computed(None))
rng = random.Random(0xC20_25)

AUX = ("enable_key_tracking", "aux_out_offset", "velocity_to_sample_start")


def zone(i):
    return VelocityZoneContainer("Z%d" % i, i, 127 - i, 0.5 * i, i, -i, i, 0)


def common_values():
    return {f.name: getattr(KeygroupContainer(), f.name)
            for f in fields(KeygroupCommon)}


def make_container(cls, zones, lengths, drop=(), extra=None):
    def make():
        kv = dict(common_values())
        kv["num_active_velocity_zones"] = zones
        kv["velocity_zones"] = [zone(i) for i in range(zones)]
        kv["enable_key_tracking"] = [bool(i % 2) for i in range(lengths[0])]
        kv["aux_out_offset"] = [10 + i for i in range(lengths[1])]
        kv["velocity_to_sample_start"] = tuple(-i for i in range(lengths[2]))
        if extra:
            kv.update(extra)
        for key in drop:
            del kv[key]
        return cls(**kv)
    return make


# 1. hand-made containers ---------------------------------------------------
raised = 0
decoded = 0
for zones in range(0, 6):
    for lengths in itertools.product(range(0, 6), repeat=3):
        for cls in (LoggingContainer, Container):
            path = rng.choice((None, "(parsing)", "(parsing) -> keygroups -> 2", 7))
            mk = make_container(cls, zones, lengths)
            a = observe_decode(live, mk, path)
            b = observe_decode(orig, mk, path)
            same("grid", a, b, zones, lengths)
            raised += a[0][0] == "cexc"
            decoded += a[0][0] == "ok"
            # independent expectation of the outcome
            bad = [k for k, n in zip(AUX, lengths) if n != zones]
            if bad:
                text = "%s %s of %s. Expected %d." % (
                    ", ".join(bad),
                    "have lengths" if len(bad) > 1 else "has a length",
                    ", ".join(str(n) for k, n in zip(AUX, lengths) if n != zones),
                    zones)
                if path is not None:
                    text = "Error in path %s\n%s" % (path, text)
                if a[0][0] != "cexc" or a[0][4] != (text,) or a[0][3] != path:
                    fail("expected error", zones, lengths, a[0], text)
            elif a[0][0] != "ok":
                fail("expected success", zones, lengths, a[0])
if raised < 1000 or decoded < 10:
    fail("grid too thin", raised, decoded)

# missing keys, odd values
odd = [None, 5, "abc", b"xy", {"a": 1}, Sized("s", 2), Sized("t", 0),
       iter([1, 2]), 3.5, (1, 2), [True, False], range(2)]
for n in range(3000):
    zones = rng.randrange(0, 4)
    lengths = tuple(rng.choice((zones, zones, rng.randrange(0, 5)))
                    for _ in range(3))
    drop = tuple(k for k in AUX + ("velocity_zones", "block_id", "low_key")
                 if rng.random() < 0.1)
    extra = {}
    for k in AUX + ("velocity_zones",):
        if rng.random() < 0.15:
            extra[k] = rng.choice(odd[:-1] if k != "velocity_zones" else odd[:7])
    if rng.random() < 0.1:
        extra["velocity_zones"] = [Container(sample_name="raw", bogus=1)]
    cls = rng.choice((LoggingContainer, Container))
    mk = make_container(cls, zones, lengths, drop, extra)
    path = rng.choice((None, "p"))
    a = observe_decode(live, mk, path)
    b = observe_decode(orig, mk, path)
    same("odd %d" % n, a, b, zones, lengths, drop, extra)

for obj in (None, 5, "kg", [], {}, object(), KeygroupContainer(),
            KeygroupContainer(velocity_zones=()),
            dict(velocity_zones=[], enable_key_tracking=[], aux_out_offset=[],
                 velocity_to_sample_start=[])):
    a = observe_decode(live, lambda obj=obj: obj, "p")
    b = observe_decode(orig, lambda obj=obj: obj, "p")
    same("non-container", a, b, obj)



# 1b. odd zone containers ------------------------------------------------------
class LoggingZone(Container):
    def items(self):
        LOG.append(("zone-items", self.get("sample_name")))
        return super().items()


class Unindexable:
    """has a length but cannot be indexed"""
    def __init__(self, n):
        self.n = n

    def __len__(self):
        return self.n

    def __repr__(self):
        return "Unindexable(%d)" % self.n


class Column:
    """a per-zone list that logs its index reads"""
    def __init__(self, tag, values):
        self.tag = tag
        self.values = list(values)

    def __len__(self):
        return len(self.values)

    def __getitem__(self, i):
        LOG.append(("col", self.tag, i))
        return self.values[i]


def odd_zone(kind, i):
    if kind == 0:
        return zone(i)
    if kind == 1:
        return LoggingZone(sample_name="L%d" % i, low_velocity=i, _io=object())
    if kind == 2:     # collides with a per-zone list -> duplicate keyword
        return Container(sample_name="D%d" % i,
                         **{rng.choice(AUX): rng.randrange(5)})
    if kind == 3:     # unknown field
        return LoggingZone(sample_name="U%d" % i, bogus=1)
    if kind == 4:     # private / empty keys are dropped
        c = LoggingZone(sample_name="P%d" % i, _private=3)
        c[""] = 9
        return c
    if kind == 5:
        return rng.choice((None, 5, "zone", ["sample_name"], object()))
    if kind == 6:
        return {"sample_name": "plain dict %d" % i, "pan_offset": i}
    if kind == 7:     # both a duplicate and an unknown key
        return LoggingZone(sample_name="B", bogus=2, enable_key_tracking=False)
    return Container()


zone_outcomes = {}
for n in range(2500):
    zones = rng.randrange(0, 5)
    kinds = [rng.choice((0, 0, 0, 1, 1, 2, 3, 4, 5, 6, 7, 8)) for _ in range(zones)]
    col_kind = [rng.randrange(6) for _ in range(3)]
    drop = tuple(f.name for f in fields(KeygroupCommon) if rng.random() < 0.02)
    cls = rng.choice((LoggingContainer, Container))

    def mk(zones=zones, kinds=kinds, col_kind=col_kind, drop=drop, cls=cls):
        state = rng.getstate()
        kv = dict(common_values())
        kv["num_active_velocity_zones"] = zones
        kv["velocity_zones"] = [odd_zone(k, i) for i, k in enumerate(kinds)]
        for tag, ck in zip(AUX, col_kind):
            values = [(i * 3 + len(tag)) % 7 for i in range(zones)]
            if ck == 0:
                kv[tag] = Unindexable(zones)
            elif ck == 1:
                kv[tag] = Column(tag, values)
            elif ck == 2:
                kv[tag] = tuple(values)
            elif ck == 3:
                kv[tag] = {i: v for i, v in enumerate(values)}
            else:
                kv[tag] = values
        for key in drop:
            del kv[key]
        rng.setstate(state)      # both adapters see identical containers
        return cls(**kv)

    path = rng.choice((None, "p -> q"))
    a = observe_decode(live, mk, path)
    b = observe_decode(orig, mk, path)
    same("zone %d" % n, a, b, zones, kinds, col_kind, drop)
    key = a[0][0] + ":" + (a[0][1] if a[0][0] != "ok" else "")
    zone_outcomes[key] = zone_outcomes.get(key, 0) + 1
for needed in ("ok:", "exc:TypeError", "exc:AttributeError"):
    if zone_outcomes.get(needed, 0) < 20:
        fail("zone outcomes too thin", zone_outcomes)

# fresh objects on every call, list type, argument dict not shared
mk = make_container(Container, 3, (3, 3, 3))
c1 = mk()
k1 = live._decode(c1, None, "p")
k2 = live._decode(c1, None, "p")
o1 = orig._decode(c1, None, "p")
same("fresh", (type(k1.velocity_zones), k1 is k2, k1.velocity_zones is k2.velocity_zones,
               k1 == k2, k1 == o1, type(k1) is type(o1), len(k1.velocity_zones)),
     (list, False, False, True, True, True, 3))
same("zone identity", [z1 is z2 for z1, z2 in zip(k1.velocity_zones, k2.velocity_zones)],
     [False] * 3)
same("container untouched", freeze(c1), freeze(mk()))

# 2. parsed containers --------------------------------------------------------
def akai_name(wild=False):
    roll = rng.random()
    if roll < 0.3:
        return bytes([0x0A] * 12)
    if wild and roll < 0.4:
        return bytes(rng.randrange(256) for _ in range(12))
    n = rng.randrange(1, 13)
    return bytes(rng.randrange(0, 0x29) for _ in range(n)) + bytes([0x0A] * (12 - n))


def make_keygroup(zones=4, wild=False, next_address=None):
    kg = bytearray(rng.randrange(256) for _ in range(34))
    if next_address is not None:
        kg[1:3] = struct.pack("<H", next_address)
    if not wild:
        kg[3] = rng.randrange(21, 128)
        kg[4] = rng.randrange(21, 128)
    kg[31] = zones
    for z in range(zones):
        kg += akai_name(wild)
        kg += bytes(rng.randrange(256) for _ in range(12))
    kg += bytes(rng.randrange(256) for _ in range(2 + zones + zones + 2 * zones + 2))
    assert len(kg) == 38 + 28 * zones
    return bytes(kg)


def observe_parse(con, blob):
    stream = io.BytesIO(blob)
    try:
        parsed = con.parse_stream(stream)
    except Exception as e:  # noqa
        return ("exc", type(e).__name__, str(e), stream.tell())
    return ("ok", freeze(parsed), stream.tell())


live_parser = KeygroupAdapter(KeygroupConstruct)
orig_parser = OrigKeygroupAdapter(KeygroupConstruct)
parsed_ok = 0
for n in range(3000):
    zones = 4 if n % 3 else rng.randrange(0, 7)
    blob = make_keygroup(zones, wild=(n % 7 == 0)) + b"tail"
    a = observe_parse(live_parser, blob)
    b = observe_parse(orig_parser, blob)
    same("parse %d" % n, a, b, blob.hex())
    parsed_ok += a[0] == "ok"
if parsed_ok < 2000:
    fail("too few keygroups parsed", parsed_ok)
blob = make_keygroup(3)
for cut in range(0, len(blob), 3):
    same("cut %d" % cut, observe_parse(live_parser, blob[:cut]),
         observe_parse(orig_parser, blob[:cut]))


def observe_build(adapter):
    try:
        return ("ok", adapter.build(Keygroup()))
    except Exception as e:  # noqa
        return ("exc", type(e).__name__, str(e))


same("build", observe_build(live_parser), observe_build(orig_parser))


# 3. whole programs ------------------------------------------------------------
def tree(t):
    if isinstance(t, dict):
        return ("dict", [(k, tree(v)) for k, v in t.items()])
    if isinstance(t, tuple):
        return ("tuple", [tree(v) for v in t])
    return (type(t).__name__, t)


def observe_program(parser, blob, name):
    stream = io.BytesIO(blob)
    try:
        prog = parser.parse_stream(stream, _elem_name=name)
        info = prog.get_info()
        return ("ok", stream.tell(), tree(prog.itemize()), info.header, info.to_string())
    except Exception as e:  # noqa
        return ("exc", type(e).__name__, str(e), stream.tell())


def make_header(num, first=72):
    hdr = bytearray(rng.randrange(256) for _ in range(72))
    hdr[1:3] = struct.pack("<H", first)
    hdr[3:15] = akai_name()
    hdr[18] = rng.randrange(4)          # priority
    hdr[19] = rng.randrange(21, 128)    # low_key
    hdr[20] = rng.randrange(21, 128)    # high_key
    hdr[42] = num                       # number_of_keygroups
    hdr[61] = rng.randrange(2)          # voice_reassign
    return bytes(hdr)


def make_program_blob():
    num = rng.randrange(1, 6)
    gap = rng.choice((0, 0, 3, 40))
    first = 72 + gap
    out = bytearray(make_header(num, first) + bytes(rng.randrange(256) for _ in range(gap)))
    for i in range(num):
        zones = 4 if rng.random() < 0.8 else rng.randrange(0, 6)
        hop = rng.choice((0, 0, 0, 7, 150))
        here = len(out)
        size = 38 + 28 * zones
        next_address = 0 if rng.random() < 0.05 else here + size + hop
        out += make_keygroup(zones, next_address=next_address)
        out += bytes(rng.randrange(256) for _ in range(hop))
    return bytes(out)


programs_ok = 0
for n in range(400):
    blob = make_program_blob()
    a = observe_program(ProgramParser, blob, "P%d" % n)
    b = observe_program(OrigProgramParser, blob, "P%d" % n)
    same("program %d" % n, a, b, blob.hex()[:200])
    programs_ok += a[0] == "ok"
if programs_ok < 250:
    fail("too few programs parsed", programs_ok)

print("zone outcomes:", sorted(zone_outcomes.items()))
print("r25 demo: %d comparisons (%d grid errors, %d grid ok, %d keygroups ok, "
      "%d programs ok), %d failures"
      % (checked, raised, decoded, parsed_ok, programs_ok, failures))
sys.exit(1 if failures else 0)
