"""Equivalence demo for r23: smpl_extract/roland/s7xx/patch_entry.py,
PatchEntryConstruct (the patch-level analogue of SampleEntryConstruct in
mechanism 'index -> directory/parameter record addressing').

Refactoring: the two inline declarations
    "directory" / Pointer(lambda this: (PATCH_DIRECTORY_ENTRY_SIZE*new_index_expr(this))
                                       + PATCH_DIRECTORY_AREA_OFFSET, DirectoryEntryParser)
    "parameter" / Pointer(lambda this: (PATCH_PARAMETER_ENTRY_SIZE*new_index_expr(this))
                                       + PATCH_PARAMETER_AREA_OFFSET, PatchParamEntryParser)
are now produced by a small parameterised factory
    _record_pointer(name, index_expr, entry_size, area_offset, parser)
whose address lambda became a named nested function and whose `"name" / subcon`
spelling became the explicit `Renamed(subcon, newname=name)` that the `/`
operator builds.

An inline copy of the ORIGINAL factory is compared with the working-tree one:
  (1) shape of the declaration (member names, classes, nesting, sizeof, the
      address functions evaluated for many index values and contexts),
  (2) parsing a patch record for constant / callable / negative / out-of-range
      / non-integer indices over a synthetic image, FAT version 1 and 2
      contexts: parsed containers, the PatchEntry element, the lazily realised
      partial entries (down to their sample entries and cluster chains), and the
      exact seek/tell/read calls on the shared stream,
  (3) whole images serialised by an independent writer (volumes x performances
      x patches x partials x <=4 samples, shared + orphan entries, shuffled
      cluster chains, cluster_top, 7 loop modes, 6 frequency codes, FAT version
      1/2, data that ends on a cluster boundary) exported with the original and
      with the working-tree factory: file tree, file bytes and stdout are
      compared with each other, and the PCM with the writer's own model,
  (4) precomputed addresses.
Exit 0 when everything agrees, 1 otherwise.
"""
import contextlib
import dataclasses
import io
import os
import random
import shutil
import struct
import sys
import tempfile

from construct.core import Computed
from construct.core import Construct
from construct.core import ExprValidator
from construct.core import Lazy
from construct.core import Pointer
from construct.core import Struct
from construct.lib.containers import Container

from smpl_extract.actions import export_samples_to_wav
from smpl_extract.roland.s7xx import data_types as dt
from smpl_extract.roland.s7xx import image as image_mod
from smpl_extract.roland.s7xx import partial_entry
from smpl_extract.roland.s7xx import patch_entry
from smpl_extract.roland.s7xx import performance_entry
from smpl_extract.roland.s7xx import volume_entry
from smpl_extract.roland.s7xx.data_types import MAX_NUM_PATCH
from smpl_extract.roland.s7xx.data_types import PATCH_DIRECTORY_AREA_OFFSET
from smpl_extract.roland.s7xx.data_types import PATCH_DIRECTORY_ENTRY_SIZE
from smpl_extract.roland.s7xx.data_types import PATCH_PARAMETER_AREA_OFFSET
from smpl_extract.roland.s7xx.data_types import PATCH_PARAMETER_ENTRY_SIZE
from smpl_extract.roland.s7xx.directory_area import DirectoryEntryParser
from smpl_extract.roland.s7xx.fat import FatAreaParser
from smpl_extract.roland.s7xx.partial_entry import PartialEntryAdapter
from smpl_extract.roland.s7xx.partial_entry import PartialEntryConstruct
from smpl_extract.roland.s7xx.patch_entry import PatchEntryAdapter
from smpl_extract.roland.s7xx.patch_entry import PatchParamEntryParser
from smpl_extract.util.constructs import SafeListConstruct
from smpl_extract.util.constructs import UnsizedConstruct
from smpl_extract.util.constructs import pass_expression_deeper


# ---------------------------------------------------------------- original --
def OriginalPatchEntryConstruct(index_expr) -> Construct:
    new_index_expr = pass_expression_deeper(index_expr)

    result = UnsizedConstruct(Struct(
        ExprValidator(
            Computed(lambda this: new_index_expr(this)),
            lambda obj, ctx: 0 <= obj < MAX_NUM_PATCH
        ),
        "index"     / Computed(new_index_expr),
        "directory" / Pointer(
            lambda this: \
                (PATCH_DIRECTORY_ENTRY_SIZE*new_index_expr(this)) \
                    + PATCH_DIRECTORY_AREA_OFFSET,
            DirectoryEntryParser
        ),
        "parameter" / Pointer(
            lambda this: \
                (PATCH_PARAMETER_ENTRY_SIZE*new_index_expr(this)) \
                + PATCH_PARAMETER_AREA_OFFSET,
            PatchParamEntryParser
        ),
        "partial_entries" / Lazy(SafeListConstruct(
            lambda this: len(this.parameter.partial_list),
            PartialEntryAdapter(PartialEntryConstruct(lambda this:
                this.parameter.partial_list[this._index]
            ))
        ))
    ))
    return result
# -----------------------------------------------------------------------------

CL = dt.ROLAND_CLUSTER_SIZE
failures = []


def check(cond, what):
    if not cond:
        failures.append(what)
        print("MISMATCH:", what)


def outcome(fn):
    try:
        return ("ok", fn())
    except BaseException as e:  # noqa: BLE001
        return ("exc", type(e).__name__, str(e))


# ------------------------------------------------ independent image writer --
def field_offset(struct_decl, name):
    offset = 0
    for sc in struct_decl.subcons:
        if sc.name == name:
            return offset
        offset += sc.sizeof()
    raise KeyError(name)


AREAS = {
    "volume": (dt.VOLUME_DIRECTORY_AREA_OFFSET, dt.VOLUME_PARAMETER_AREA_OFFSET,
               dt.VOLUME_PARAMETER_ENTRY_SIZE, 0x40),
    "performance": (dt.PERFORMANCE_DIRECTORY_AREA_OFFSET, dt.PERFORMANCE_PARAMETER_AREA_OFFSET,
                    dt.PERFORMANCE_PARAMETER_ENTRY_SIZE, 0x41),
    "patch": (dt.PATCH_DIRECTORY_AREA_OFFSET, dt.PATCH_PARAMETER_AREA_OFFSET,
              dt.PATCH_PARAMETER_ENTRY_SIZE, 0x42),
    "partial": (dt.PARTIAL_DIRECTORY_AREA_OFFSET, dt.PARTIAL_PARAMETER_AREA_OFFSET,
                dt.PARTIAL_PARAMETER_ENTRY_SIZE, 0x43),
    "sample": (dt.SAMPLE_DIRECTORY_AREA_OFFSET, dt.SAMPLE_PARAMETER_AREA_OFFSET,
               dt.SAMPLE_PARAMETER_ENTRY_SIZE, 0x44),
}
PTR_FIELDS = {
    "volume": (volume_entry.VolumeParamEntryStruct, "performance_ptrs", 64),
    "performance": (performance_entry.PerformanceParamEntryStruct, "patch_list", 32),
    "patch": (patch_entry.PatchParamEntryStruct, "partial_list", dt.NUM_KEYS),
}
SAMPLE_SLOTS = [field_offset(partial_entry.PartialParamEntryStruct, "sample_%d" % i) for i in (1, 2, 3, 4)]


class ImageWriter:
    """Serialises a model of an S-7xx disk; shares no code with the parser."""

    def __init__(self, n_clusters, version=1):
        self.buf = bytearray(dt.DATA_FAT_OFFSET + (n_clusters + 2) * CL)
        self.fat = [0] * dt.FAT_NUM_ENTRIES
        self.version = version
        self.counts = dict.fromkeys(AREAS, 0)

    def _record(self, level, index, name, fat_entry=0, num_clusters=0):
        d_off, p_off, p_size, type_code = AREAS[level]
        rebase = 0x8000 if self.version == 2 else 0
        entry = name.encode("ascii").ljust(16)[:16] + struct.pack(
            "<BBHHHIHH", type_code, 0, rebase + index + 1, rebase + max(index - 1, 0), 0, 0,
            fat_entry, num_clusters)
        self.buf[d_off + 0x20 * index:d_off + 0x20 * (index + 1)] = entry
        base = p_off + p_size * index
        self.buf[base:base + p_size] = bytes(p_size)
        self.buf[base:base + 16] = name.encode("ascii").ljust(16)[:16]
        self.counts[level] = max(self.counts[level], index + 1)
        return base

    def add_container(self, level, index, name, pointers):
        base = self._record(level, index, name)
        decl, field, count = PTR_FIELDS[level]
        ptrs = list(pointers) + [-1] * (count - len(pointers))
        off = base + field_offset(decl, field)
        self.buf[off:off + 2 * count] = struct.pack("<%dh" % count, *ptrs)

    def add_partial(self, index, name, samples):
        base = self._record("partial", index, name)
        for slot, s in zip(SAMPLE_SLOTS, list(samples) + [-1] * (4 - len(samples))):
            struct.pack_into("<h", self.buf, base + slot, s)

    def add_sample(self, index, name, chain, cluster_top, points, loop_mode, freq_code, key=60):
        base = self._record("sample", index, name, fat_entry=chain[0], num_clusters=len(chain))
        for i, p in enumerate(points):
            struct.pack_into("<I", self.buf, base + 16 + 4 * i, (p << 8) | ((17 * i) & 0xff))
        struct.pack_into("<BBBBHHBB", self.buf, base + 36, loop_mode, 1, 0, 0, cluster_top,
                         len(chain) - cluster_top, freq_code, key)
        for a, b in zip(chain, chain[1:]):
            self.fat[a] = b
        self.fat[chain[-1]] = 0xfff8 + (index % 8)

    def put_cluster(self, cluster, data):
        off = dt.DATA_FAT_OFFSET + cluster * CL
        self.buf[off:off + CL] = data

    def finish(self):
        buf = self.buf
        struct.pack_into("<I", buf, 0, 1)
        buf[4:14] = b"S770 MR25A"
        buf[32:63] = b"S-770 Hard Disk Ver. 2.00".ljust(31)
        buf[64:95] = b"Copyright Roland".ljust(31)
        buf[256:272] = b"DEMO DISK".ljust(16)
        struct.pack_into("<IHHHHH", buf, 272, len(buf) // 512, self.counts["volume"],
                         self.counts["performance"], self.counts["patch"], self.counts["partial"],
                         self.counts["sample"])
        fat = list(self.fat)
        fat[0], fat[1] = dt.FAT_AREA_ID, 5
        fat[-2] = 0xffff if self.version == 1 else 0xfffe
        fat[-1] = 0xffff
        buf[dt.FAT_AREA_OFFSET:dt.FAT_AREA_OFFSET + 2 * dt.FAT_NUM_ENTRIES] = \
            struct.pack("<%dH" % dt.FAT_NUM_ENTRIES, *fat)
        return bytes(buf)


END_POINT = {0: 2, 1: 4, 2: 2, 3: 4, 4: 2, 5: 2, 6: 2}   # loop mode -> index into points
RATES = [48000, 44100, 24000, 22050, 30000, 15000]


def random_model(rng, version):
    """Model + serialised image + expected PCM per (volume, performance)."""
    n_samples = rng.randrange(3, 9)
    n_clusters = 4 * n_samples + 4
    w = ImageWriter(n_clusters, version)
    free = list(range(2, n_clusters + 2))
    rng.shuffle(free)
    sample_pcm = {}
    for s in range(n_samples):
        n = rng.randrange(1, 5)
        chain = [free.pop() for _ in range(n)]
        top = rng.randrange(0, n) if rng.random() < 0.5 else 0
        payload = []
        for c in chain:
            block = bytes(rng.getrandbits(8) for _ in range(64)) * (CL // 64)
            block = bytes([c & 0xff]) + block[1:]
            w.put_cluster(c, block)
            payload.append(block)
        data = b"".join(payload[top:])
        n_words = len(data) // 2
        last = n_words - 1
        mode = (s + rng.randrange(7)) % 7 if s >= 7 else s % 7
        start = rng.choice([0, 0, 1, 77, min(last, CL // 2)])
        if rng.random() < 0.4:
            ends = (last, last)             # data fills the last cluster exactly
        else:
            a = rng.randrange(start, last + 1)
            ends = (a, rng.randrange(a, last + 1))
        points = (start, rng.randrange(start, ends[0] + 1), ends[0],
                  rng.randrange(ends[0], ends[1] + 1), ends[1])
        w.add_sample(s, "S%02d" % s, chain, top, points, mode, rng.randrange(6), 36 + s)
        words = struct.unpack("<%dh" % n_words, data)[start:points[END_POINT[mode]] + 1]
        if mode in (5, 6):
            words = words[::-1]
        sample_pcm[s] = struct.pack("<%dh" % len(words), *words)
    n_partials = rng.randrange(2, 7)
    partials = {}
    for p in range(n_partials):
        partials[p] = [rng.randrange(n_samples) for _ in range(rng.randrange(1, 5))]
        w.add_partial(p, "PT%02d" % p, partials[p])
    n_patches = rng.randrange(1, 5)
    patches = {}
    for p in range(n_patches):
        patches[p] = [rng.randrange(n_partials) for _ in range(rng.randrange(1, 4))]
        w.add_container("patch", p, "PA%02d" % p, patches[p])
    n_perf = rng.randrange(1, 5)
    perfs = {}
    for p in range(n_perf):
        perfs[p] = [rng.randrange(n_patches) for _ in range(rng.randrange(1, 3))]
        w.add_container("performance", p, "PF%02d" % p, perfs[p])
    n_vol = rng.randrange(0, 3)
    vols = {}
    for v in range(n_vol):
        vols[v] = [rng.randrange(n_perf) for _ in range(rng.randrange(1, 3))]
        w.add_container("volume", v, "VOL%02d" % v, vols[v])

    def perf_pcm(p):
        blobs = []
        for patch in sorted(set(perfs[p])):
            seen = []
            for part in sorted(set(patches[patch])):
                for s in partials[part]:
                    if s not in seen:
                        seen.append(s)
            blobs += [sample_pcm[s] for s in seen]
        return sorted(blobs)
    expected = {}
    referenced = set()
    for v, plist in vols.items():
        for p in sorted(set(plist)):
            referenced.add(p)
            expected[("VOL%02d" % v, "PF%02d" % p)] = perf_pcm(p)
    orphan_volume = "_Orphan_perf" if n_vol else "All Performances"
    for p in range(n_perf):
        if p not in referenced:
            expected[(orphan_volume, "PF%02d" % p)] = perf_pcm(p)
    return w.finish(), expected


# ------------------------------------------------------------------ part 1 --
def shape(decl):
    inner = decl.subcon
    rows = [type(decl).__name__, type(inner).__name__, len(inner.subcons)]
    for sc in inner.subcons:
        chain = []
        node = sc
        while node is not None and len(chain) < 4:
            chain.append(type(node).__name__)
            node = getattr(node, "subcon", None)
        rows.append((sc.name, sc.docs, sc.parsed, tuple(chain), outcome(sc.sizeof)))
    rows.append(outcome(decl.sizeof))
    rows.append(outcome(inner.sizeof))
    return rows


def scenario_shape():
    out = []
    for expr in (3, lambda this: 4, None):
        L = patch_entry.PatchEntryConstruct(expr)
        O = OriginalPatchEntryConstruct(expr)
        check(shape(L) == shape(O), f"shape for {expr!r}: {shape(L)} vs {shape(O)}")
        for member in ("directory", "parameter"):
            lp = [s for s in L.subcon.subcons if s.name == member][0].subcon
            op = [s for s in O.subcon.subcons if s.name == member][0].subcon
            check(type(lp) is Pointer and type(op) is Pointer, f"{member} is a Pointer")
            check(lp.subcon is op.subcon and lp.stream is op.stream is None, f"{member} target parser")
            check(callable(lp.offset) and callable(op.offset), f"{member} offset callable")
    # the address functions, for many index values / contexts
    values = [0, 1, 2, 5, 1023, 1024, -1, -1024, 10 ** 6, True, 2.5, "ab", None, [1], (2,), 1 + 2j]
    for value in values:
        for how in ("const", "callable"):
            expr = value if how == "const" else (lambda this, v=value: v)
            L = patch_entry.PatchEntryConstruct(expr)
            O = OriginalPatchEntryConstruct(expr)
            for ctx in (Container(_=Container(_index=1)), Container(), None):
                for member in ("directory", "parameter"):
                    lp = [s for s in L.subcon.subcons if s.name == member][0].subcon
                    op = [s for s in O.subcon.subcons if s.name == member][0].subcon
                    a, b = outcome(lambda: lp.offset(ctx)), outcome(lambda: op.offset(ctx))
                    check(a == b and (a[0] != "ok" or type(a[1]) is type(b[1])),
                          f"address {member} {how} {value!r}: {a} vs {b}")
                    out.append((repr(value), how, member, a))
    return out


# ------------------------------------------------------------------ part 2 --
class Recorder(io.BytesIO):
    def __init__(self, data):
        super().__init__(data)
        self.log = []

    def seek(self, *a):
        r = super().seek(*a)
        self.log.append(("seek", a, r))
        return r

    def tell(self):
        r = super().tell()
        self.log.append(("tell", r))
        return r

    def read(self, *a):
        r = super().read(*a)
        self.log.append(("read", a, len(r)))
        return r


def plain(x, depth=0):
    if depth > 14:
        return "<deep>"
    if dataclasses.is_dataclass(x) and not isinstance(x, type):
        return (type(x).__name__, {f.name: plain(getattr(x, f.name), depth + 1)
                                   for f in dataclasses.fields(x) if f.name != "_parent"})
    if isinstance(x, dict):
        return {k: plain(v, depth + 1) for k, v in x.items()
                if not (isinstance(k, str) and k.startswith("_"))}
    if isinstance(x, (list, tuple)):
        return [plain(v, depth + 1) for v in x]
    if isinstance(x, io.IOBase):
        return ("<stream %s>" % type(x).__name__, getattr(x, "sector_list", None),
                getattr(x, "end_of_file", None))
    if callable(x):
        return "<callable>"
    return x


def parse_patch(factory, image, fat_table, spec, dir_version):
    kind, value = spec
    stream = Recorder(image)
    outer = Container(fat=fat_table, _elem_routines={})
    if dir_version is not None:
        outer["_dir_version"] = dir_version
    ctx = Container(_parsing=True, _building=False, _sizing=False, _params=Container(), _=outer, _index=2)
    if kind == "const":
        decl = PatchEntryAdapter(factory(value))
        run = lambda: [decl._parsereport(stream, ctx, "(demo)")]
    elif kind == "raw":
        decl = factory(value)
        run = lambda: [decl._parsereport(stream, ctx, "(demo)")]
    else:
        ptrs = value
        decl = SafeListConstruct(len(ptrs), PatchEntryAdapter(factory(lambda this: ptrs[this._index])))
        run = lambda: decl._parsereport(stream, ctx, "(demo)")
    try:
        entries = run()
    except Exception as e:  # noqa: BLE001
        return ("exc", type(e).__name__, str(e), list(stream.log))
    summary = [plain(e) for e in entries]
    children = []
    for e in entries:
        if kind == "raw":
            children.append(outcome(lambda: plain(e.partial_entries())))
        else:
            children.append(outcome(lambda: plain(e.partial_entries)))
            children.append(outcome(lambda: [[plain(s) for s in part.sample_entries]
                                             for part in e.partial_entries]))
    return ("ok", summary, children, list(stream.log))


def scenario_parse():
    out = []
    rng = random.Random(23)
    for version in (1, 2):
        image, _expected = random_model(rng, version)
        fat_stream = io.BytesIO(image)
        fat_stream.seek(dt.FAT_AREA_OFFSET)
        fat_table = FatAreaParser.parse_stream(fat_stream).fat
        specs = [("const", v) for v in (0, 1, 2, 3, 4, 7, MAX_NUM_PATCH - 1, MAX_NUM_PATCH, -1, 10 ** 7)]
        specs += [("const", None), ("const", "3"), ("const", 2.0), ("const", True)]
        specs += [("raw", 0), ("raw", 1), ("raw", 3), ("raw", -5), ("raw", MAX_NUM_PATCH)]
        specs += [("ptrs", [0, 1, 2, 3]), ("ptrs", [3, 3, MAX_NUM_PATCH, -1, 0]), ("ptrs", []),
                  ("ptrs", [rng.randrange(-2, 6) for _ in range(12)])]
        nonempty = 0
        for spec in specs:
            for dir_version in (None, 1, 2):
                a = parse_patch(patch_entry.PatchEntryConstruct, image, fat_table, spec, dir_version)
                b = parse_patch(OriginalPatchEntryConstruct, image, fat_table, spec, dir_version)
                check(a == b, f"parse v{version} {spec} dir_version={dir_version}")
                if a[0] == "ok" and a[1] and any(c[0] == "ok" and c[1] for c in a[2]):
                    nonempty += 1
                out.append(a)
        check(nonempty >= 12, f"v{version}: only {nonempty} parses reached partial entries")
    return out


# ------------------------------------------------------------------ part 3 --
def rebuild_image_struct():
    """RolandS7xxImageStruct builds its volume -> performance -> patch constructs
    at import time; rebuild it so that it picks up the factory that is currently
    installed in performance_entry."""
    old = image_mod.RolandS7xxImageStruct
    return Struct(
        *old.subcons[:-1],
        "volumes" / volume_entry.VolumeEntriesList(
            lambda this: this.id_area.num_volumes,
            lambda this: this.id_area.num_performances
        )
    )


CALLS = {"live": 0, "original": 0}


def counted(name, factory):
    def wrapper(index_expr):
        CALLS[name] += 1
        return factory(index_expr)
    return wrapper


def export_with(name, factory, image_path, out_dir):
    saved = (performance_entry.PatchEntryConstruct, image_mod.RolandS7xxImageStruct)
    performance_entry.PatchEntryConstruct = counted(name, factory)
    try:
        image_mod.RolandS7xxImageStruct = rebuild_image_struct()
        stdout = io.StringIO()
        with contextlib.redirect_stdout(stdout):
            res = outcome(lambda: export_samples_to_wav(image_path, out_dir))
    finally:
        performance_entry.PatchEntryConstruct, image_mod.RolandS7xxImageStruct = saved
    tree = {}
    for root, _dirs, files in os.walk(out_dir):
        for f in files:
            full = os.path.join(root, f)
            with open(full, "rb") as fh:
                tree[os.path.relpath(full, out_dir).replace(os.sep, "/")] = fh.read()
    return res, stdout.getvalue(), tree


def wav_payload(blob):
    pos = 12
    while pos + 8 <= len(blob):
        tag, size = blob[pos:pos + 4], struct.unpack("<I", blob[pos + 4:pos + 8])[0]
        if tag == b"data":
            return blob[pos + 8:pos + 8 + size]
        pos += 8 + size + (size & 1)
    return None


def scenario_images(workdir):
    n = 0
    rng = random.Random(2323)
    for trial in range(10):
        version = 1 + trial % 2
        image, expected = random_model(rng, version)
        image_path = os.path.join(workdir, "image%d.img" % trial)
        with open(image_path, "wb") as fh:
            fh.write(image)
        results = {}
        for name, factory in (("live", patch_entry.PatchEntryConstruct),
                              ("original", OriginalPatchEntryConstruct)):
            out_dir = os.path.join(workdir, "out_%s_%d" % (name, trial))
            os.mkdir(out_dir)
            results[name] = export_with(name, factory, image_path, out_dir)
        check(results["live"] == results["original"], f"image {trial}: export differs")
        res, stdout, tree = results["live"]
        check(res[0] == "ok", f"image {trial}: export failed {res}")
        check(sorted(l[len("Exported "):] for l in stdout.splitlines()) == sorted(tree),
              f"image {trial}: stdout lines vs files")
        got = {}
        for rel, blob in tree.items():
            parts = rel.split("/")
            got.setdefault((parts[0], parts[1]), []).append(wav_payload(blob))
        got = {k: sorted(v) for k, v in got.items()}
        check(got == expected, f"image {trial}: PCM differs from the writer's model "
                               f"({sorted(got)} vs {sorted(expected)})")
        n += len(tree)
    check(CALLS["live"] > 0 and CALLS["live"] == CALLS["original"], f"factory calls {CALLS}")
    return n


def main():
    workdir = tempfile.mkdtemp(prefix="r23_demo_")
    try:
        n1 = len(scenario_shape())
        n2 = len(scenario_parse())
        n3 = scenario_images(workdir)
    finally:
        shutil.rmtree(workdir, ignore_errors=True)

    # (4) precomputed addresses
    L = patch_entry.PatchEntryConstruct(5)
    d = [s for s in L.subcon.subcons if s.name == "directory"][0].subcon
    p = [s for s in L.subcon.subcons if s.name == "parameter"][0].subcon
    check(d.offset(Container()) == 0xa5800 + 5 * 0x20 == 0xa58a0, "directory address of patch 5")
    check(p.offset(Container()) == 0x155800 + 5 * 0x200 == 0x156200, "parameter address of patch 5")
    L = patch_entry.PatchEntryConstruct(lambda this: this.ptr)
    d = [s for s in L.subcon.subcons if s.name == "directory"][0].subcon
    check(d.offset(Container(_=Container(ptr=1023))) == 0xa5800 + 1023 * 0x20, "re-rooted index")
    check(performance_entry.PatchEntryConstruct is patch_entry.PatchEntryConstruct, "performance level wiring")

    print(f"{n1} address evaluations, {n2} record parses, {n3} exported files compared, "
          f"{len(failures)} mismatches")
    return 1 if failures else 0


if __name__ == "__main__":
    sys.exit(main())
