"""Equivalence demo for r4: Element.export_path (list prepend spelled with
insert(0, ...)) and ExportManager.make_output_path (temporaries inlined).

Chains of nodes whose `path`, `export_name` and `parent` properties log every
access are walked by the live code and by an inline copy of the ORIGINAL;
results, result types/identity, access logs and exceptions must agree.
Exit 0 on agreement.
"""
import itertools
import random
import sys

from smpl_extract.base import Element
from smpl_extract.structural import ExportManager


# ---- inline copy of the ORIGINAL implementations ------------------------
def orig_export_path(self):
    current_path = self.path
    if len(current_path) <= 0:
        return []
    new_path = []
    current_node = self
    while current_node is not None and len(current_node.path) > 0:
        new_path = [current_node.export_name] + new_path
        current_node = current_node.parent
    return new_path


def orig_make_output_path(self, sample):
    components = sample.export_path()
    result = "/".join(components)
    return result
# -------------------------------------------------------------------------


class Plain(Element):
    """Uses the stock Element properties."""
    def __init__(self, name, path, parent, export_name=None):
        super().__init__(path, parent)
        self.name = name
        self._export_name = export_name

    def get_info(self):
        raise NotImplementedError


class Spy(Element):
    """Logs every property access so that the ORDER of reads is compared."""
    log = None

    def __init__(self, ident, path, parent, export_name, boom=False):
        self.ident = ident
        self._p = path
        self._par = parent
        self._en = export_name
        self._boom = boom

    @property
    def path(self):
        Spy.log.append(("path", self.ident))
        return self._p

    @property
    def parent(self):
        Spy.log.append(("parent", self.ident))
        return self._par

    @property
    def export_name(self):
        Spy.log.append(("export_name", self.ident))
        if self._boom:
            raise LookupError("no export name for %s" % self.ident)
        return self._en

    def get_info(self):
        raise NotImplementedError


def outcome(f, *args):
    try:
        r = f(*args)
        return ("ok", type(r).__name__, r)
    except Exception as e:  # noqa: BLE001
        return ("exc", type(e).__name__, str(e))


def build_spy_chain(spec):
    """spec: list of (path, export_name, boom) from the root down to the leaf."""
    parent = None
    node = None
    for k, (path, en, boom) in enumerate(spec):
        node = Spy(k, path, parent, en, boom)
        parent = node
    return node


def build_plain_chain(spec):
    parent = None
    node = None
    acc = []
    for name, en, rooted in spec:
        acc = acc + [name] if rooted else []
        node = Plain(name, list(acc), parent, en)
        parent = node
    return node


def main():
    bad = 0
    total = 0
    manager = ExportManager("/nonexistent-destination")

    def compare(make_leaf, label):
        nonlocal bad, total
        for live, orig, what in (
            (lambda n: n.export_path(), orig_export_path, "export_path"),
            (manager.make_output_path, lambda n: orig_make_output_path(manager, n), "make_output_path"),
        ):
            total += 1
            Spy.log = []
            leaf = make_leaf()
            a = outcome(live, leaf)
            log_a = Spy.log
            Spy.log = []
            leaf = make_leaf()
            b = outcome(orig, leaf)
            log_b = Spy.log
            if a != b or log_a != log_b:
                bad += 1
                if bad < 10:
                    print("MISMATCH", what, label)
                    print("  live:", a, log_a)
                    print("  orig:", b, log_b)

    paths = [[], ["x"], ["x", "y"], (), ("t",), "", "s"]
    names = ["a", "", "a/b", "..", "a (2)", None, 7]
    rng = random.Random(64)

    # exhaustive for depth 1..2, random for deeper chains
    level_options = [(p, n, False) for p in paths for n in names]
    level_options += [(["x"], "boom", True), ([], "boom", True)]
    for depth in (1, 2):
        for spec in itertools.product(level_options, repeat=depth):
            compare(lambda s=spec: build_spy_chain(list(s)), ("spy", spec))
    for _ in range(6000):
        depth = rng.randint(3, 7)
        spec = [rng.choice(level_options) for _ in range(depth)]
        compare(lambda s=spec: build_spy_chain(s), ("spy", spec))

    # stock Element properties (the ones real images use)
    plain_names = ["VOL", "PRG 1", "a", "a (2)", "x L", "..", "", "a/b"]
    for _ in range(4000):
        depth = rng.randint(1, 6)
        spec = [
            (rng.choice(plain_names), rng.choice([None, "E1", "E 2", ""]), rng.random() > 0.15)
            for _ in range(depth)
        ]
        compare(lambda s=spec: build_plain_chain(s), ("plain", spec))

    # a fresh list must be returned each time and never alias the node's path
    leaf = build_plain_chain([("A", None, True), ("B", None, True)])
    r1, r2 = leaf.export_path(), leaf.export_path()
    if r1 is r2 or r1 is leaf.path or r1 != ["A", "B"]:
        bad += 1
        print("aliasing / value problem", r1, r2)
    root = build_plain_chain([("A", None, False)])
    e1, e2 = root.export_path(), root.export_path()
    if e1 != [] or e1 is e2 or e1 is root.path:
        bad += 1
        print("empty result problem", e1, e2)

    print(f"r4: {total} comparisons, {bad} mismatches")
    return 1 if bad else 0


if __name__ == "__main__":
    sys.exit(main())
