"""Equivalence demo for r21: the four line regexes of smpl_extract/cuesheet.py
(_TRACK_LINE_REGEX, _TITLE_LINE_REGEX, _INDEX_LINE_REGEX, _FILE_LINE_REGEX).
_INDEX_LINE_REGEX is what turns `INDEX nn MM:SS:FF` into the integers that
CueSheetIndex.get_total_audio_frames converts to a sector count.

The ORIGINAL declarations are pasted below and compared with the live ones:

  A. static: flags, number of groups, groupindex; the parsed pattern trees
     (re._parser) must be equal when that private module is available.
  B. matching: for tens of thousands of generated and mutated lines, match(),
     fullmatch() and search() must give the same span, groups() and regs.
  C. parsing: whole cue sheets (regular and damaged) are parsed by
     parse_cue_sheet once with the live regexes and once with the original
     ones patched into the module; the resulting dataclasses, the remaining
     lines or the exception must agree, as must the sector count of every
     parsed index.
  D. end to end: cue/bin pairs are exported to WAV; the PCM must tile the
     bin at (MM*60+SS)*75+FF sectors of 2352 bytes (independent values).
Exit 0 on full agreement, 1 otherwise.
"""
import contextlib
import io
import os
import random
import re
import shutil
import sys
import tempfile

from smpl_extract import actions
from smpl_extract import cuesheet


# ---- ORIGINAL declarations (verbatim) ------------------------------------
ORIGINAL = {
    "_TRACK_LINE_REGEX": re.compile(r"\s*TRACK\s+(\d+)\s+([A-z\d\/]+)", flags=re.I),
    "_TITLE_LINE_REGEX": re.compile(r"\s*TITLE\s+\"(.*?)\"", flags=re.I),
    "_INDEX_LINE_REGEX": re.compile(r"\s*INDEX\s+(\d+)\s+(\d+):(\d+):(\d+)", flags=re.I),
    "_FILE_LINE_REGEX": re.compile(r"\s*FILE\s+\"(.*?)\"\s+BINARY", flags=re.I),
}
LIVE = {name: getattr(cuesheet, name) for name in ORIGINAL}


def static_cases():
    failures = 0
    count = 0
    try:
        from re import _parser as parser
    except ImportError:  # pragma: no cover
        parser = None
    for name, original in ORIGINAL.items():
        live = LIVE[name]
        checks = [
            ("type", type(original), type(live)),
            ("flags", original.flags, live.flags),
            ("groups", original.groups, live.groups),
            ("groupindex", dict(original.groupindex), dict(live.groupindex)),
        ]
        if parser is not None:
            checks.append((
                "tree",
                repr(parser.parse(original.pattern, original.flags).data),
                repr(parser.parse(live.pattern, live.flags).data),
            ))
        for what, a, b in checks:
            count += 1
            if a != b:
                failures += 1
                print("MISMATCH (static)", name, what, a, b)
    return count, failures


# ---------------------------------------------------------------- matching
SEEDS = [
    "", " ", "\n", "\t\t", "TRACK", "TRACK 01 AUDIO", "  TRACK 01 AUDIO\n",
    "track 1 audio", "TrAcK 99 MODE1/2352", "TRACK 02 MODE2/2336 extra",
    "TRACK 01 A_z^`[]\\", "TRACK 01 A\\z", "TRACK 01 /", "TRACK 01 \\/",
    "TRACK 1", "TRACK x AUDIO", "TRACK01 AUDIO", "TRACK\t01\tAUDIO",
    "TRACK ١٢ AUDIO", "TRACK 01 été", "TRACK 01 K",
    "ſRACK 01 AUDIO", "TRACK 01 AUDIO", "TİTLE \"x\"",
    "TITLE \"\"", "TITLE \"a\"", "  title \"a \"b\" c\"", "TITLE 'a'",
    "TITLE \"unterminated", "TITLE\"x\"", "TITLE \t \"x\" tail",
    "TITLE \\\"x\\\"", "TITLE \"multi\nline\"", "TıTLE \"x\"",
    "INDEX 01 00:00:00", "  INDEX 01 00:02:00\n", "index 0 1:2:3",
    "INDEX 01 00:00", "INDEX 01 00:00:00:00", "INDEX 01 00 : 00 : 00",
    "INDEX 01 99:59:74", "INDEX 001 100:60:75", "INDEX 01 00;00;00",
    "INDEX 01\t00:00:00", "INDEX  01  00:00:00", "INDEX01 00:00:00",
    "INDEX 01 ٣٤:٥٦:٧٨", "INDEX -1 00:00:00",
    "ıNDEX 01 00:00:00", "İNDEX 01 00:00:00", "INDEX 01 0:0:0x",
    "FILE \"a.bin\" BINARY", "file \"a.bin\" binary", "FILE \"\" BINARY",
    "FILE \"a b.bin\"  BINARY\n", "FILE \"a.bin\" WAVE", "FILE a.bin BINARY",
    "FILE \"a\" \"b\" BINARY", "FILE \"a.bin\"BINARY", "FILE \"a.bin\" BINARYX",
    "  FILE \"x\" BINARY FILE \"y\" BINARY", "FıLE \"a\" BINARY",
    "FILE \"a\" BİNARY", "FILE \"a\" bınary", "FILE \"a/b\\c\" BINARY",
    "REM comment", "PERFORMER \"x\"", "    FLAGS DCP", "PREGAP 00:02:00",
]
ALPHABET = list(" \t\n\"'\\/:;01239AZaz_^`[]-.") + [
    "TRACK", "TITLE", "INDEX", "FILE", "BINARY", "AUDIO", "MODE1/2352",
    "track", "index", "ı", "İ", "ſ", "K", "١",
    " ", " ", "\x0b", "\x0c", "\x1c", "\x85", "00:00:00", "\r",
]


def mutate(rng, text):
    text = list(text)
    for _ in range(rng.randint(1, 3)):
        action = rng.randint(0, 3)
        position = rng.randint(0, len(text))
        if action == 0:
            text[position:position] = list(rng.choice(ALPHABET))
        elif action == 1 and text:
            del text[min(position, len(text) - 1)]
        elif action == 2 and text:
            position = min(position, len(text) - 1)
            text[position] = text[position].swapcase()
        else:
            text[position:position] = list(rng.choice(ALPHABET))
    return "".join(text)


def describe_match(match):
    if match is None:
        return None
    return (match.span(), match.groups(), match.regs, match.lastindex,
            match.group(0))


def matching_cases():
    rng = random.Random(0xC0321)
    texts = list(SEEDS)
    for seed in SEEDS:
        for _ in range(150):
            texts.append(mutate(rng, seed))
    for _ in range(4000):
        texts.append("".join(rng.choice(ALPHABET)
                             for _ in range(rng.randint(0, 9))))
    for _ in range(3000):
        texts.append("%sINDEX%s%d%s%d:%d:%d%s" % (
            rng.choice(["", " ", "\t ", "    "]),
            rng.choice([" ", "  ", "\t"]), rng.randint(0, 120),
            rng.choice([" ", "  ", "\t"]), rng.randint(0, 120),
            rng.randint(0, 99), rng.randint(0, 99),
            rng.choice(["", "\n", " x", ":1"])))
    failures = 0
    count = 0
    for text in texts:
        for name, original in ORIGINAL.items():
            live = LIVE[name]
            for method in ("match", "fullmatch", "search"):
                expected = describe_match(getattr(original, method)(text))
                actual = describe_match(getattr(live, method)(text))
                count += 1
                if expected != actual:
                    failures += 1
                    if failures < 10:
                        print("MISMATCH (matching)", name, method, repr(text))
                        print("   expected", expected)
                        print("   actual  ", actual)
    return count, failures


# ----------------------------------------------------------------- parsing
@contextlib.contextmanager
def patched_regexes(table):
    for name, regex in table.items():
        setattr(cuesheet, name, regex)
    try:
        yield
    finally:
        for name, regex in LIVE.items():
            setattr(cuesheet, name, regex)


def msf(total):
    return "%02d:%02d:%02d" % (total // 4500, (total // 75) % 60, total % 75)


def make_cue(rng, n_sectors, audio_only=True):
    keyword = lambda word: rng.choice([word, word.lower(), word.title()])
    lines = ["%s \"disc.bin\" %s\n" % (keyword("FILE"), keyword("BINARY"))]
    position = rng.randint(0, 2)
    for t in range(rng.randint(1, 6)):
        mode = "AUDIO" if audio_only else rng.choice(
            ["AUDIO", "audio", "MODE1/2352", "MODE2/2336"])
        lines.append("  %s %02d %s\n" % (keyword("TRACK"), t + 1, mode))
        if rng.random() < 0.6:
            lines.append("    %s \"%s\"\n" % (
                keyword("TITLE"),
                rng.choice(["Intro", "a \"b\" c", "", "x/y", "Loop L"])))
        if rng.random() < 0.3:
            lines.append("    FLAGS DCP\n")
        for k in range(rng.choice([1, 1, 2, 3])):
            lines.append("    %s %02d %s\n" % (keyword("INDEX"), k,
                                               msf(position)))
            position += rng.choice([1, 1, 2, 3])
        if position >= n_sectors:
            break
    return lines


def run_parse(table, lines):
    lines = list(lines)
    with patched_regexes(table):
        try:
            cue = cuesheet.parse_cue_sheet(lines)
        except BaseException as e:
            return ("EXC", type(e).__name__, str(e), lines)
    sectors = [[i.get_total_audio_frames() for i in t.indices]
               for t in cue.tracks]
    return ("OK", repr(cue), sectors, lines)


def parsing_cases():
    rng = random.Random(0x321)
    sheets = []
    for _ in range(600):
        sheets.append(make_cue(rng, rng.randint(1, 30),
                               audio_only=rng.random() < 0.5))
    for _ in range(1500):
        sheet = list(rng.choice(sheets[:600]))
        for _ in range(rng.randint(1, 4)):
            action = rng.randint(0, 3)
            position = rng.randrange(len(sheet))
            if action == 0:
                sheet[position] = mutate(rng, sheet[position])
            elif action == 1:
                del sheet[position]
                if not sheet:
                    sheet = ["\n"]
            elif action == 2:
                sheet.insert(position, rng.choice(SEEDS))
            else:
                sheet.insert(position, "\n")
        sheets.append(sheet)
    failures = 0
    count = 0
    for sheet in sheets:
        expected = run_parse(ORIGINAL, sheet)
        actual = run_parse(LIVE, sheet)
        count += 1
        if expected != actual:
            failures += 1
            if failures < 10:
                print("MISMATCH (parsing)", sheet)
                print("   expected", expected)
                print("   actual  ", actual)
    return count, failures


# ------------------------------------------------------------------ export
def read_tree(root):
    found = {}
    for directory, _dirs, files in os.walk(root):
        for name in files:
            path = os.path.join(directory, name)
            with open(path, "rb") as f:
                found[os.path.relpath(path, root)] = f.read()
    return found


def export(table, cue_path, destination):
    os.mkdir(destination)
    captured = io.StringIO()
    with patched_regexes(table), contextlib.redirect_stdout(captured):
        actions.export_samples_to_wav(cue_path, destination)
    return read_tree(destination), captured.getvalue()


def export_cases():
    rng = random.Random(0x2121)
    failures = 0
    count = 0
    base = tempfile.mkdtemp(prefix="r21demo_")
    try:
        for number in range(60):
            n_sectors = rng.randint(1, 14)
            tail = rng.choice([0, 0, 1, 2, 3, 5, 1177, 2351])
            data = bytes(rng.getrandbits(8)
                         for _ in range(n_sectors*2352 + tail))
            lines = make_cue(rng, n_sectors)
            directory = os.path.join(base, "case%03d" % number)
            os.mkdir(directory)
            with open(os.path.join(directory, "disc.bin"), "wb") as f:
                f.write(data)
            cue_path = os.path.join(directory, "disc.cue")
            with open(cue_path, "w", encoding="ascii") as f:
                f.writelines(lines)
            expected = export(ORIGINAL, cue_path,
                              os.path.join(directory, "out_a"))
            actual = export(LIVE, cue_path, os.path.join(directory, "out_b"))
            count += 1
            if expected != actual:
                failures += 1
                print("MISMATCH (export)", number)
                continue
            # independent expected values, straight from the cue text
            starts = []
            in_track = False
            for line in lines:
                words = line.split()
                if words[0].upper() == "TRACK":
                    in_track = True
                elif words[0].upper() == "INDEX" and in_track:
                    mm, ss, ff = (int(x) for x in words[2].split(":"))
                    starts.append(((mm*60 + ss)*75 + ff)*2352)
                    in_track = False
            if starts[-1] > len(data):
                continue
            ends = starts[1:] + [len(data) - (len(data) - starts[-1]) % 4]
            exported = [line[len("Exported "):]
                        for line in actual[1].splitlines()
                        if line.startswith("Exported ")]
            count += 1
            if len(exported) != len(starts) \
                    or sorted(exported) != sorted(actual[0]):
                failures += 1
                print("MISMATCH (file list)", number, exported)
                continue
            joined = b""
            for name, start, end in zip(exported, starts, ends):
                blob = actual[0][name]
                if blob[44:] != data[start:end]:
                    failures += 1
                    print("MISMATCH (tiling)", number, name)
                    break
                joined += blob[44:]
            else:
                if joined != data[starts[0]:ends[-1]]:
                    failures += 1
                    print("MISMATCH (concatenation)", number)
    finally:
        shutil.rmtree(base, ignore_errors=True)
    return count, failures


def main():
    total = 0
    failed = 0
    for part in (static_cases, matching_cases, parsing_cases, export_cases):
        count, failures = part()
        print(part.__name__, "cases:", count, "failures:", failures)
        total += count
        failed += failures
    for name, regex in LIVE.items():
        if getattr(cuesheet, name) is not regex:
            print("module not restored", name)
            failed += 1
    print("total cases:", total, "failures:", failed)
    return 1 if failed else 0


if __name__ == "__main__":
    sys.exit(main())
