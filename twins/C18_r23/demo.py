"""r23 evidence: smpl_extract/akai/data_types.py, parse_akai_tune_cents and
build_akai_tune_cents (tuning byte <-> cents) behave exactly like the
original implementations pasted below.  Compared bit-for-bit (type + repr,
floats additionally via float.hex): every integer -1000..1000, all signed and
unsigned byte values, bools, a fine grid of floats, sampled random floats,
nan / inf / signed zero, Fraction, Decimal, complex, numpy scalars and arrays,
non-numbers, an operator-recording object (order of arithmetic calls), the
byte -> cents -> byte round trip over all 256 signed bytes, and the
AkaiTuneCents(Int8sl) construct parsing / building every byte.
Exit 0 = all agree, 1 = difference.
"""
import decimal
import fractions
import random
import sys
import warnings

import numpy
from construct import Int8sl

import smpl_extract.akai.data_types as live

# numpy.int8(-128) - (-128) and the like warn about overflow in both versions
warnings.simplefilter("ignore")


# ---------------------------------------------------------------- ORIGINAL --
def orig_parse_akai_tune_cents(obj)->float:
    # line equation: y = m(x-x1) + y1
    M = 100/255
    X1 = -128
    Y1 = -50

    x: int = obj
    if x == 0:
        return 0
    result = M*(x - X1) + Y1
    return result


def orig_build_akai_tune_cents(obj)->int:
    # line equation: y = m(x-x1) + y1
    M = 255/100
    X1 = -50
    Y1 = -128

    x: float = obj
    if x == 0:
        return 0
    result = round(M*(x - X1)) + Y1
    return result
# ------------------------------------------------------------ END ORIGINAL --


failures = []
checks = 0


def exact(value):
    if isinstance(value, float):
        return ("float", type(value).__name__, value.hex()
                if value == value and abs(value) != float("inf")
                else repr(value))
    if isinstance(value, numpy.ndarray):
        return ("ndarray", str(value.dtype), value.shape, value.tobytes())
    return (type(value).__name__, repr(value))


def outcome(fn, *args):
    try:
        value = fn(*args)
    except BaseException as exc:  # noqa
        return ("raise", type(exc).__name__, tuple(map(str, exc.args)))
    return ("ok", exact(value))


def compare(label, new_fn, old_fn, *args):
    global checks
    checks += 1
    got = outcome(new_fn, *args)
    want = outcome(old_fn, *args)
    if got != want:
        failures.append((label, args, got, want))


def both(label, value):
    compare("parse " + label, live.parse_akai_tune_cents,
            orig_parse_akai_tune_cents, value)
    compare("build " + label, live.build_akai_tune_cents,
            orig_build_akai_tune_cents, value)


# 1. integers, bools
for value in range(-1000, 1001):
    both("int", value)
for value in (True, False, 10**18, -10**18, 10**400, -10**400):
    both("big/bool", value)

# 2. floats: a fine grid, random samples, specials
for step in range(-40000, 40001):
    both("grid", step / 200.0)
rng = random.Random(0x5EED23)
for _ in range(20000):
    both("uniform", rng.uniform(-300.0, 300.0))
for _ in range(2000):
    both("wide", rng.uniform(-1e12, 1e12))
    both("tiny", rng.uniform(-1e-9, 1e-9))
for value in (0.0, -0.0, float("nan"), float("inf"), float("-inf"), 1e308,
              -1e308, 5e-324, -50.0, -128.0, 49.5, -49.5, 0.5, -0.5,
              49.80392156862746, -49.80392156862745):
    both("special", value)

# 3. other numeric types and non-numbers
OTHERS = [
    fractions.Fraction(1, 3), fractions.Fraction(0), fractions.Fraction(-50),
    decimal.Decimal("1.5"), decimal.Decimal(0), 1 + 2j, 0j,
    numpy.int8(-128), numpy.int8(127), numpy.int8(0), numpy.uint8(200),
    numpy.int16(300), numpy.int64(-7), numpy.float32(12.5),
    numpy.float64(-33.25), numpy.float64(0.0), numpy.bool_(True),
    numpy.array([1, 2, 3]), numpy.array([0]), numpy.array([5]),
    numpy.array([]), numpy.array(0), numpy.array(4.5),
    None, "12", "", b"\x01", [1], [], (), {}, object, ...,
]
for value in OTHERS:
    both("other %s" % type(value).__name__, value)


# 4. order of the arithmetic calls made on the argument
class Recorder:
    def __init__(self, log, tag="x", zero=False):
        self.log = log
        self.tag = tag
        self.zero = zero

    def __eq__(self, other):
        self.log.append((self.tag, "eq", repr(other)))
        return self.zero

    __hash__ = None

    def _binary(name):
        def method(self, other):
            self.log.append((self.tag, name, repr(other)))
            return Recorder(self.log, "%s.%s" % (self.tag, name))
        return method

    __sub__ = _binary("sub")
    __rsub__ = _binary("rsub")
    __mul__ = _binary("mul")
    __rmul__ = _binary("rmul")
    __add__ = _binary("add")
    __radd__ = _binary("radd")

    def __round__(self, ndigits=None):
        self.log.append((self.tag, "round", repr(ndigits)))
        return Recorder(self.log, self.tag + ".round")


for zero in (False, True):
    for new_fn, old_fn in ((live.parse_akai_tune_cents,
                            orig_parse_akai_tune_cents),
                           (live.build_akai_tune_cents,
                            orig_build_akai_tune_cents)):
        checks += 1
        log_new, log_old = [], []
        got = new_fn(Recorder(log_new, zero=zero))
        want = old_fn(Recorder(log_old, zero=zero))
        if log_new != log_old or getattr(got, "tag", got) != \
                getattr(want, "tag", want):
            failures.append(("recorder", zero, log_new, log_old))

# 5. the promised round trip: byte -> cents -> byte, all 256 signed bytes
for byte in range(-128, 128):
    checks += 1
    cents_new = live.parse_akai_tune_cents(byte)
    cents_old = orig_parse_akai_tune_cents(byte)
    back_new = live.build_akai_tune_cents(cents_new)
    back_old = orig_build_akai_tune_cents(cents_old)
    if exact(cents_new) != exact(cents_old) or \
            exact(back_new) != exact(back_old) or back_new != byte:
        failures.append(("round trip", byte, cents_new, cents_old,
                         back_new, back_old))

# 6. through the construct adapter, every byte
adapter = live.AkaiTuneCents(Int8sl)
for raw in range(256):
    checks += 1
    data = bytes([raw])
    parsed = adapter.parse(data)
    signed = raw - 256 if raw > 127 else raw
    if exact(parsed) != exact(orig_parse_akai_tune_cents(signed)):
        failures.append(("adapter parse", raw, parsed))
    if adapter.build(parsed) != data:
        failures.append(("adapter build", raw, parsed))
for cents in (-60, -50.2, 50.2, 60, 1000.0, "x"):
    checks += 1
    got = outcome(adapter.build, cents)
    want = outcome(lambda c: Int8sl.build(orig_build_akai_tune_cents(c)),
                   cents)
    if got[0] != want[0] or (got[0] == "ok" and got != want):
        failures.append(("adapter build range", cents, got, want))

if failures:
    print("r23 demo: %d of %d checks differ" % (len(failures), checks))
    for failure in failures[:20]:
        print("  ", failure)
    sys.exit(1)
print("r23 demo: %d checks agree" % checks)
sys.exit(0)
