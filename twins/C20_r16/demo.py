"""Equivalence evidence for r16: the loop-point parser of the Roland sample
parameter record (smpl_extract/roland/s7xx/sample_entry.py:
SampleParamLoopPointStruct and SampleParamLoopPointAdapter._decode, used five
times by SampleParamEntryStruct).

The refactoring (a) turns the two `Computed(lambda this: ...)` expressions for
the fine / address parts into named module-level functions (`& 255` spelled
`& 0xFF`), and (b) builds the SampleParamLoopPoint result from
`get_common_field_args(SampleParamLoopPoint, container)` expanded as keywords
instead of two positional attribute reads.

Inline copies of the ORIGINAL declarations (loop-point struct, adapter, parser
and the whole SampleParamEntryStruct around them) are compared with the live
ones:
  1. the loop-point parser on edge values and 20000 random 32-bit words, on
     truncated input, and when building (not implemented in both);
  2. `_decode` called directly with objects that log the order of attribute
     reads, lack attributes, raise, or carry non-int values;
  3. SampleParamEntryStruct on 3000 random 48-byte records (every field value,
     type and str(), key order, stream position), truncated records, and the
     text `ls` prints for a SampleFile built from the parsed record.
Exit 0 = all agree, 1 = a difference was found.
"""
import io
import random
import struct
import sys
from dataclasses import dataclass
from typing import cast

from construct.core import Adapter
from construct.core import Bitwise
from construct.core import Computed
from construct.core import Int16ul
from construct.core import Int32ul
from construct.core import Int8ul
from construct.core import Nibble
from construct.core import PaddedString
from construct.core import Padding
from construct.core import Struct
from construct.lib.containers import Container

from smpl_extract.roland.s7xx.data_types import RolandLoopMode
from smpl_extract.roland.s7xx.data_types import RolandSampleMode
from smpl_extract.roland.s7xx.sample_entry import RolandMidiNote
from smpl_extract.roland.s7xx.sample_entry import SampleParamCommon
from smpl_extract.roland.s7xx.sample_entry import SampleParamEntryStruct
from smpl_extract.roland.s7xx.sample_entry import SampleParamLoopPoint
from smpl_extract.roland.s7xx.sample_entry import SampleParamLoopPointAdapter
from smpl_extract.roland.s7xx.sample_entry import SampleParamLoopPointParser
from smpl_extract.roland.s7xx.sample_entry import SampleParamLoopPointStruct
from smpl_extract.roland.s7xx.sample_entry import SampleParamOptionsSection
from smpl_extract.roland.s7xx.sample_file import SampleFile
from smpl_extract.util.constructs import MappingDefault
from smpl_extract.util.dataclass import get_common_field_args


# --------------------------------------------------------------------------
# inline copy of the ORIGINAL declarations
# --------------------------------------------------------------------------
OrigSampleParamLoopPointStruct = Struct(
    "raw_value" / Int32ul,
    "fine"      / Computed(lambda this: (this.raw_value & 255)),
    "address"   / Computed(lambda this: (this.raw_value >> 8)),
)
@dataclass 
class OrigSampleParamLoopPointContainer:
    raw_value:  int = 0
    fine:       int = 0
    address:    int = 0


class OrigSampleParamLoopPointAdapter(Adapter):


    def _decode(self, obj, context, path):
        del context, path  # unused
        container = cast(OrigSampleParamLoopPointContainer, obj)
        result = SampleParamLoopPoint(
            container.fine,
            container.address
        )
        return result


    def _encode(self, obj, context, path):
        raise NotImplementedError


OrigSampleParamLoopPointParser = OrigSampleParamLoopPointAdapter(
    OrigSampleParamLoopPointStruct
)


OrigSampleParamEntryStruct = Struct(
    "name"                  / PaddedString(16, encoding="ascii"),
    "index"                 / Computed(lambda this: this._index),
    "start_sample"          / OrigSampleParamLoopPointParser,
    "sustain_loop_start"    / OrigSampleParamLoopPointParser,
    "sustain_loop_end"      / OrigSampleParamLoopPointParser,
    "release_loop_start"    / OrigSampleParamLoopPointParser,
    "release_loop_end"      / OrigSampleParamLoopPointParser,
    "loop_mode"             / MappingDefault(
        Int8ul,
        {
            RolandLoopMode.FORWARD_END:         0,
            RolandLoopMode.FORWARD_RELEASE:     1,
            RolandLoopMode.ONESHOT:             2,
            RolandLoopMode.FORWARD_ONESHOT:     3,
            RolandLoopMode.ALTERNATE:           4,
            RolandLoopMode.REVERSE_ONESHOT:     5,
            RolandLoopMode.REVERSE_LOOP:        6
        }, 
        (RolandLoopMode.FORWARD_END, 0)
    ),
    "sustain_loop_enable"   / Int8ul,
    "sustain_loop_tune"     / Int8ul,
    "release_loop_tune"     / Int8ul,
    "cluster_top"           / Int16ul,
    "num_clusters"          / Int16ul,
    "sample_options"        / Bitwise(Struct(
        "sample_mode"       /\
            MappingDefault(
                Nibble,
                {
                    RolandSampleMode.MONO:      0,
                    RolandSampleMode.STEREO:    1
                },
                (RolandSampleMode.MONO, 0)
            ),
        "sampling_frequency" /\
            MappingDefault(
                Nibble,
                {
                    48000: 0,
                    44100: 1,
                    24000: 2,
                    22050: 3,
                    30000: 4,
                    15000: 5
                }
            )
    )),
    "original_key"          / RolandMidiNote(Int8ul),
    Padding(2)
)


failures = 0
checked = 0
LOG = []


def fail(*msg):
    global failures
    failures += 1
    if failures <= 5:
        print("MISMATCH", *[repr(m)[:400] for m in msg])


def freeze(value):
    if isinstance(value, dict):
        return ("dict", type(value).__name__,
                [(k, freeze(v)) for k, v in value.items() if k != "_io"])
    if isinstance(value, (list, tuple)):
        return (type(value).__name__, [freeze(v) for v in value])
    return (type(value).__module__, type(value).__name__, repr(value), str(value))


def observe(func, *args, **kwargs):
    del LOG[:]
    try:
        res = func(*args, **kwargs)
        out = ("ok", freeze(res))
    except Exception as e:  # noqa
        out = ("exc", type(e).__name__, str(e))
    return out, list(LOG)


rng = random.Random(16)

# --------------------------------------------------------------------------
# 1. the loop-point parser
# --------------------------------------------------------------------------
words = [0, 1, 254, 255, 256, 257, 0xFFFF, 0x10000, 0x00FFFFFF, 0x01000000,
         0x7FFFFFFF, 0x80000000, 0xFFFFFF00, 0xFFFFFFFF, 0x12345678, 0xFF0000FF]
words += [1 << k for k in range(32)] + [(1 << k) - 1 for k in range(33)]
words += [rng.randrange(1 << 32) for _ in range(20000)]
for word in words:
    blob = struct.pack("<I", word) + b"\xAA"
    checked += 1
    sa, sb = io.BytesIO(blob), io.BytesIO(blob)
    ra = observe(SampleParamLoopPointParser.parse_stream, sa)
    rb = observe(OrigSampleParamLoopPointParser.parse_stream, sb)
    if ra != rb or sa.tell() != sb.tell() or sa.tell() != 4:
        fail("loop point", word, ra, rb)
    point = SampleParamLoopPointParser.parse(blob)
    if (type(point) is not SampleParamLoopPoint or point.fine != word % 256
            or point.address != word // 256
            or point != OrigSampleParamLoopPointParser.parse(blob)):
        fail("loop point value", word, point)
    # the raw struct (before the adapter)
    ra = observe(SampleParamLoopPointStruct.parse, blob)
    rb = observe(OrigSampleParamLoopPointStruct.parse, blob)
    if ra != rb:
        fail("loop point struct", word, ra, rb)
for length in range(0, 4):
    checked += 1
    ra = observe(SampleParamLoopPointParser.parse, b"\x01\x02\x03"[:length])
    rb = observe(OrigSampleParamLoopPointParser.parse, b"\x01\x02\x03"[:length])
    if ra != rb or ra[0][0] != "exc":
        fail("truncated loop point", length, ra, rb)
for value in (SampleParamLoopPoint(1, 2), dict(raw_value=5, fine=5, address=0),
              None, 7):
    checked += 1
    ra = observe(SampleParamLoopPointParser.build, value)
    rb = observe(OrigSampleParamLoopPointParser.build, value)
    if ra != rb or ra[0][0] != "exc":
        fail("loop point build", value, ra, rb)
checked += 1
if observe(SampleParamLoopPointParser.sizeof) != observe(OrigSampleParamLoopPointParser.sizeof):
    fail("sizeof")


# --------------------------------------------------------------------------
# 2. _decode called directly
# --------------------------------------------------------------------------
class Spy:
    """logs attribute reads; attributes given as a dict, Exception values raise"""
    def __init__(self, **attrs):
        object.__setattr__(self, "_attrs", attrs)

    def __getattr__(self, name):
        LOG.append(("read", name))
        attrs = object.__getattribute__(self, "_attrs")
        if name not in attrs:
            raise AttributeError(name)
        value = attrs[name]
        if isinstance(value, Exception):
            raise value
        return value


live_adapter = SampleParamLoopPointAdapter(SampleParamLoopPointStruct)
orig_adapter = OrigSampleParamLoopPointAdapter(OrigSampleParamLoopPointStruct)
objects = [
    lambda: Spy(raw_value=0x1234, fine=0x34, address=0x12),
    lambda: Spy(fine=1, address=2),
    lambda: Spy(fine=1),
    lambda: Spy(address=2),
    lambda: Spy(),
    lambda: Spy(fine=ZeroDivisionError("fine"), address=2),
    lambda: Spy(fine=1, address=LookupError("address")),
    lambda: Spy(fine=ZeroDivisionError("fine"), address=LookupError("address")),
    lambda: Spy(fine="text", address=None),
    lambda: Spy(fine=[1], address={2: 3}, extra=9),
    lambda: Container(raw_value=513, fine=1, address=2),
    lambda: Container(fine=1),
    lambda: Container(),
    lambda: SampleParamLoopPoint(7, 8),
    lambda: OrigSampleParamLoopPointContainer(9, 10, 11),
    lambda: None,
    lambda: 5,
    lambda: {"fine": 1, "address": 2},
]
for make in objects:
    for ctx, path in ((Container(), "(p)"), (None, None)):
        checked += 1
        ra = observe(live_adapter._decode, make(), ctx, path)
        rb = observe(orig_adapter._decode, make(), ctx, path)
        if ra != rb:
            fail("_decode direct", make(), ra, rb)


# --------------------------------------------------------------------------
# 3. the whole parameter record
# --------------------------------------------------------------------------
def make_record(rng, wild=False):
    name = bytes(rng.randrange(0x20, 0x7F) for _ in range(rng.randrange(0, 17)))
    name = name.ljust(16, b"\x00")
    points = b"".join(struct.pack("<I", rng.choice(
        [0, 255, 256, 0xFFFFFFFF, rng.randrange(1 << 32), rng.randrange(1 << 16)]))
        for _ in range(5))
    loop_mode = rng.randrange(0, 256) if wild else rng.randrange(0, 7)
    options = rng.randrange(0, 256) if wild else \
        (rng.randrange(0, 2) << 4) | rng.randrange(0, 6)
    rest = struct.pack("<BBBBHHBBH", loop_mode, rng.randrange(256),
                       rng.randrange(256), rng.randrange(256),
                       rng.randrange(65536), rng.randrange(65536),
                       options, rng.randrange(0, 128 if not wild else 256),
                       rng.randrange(65536))
    return name + points + rest


def listing(parsed, name):
    """what `ls` prints for the sample made from this record"""
    sample = SampleFile(
        **get_common_field_args(SampleParamCommon, parsed),
        **get_common_field_args(SampleParamOptionsSection, parsed.sample_options),
        name=name
    )
    return sample.get_info().to_string()


def observe_record(con, blob, index):
    stream = io.BytesIO(blob)
    try:
        parsed = con.parse_stream(stream, _index=index)
    except Exception as e:  # noqa
        return ("exc", type(e).__name__, str(e), stream.tell())
    try:
        text = listing(parsed, "S%d" % index)
    except Exception as e:  # noqa
        text = ("exc", type(e).__name__, str(e))
    return ("ok", freeze(parsed), stream.tell(), text)


records_ok = 0
assert len(make_record(rng)) == 48
for n in range(3000):
    blob = make_record(rng, wild=(n % 4 == 0)) + b"\x55\x66"
    if n % 20 == 0:
        blob = blob[:rng.randrange(0, 48)]
    checked += 1
    a = observe_record(SampleParamEntryStruct, blob, n)
    b = observe_record(OrigSampleParamEntryStruct, blob, n)
    if a != b:
        fail("record", blob.hex(), a, b)
    if a[0] == "ok":
        records_ok += 1
        if a[2] != 48 or not isinstance(a[3], str) or "address" not in a[3]:
            fail("unexpected record result", a[2], a[3])
if records_ok < 2000:
    fail("too few records parsed", records_ok)
checked += 1
if observe(SampleParamEntryStruct.sizeof) != observe(OrigSampleParamEntryStruct.sizeof):
    fail("record sizeof")

print("r16 demo: %d comparisons (%d records ok), %d failures"
      % (checked, records_ok, failures))
sys.exit(1 if failures else 0)
