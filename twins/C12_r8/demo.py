"""Equivalence demo for r8: smpl_extract.data_streams.system_byte_order.

The module source is executed afresh under several (patched) values of
sys.byteorder and the resulting module constant is compared with the
ORIGINAL expression evaluated in the same freshly loaded module.  Then the
real import is checked, including what smpl_extract.transcoder sees and the
byte-swap steps make_transcoder selects from it.
Exit 0 when everything agrees, 1 otherwise.
"""
from io import BytesIO
import importlib.util
import itertools
import os
import sys
from unittest.mock import patch

import numpy as np

import smpl_extract.data_streams as DS
import smpl_extract.transcoder as T


def system_byte_order_ORIG(Endianess, byteorder):
    # the original module-level expression, parametrised on its two inputs
    return Endianess.BIG if byteorder == "big" \
        else Endianess.LITTLE


def load_fresh(byteorder, tag):
    name = f"_ds_fresh_{tag}"
    spec = importlib.util.spec_from_file_location(name, DS.__file__)
    mod = importlib.util.module_from_spec(spec)
    sys.modules[name] = mod
    try:
        with patch.object(sys, "byteorder", byteorder):
            spec.loader.exec_module(mod)
    finally:
        del sys.modules[name]
    return mod


def expected_steps(host, orders, chans, dest_order):
    """Step names the ORIGINAL make_transcoder logic selects."""
    swaps = [o != host for o, c in zip(orders, chans) for _ in range(c)]
    names = []
    if any(swaps):
        names.append("swap_input_endianess" if all(swaps)
                     else "swap_input_endianess_multi")
    if dest_order != host:
        names.append("swap_output_endianess")
    return names


def main():
    bad = 0
    n = 0

    # 1. fresh loads under patched sys.byteorder (real and unexpected values)
    for i, bo in enumerate(["little", "big", "", "BIG", "Big", "middle",
                            "big ", "LITTLE", "pdp"]):
        mod = load_fresh(bo, i)
        got = mod.system_byte_order
        exp = system_byte_order_ORIG(mod.Endianess, bo)
        n += 1
        ok = (got is exp and type(got) is mod.Endianess
              and int(got) == int(exp) and got.name == exp.name)
        # enum values themselves must be untouched
        ok = ok and (int(mod.Endianess.LITTLE), int(mod.Endianess.BIG)) == (1, 2)
        ok = ok and list(mod.Endianess) == [mod.Endianess.LITTLE, mod.Endianess.BIG]
        # a DataStream of the fresh module still computes frame sizes
        enc = mod.StreamEncoding(got, 2, 3, True)
        ok = ok and mod.DataStream(BytesIO(b""), enc).frame_size == 6
        if not ok:
            bad += 1
            print("MISMATCH fresh load", repr(bo), got, exp)

    # 2. the really imported modules
    exp = system_byte_order_ORIG(DS.Endianess, sys.byteorder)
    n += 1
    if not (DS.system_byte_order is exp and T.system_byte_order is exp):
        bad += 1
        print("MISMATCH real import", DS.system_byte_order,
              T.system_byte_order, exp)
    # numpy agrees with the constant about what "native" means
    native_is_little = np.dtype("<i2").isnative
    n += 1
    if (DS.system_byte_order is DS.Endianess.LITTLE) != native_is_little:
        bad += 1
        print("MISMATCH numpy native order")

    # 3. step selection and output bytes driven by the (unpatched) constant
    ends = (DS.Endianess.LITTLE, DS.Endianess.BIG)
    host = exp
    rng = np.random.RandomState(3)
    for nstreams in (1, 2, 3):
        for chans in itertools.product((1, 2), repeat=nstreams):
            for orders in itertools.product(ends, repeat=nstreams):
                for dest_order in ends:
                    width = 2
                    frames = 5
                    specs = [DS.StreamEncoding(o, width, c, True)
                             for o, c in zip(orders, chans)]
                    dest = DS.StreamEncoding(dest_order, width, sum(chans), True)
                    srcs = [rng.randint(-30000, 30000, size=(frames, c))
                            for c in chans]
                    payloads = [
                        a.astype(">i2" if o is DS.Endianess.BIG else "<i2")
                        .tobytes() for a, o in zip(srcs, orders)]
                    streams = [DS.DataStream(BytesIO(p), e)
                               for p, e in zip(payloads, specs)]
                    tc = T.make_transcoder(streams, dest)
                    if isinstance(tc, T.PassthroughTranscoder):
                        # single stream already in the destination encoding
                        names = want_names = None
                    else:
                        names = [p[0] for p in tc.pipeline.processes]
                        want_names = expected_steps(
                            host, orders, chans, dest_order)
                    out = b"".join(tc)
                    want = np.hstack(srcs).astype(
                        ">i2" if dest_order is DS.Endianess.BIG else "<i2"
                    ).tobytes()
                    n += 1
                    if names != want_names or out != want:
                        bad += 1
                        if bad <= 5:
                            print("MISMATCH pipeline", chans, orders,
                                  dest_order, names)

    print(f"{n} cases, {bad} mismatches")
    return 1 if bad else 0


if __name__ == "__main__":
    sys.exit(main())
