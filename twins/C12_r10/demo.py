"""Equivalence demo for r10: smpl_extract.transcoder.encode_frame.

encode_frame is compared with an inline copy of the ORIGINAL on many channel
lists (1..6 channels, equal and unequal lengths including 0, every integer
dtype of width 1/2/4/8, native and byte-swapped data, non-contiguous views)
and destination dtypes; outcomes (bytes or exception type + message) must be
identical and the caller's list and arrays must be left untouched.  Then the
whole transcoder is run end to end with the original patched in and compared
byte for byte.
Exit 0 when everything agrees, 1 otherwise.
"""
from io import BytesIO
import itertools
import sys
from unittest.mock import patch

import numpy as np

import smpl_extract.transcoder as T
from smpl_extract.data_streams import DataStream
from smpl_extract.data_streams import Endianess
from smpl_extract.data_streams import StreamEncoding


def encode_frame_ORIG(channels, dest_dtype):
    channels = T.pad_channels(channels)
    channels = list(x.astype(dest_dtype) for x in channels)
    result = np.vstack(channels).reshape((-1,), order='F').tobytes()
    return result


def outcome(f, *args):
    try:
        r = f(*args)
    except BaseException as e:  # noqa
        return ("exc", type(e), str(e))
    return ("ok", type(r), r)


def run_all(f_encode, spec, dest, block):
    with patch.object(T, "encode_frame", f_encode):
        def gnfp(stream, target_size=block):
            return max(1, target_size // stream.frame_size)
        with patch.object(T, "get_num_frames_possible", gnfp):
            streams = [DataStream(BytesIO(d), e) for d, e in spec]
            tr = T.make_transcoder(streams, dest)
            return type(tr).__name__, [bytes(b) for b in tr]


def main():
    bad = 0
    n = 0
    new = T.encode_frame
    rng = np.random.default_rng(1210)

    src_dtypes = [np.dtype(x) for x in (
        "int8", "uint8", "int16", "uint16", "int32", "uint32", "int64",
        ">i2", ">i4", "float32")]
    dst_dtypes = [np.dtype(x) for x in (
        "int8", "uint8", "int16", "uint16", "int32", "int64", ">i2", "<i4")]
    length_sets = [
        [0], [1], [5], [0, 0], [3, 3], [3, 5], [5, 3], [0, 4], [4, 0],
        [1, 1, 1], [7, 2, 9], [0, 0, 3], [16, 16, 16, 16],
        [1, 2, 3, 4, 5, 6], [128, 127], [1000, 1000, 999],
    ]

    # 1. unit level
    for lens in length_sets:
        for sdt in src_dtypes:
            for ddt in dst_dtypes:
                chans = []
                for ln in lens:
                    if sdt.kind == "f":
                        a = rng.normal(0, 1000, ln).astype(sdt)
                    else:
                        info = np.iinfo(sdt)
                        a = rng.integers(
                            info.min, info.max, ln, dtype=np.int64,
                            endpoint=True).astype(sdt) \
                            if sdt.itemsize < 8 else rng.integers(
                                info.min, info.max, ln, dtype=np.int64)
                    chans.append(a)
                a_in = [c.copy() for c in chans]
                b_in = [c.copy() for c in chans]
                with np.errstate(all="ignore"):
                    oa = outcome(encode_frame_ORIG, a_in, ddt)
                    ob = outcome(new, b_in, ddt)
                n += 1
                if oa != ob:
                    bad += 1
                    print("MISMATCH", lens, sdt, ddt)
                # inputs untouched
                for c, x, y in zip(chans, a_in, b_in):
                    if not (np.array_equal(c, x) and np.array_equal(c, y)):
                        bad += 1
                        print("INPUT MUTATED", lens, sdt, ddt)
                if len(b_in) != len(chans):
                    bad += 1
                    print("LIST MUTATED", lens, sdt, ddt)

    # non-contiguous views (what decode_frame hands over for interleaved data)
    for nch in (2, 3, 4):
        for frames in (1, 2, 9, 64):
            base = rng.integers(-30000, 30000, nch * frames).astype("int16")
            views = list(base.reshape((-1, nch)).T)
            views2 = list(base.copy().reshape((-1, nch)).T)
            for ddt in dst_dtypes:
                oa = outcome(encode_frame_ORIG, views, ddt)
                ob = outcome(new, views2, ddt)
                n += 1
                if oa != ob:
                    bad += 1
                    print("VIEW MISMATCH", nch, frames, ddt)

    # error paths: empty list, not arrays, 2-d members of unequal width,
    # bad dtype
    weird = [
        ([], np.dtype("int16")),
        ([[1, 2, 3]], np.dtype("int16")),
        ([np.zeros((2, 3), "int16"), np.zeros((2, 4), "int16")],
         np.dtype("int16")),
        ([np.zeros((2, 3), "int16"), np.zeros((2, 3), "int16")],
         np.dtype("int16")),
        ([np.zeros(3, "int16")], "no-such-dtype"),
        ([np.zeros(3, "int16")], None),
        (None, np.dtype("int16")),
        ([np.zeros(3, "int16"), None], np.dtype("int16")),
    ]
    for chans, ddt in weird:
        oa = outcome(encode_frame_ORIG, chans, ddt)
        ob = outcome(new, chans, ddt)
        n += 1
        if oa != ob:
            bad += 1
            print("WEIRD MISMATCH", chans, ddt, oa, ob)

    # 2. end to end
    orders = [Endianess.LITTLE, Endianess.BIG]
    for width in (1, 2, 4):
        for chans in ([1], [2], [3], [1, 1], [2, 1], [1, 2, 3]):
            total = sum(chans)
            for ords in itertools.islice(
                    itertools.product(orders, repeat=len(chans)), 4):
                for extra in (0, 1):
                    for frames in (0, 1, 7, 33):
                        spec = []
                        for i, (c, o) in enumerate(zip(chans, ords)):
                            nbytes = (frames + 2 * i) * c * width + extra
                            data = rng.integers(
                                0, 256, nbytes, dtype=np.uint8).tobytes()
                            spec.append((data, StreamEncoding(
                                o, width, c, True)))
                        for dorder in orders:
                            dest = StreamEncoding(dorder, width, total, True)
                            for block in (1, 16, 4096):
                                ra = run_all(encode_frame_ORIG, spec, dest,
                                             block)
                                rb = run_all(new, spec, dest, block)
                                n += 1
                                if ra != rb:
                                    bad += 1
                                    print("E2E MISMATCH", width, chans, ords,
                                          extra, frames, dorder, block)

    print(f"{n} cases, {bad} mismatches")
    return 1 if bad else 0


if __name__ == "__main__":
    sys.exit(main())
