"""Equivalence demo for r6: ExportManager.export_samples (per-sample body
extracted into a private method) versus an inline copy of the ORIGINAL.

export_wav is replaced by a recorder (for both implementations) so no real
streams are needed; directories are really created under a temp dir.
Exit 0 when every scenario agrees, 1 otherwise.
"""
import contextlib
import io
import os
import random
import shutil
import sys
import tempfile

import smpl_extract.structural as structural
from smpl_extract.generalized.sample import Sample
from smpl_extract.structural import ExportManager


def original_export_samples(self):
    # verbatim copy of the original body; export_wav resolved through the
    # module global exactly as the original did
    export_wav = structural.export_wav
    samples = self.samples
    for f_routine in self.routines.values():
        samples = f_routine(samples)

    for sample in samples:
        inner_path = self.make_output_path(sample)
        total_path = os.path.join(self.output_directory, inner_path) + ".wav"
        dir_name = os.path.dirname(total_path)
        if not os.path.exists(dir_name):
            os.makedirs(dir_name)
        export_wav(sample, total_path)
        print(f"Exported {inner_path}.wav")

    self.samples.clear()
    return


class Boom(Exception):
    pass


def make_sample(path, export_name=None):
    s = Sample(name=path[-1] if path else "", _path=list(path))
    if export_name is not None:
        s._export_name = export_name
    return s


class Node:
    """minimal parent element for export_path()"""
    def __init__(self, path, export_name, parent=None):
        self.path = path
        self.export_name = export_name
        self.parent = parent


def build_scenarios():
    rng = random.Random(6)
    names = ["a", "b c", "KICK-L", "x.y", "0", "deep", "A B#1", "dup"]
    scenarios = []
    for n in range(0, 6):
        for rep in range(12):
            specs = []
            for _ in range(n):
                depth = rng.randint(0, 3)
                dirs = [rng.choice(["vol", "part A", "p.q", "Z"]) for _ in range(depth)]
                leaf = rng.choice(names)
                specs.append((dirs, leaf))
            routine_kind = rng.choice(["none", "identity", "reverse", "drop_first", "two", "raise"])
            fail_at = rng.choice([None, None, None, 0, 1, 2])
            outdir_kind = rng.choice(["abs", "abs_nested", "rel", "empty", "trailing"])
            scenarios.append((specs, routine_kind, fail_at, outdir_kind))
    # hand written edge cases
    scenarios.append(([([], "lonely")], "none", None, "empty"))       # path [x] -> inner "x", dirname ""
    scenarios.append(([([], "lonely")], "none", None, "abs"))
    scenarios.append(([(["d"], "s"), (["d"], "s")], "identity", None, "abs_nested"))  # same file twice
    scenarios.append(([(["d"], "s")], "raise", None, "abs"))
    scenarios.append(([(["d"], "s"), (["e"], "t")], "none", 0, "abs"))
    return scenarios


def samples_from_specs(specs, empty_path_first):
    out = []
    for dirs, leaf in specs:
        parent = None
        path = []
        for d in dirs:
            path = path + [d]
            parent = Node(list(path), d.upper(), parent)
        s = make_sample(path + [leaf], export_name=leaf + "_x")
        s._parent = parent
        out.append(s)
    if empty_path_first and out:
        out[0]._path = []          # export_path() == [] -> inner path ""
    return out


def run(impl, scenario, empty_path_first):
    specs, routine_kind, fail_at, outdir_kind = scenario
    root = tempfile.mkdtemp(prefix="r6demo")
    cwd = os.getcwd()
    os.chdir(root)
    events = []
    try:
        outdir = {
            "abs": os.path.join(root, "out"),
            "abs_nested": os.path.join(root, "o1", "o2"),
            "rel": "relout",
            "empty": "",
            "trailing": os.path.join(root, "tr") + "/",
        }[outdir_kind]

        samples = samples_from_specs(specs, empty_path_first)
        index = {id(s): i for i, s in enumerate(samples)}

        def rec_routine(tag, fn):
            def routine(lst):
                events.append(("routine", tag, [index.get(id(s)) for s in lst]))
                return fn(lst)
            return routine

        def boom(lst):
            raise Boom("routine")

        routines = {
            "none": {},
            "identity": {"i": rec_routine("i", lambda l: l)},
            "reverse": {"r": rec_routine("r", lambda l: list(reversed(l)))},
            "drop_first": {"d": rec_routine("d", lambda l: l[1:])},
            "two": {"r": rec_routine("r", lambda l: list(reversed(l))),
                    "d": rec_routine("d", lambda l: l[1:])},
            "raise": {"i": rec_routine("i", lambda l: l), "b": rec_routine("b", boom)},
        }[routine_kind]

        calls = [0]

        def fake_export_wav(sample, path):
            k = calls[0]
            calls[0] += 1
            events.append(("export_wav", index.get(id(sample)), os.path.relpath(path, root),
                           os.path.isdir(os.path.dirname(path) or ".")))
            if fail_at is not None and k == fail_at:
                raise Boom("export %d" % k)
            with open(path, "ab") as fh:
                fh.write(b"x")

        manager = ExportManager(outdir, routines)
        for s in samples:
            manager.add_sample(s)
        manager.level = ("lvl",)
        samples_list_obj = manager.samples

        saved = structural.export_wav
        structural.export_wav = fake_export_wav
        buf = io.StringIO()
        try:
            with contextlib.redirect_stdout(buf):
                try:
                    ret = impl(manager)
                    outcome = ("ok", ret)
                except Exception as e:
                    outcome = ("exc", type(e).__name__, str(e).replace(root, "<root>"))
        finally:
            structural.export_wav = saved

        tree = []
        for dp, dns, fns in os.walk(root):
            dns.sort()
            for fn in sorted(fns):
                full = os.path.join(dp, fn)
                tree.append((os.path.relpath(full, root), os.path.getsize(full)))
            if not dns and not fns:
                tree.append((os.path.relpath(dp, root), None))
        state = (len(manager.samples), manager.samples is samples_list_obj, manager.level,
                 manager.output_directory.replace(root, "<root>"))
        return (outcome, events, buf.getvalue(), sorted(tree), state)
    finally:
        os.chdir(cwd)
        shutil.rmtree(root, ignore_errors=True)


def main():
    bad = 0
    total = 0
    for scenario in build_scenarios():
        for empty_path_first in (False, True):
            total += 1
            got = run(ExportManager.export_samples, scenario, empty_path_first)
            exp = run(original_export_samples, scenario, empty_path_first)
            if got != exp:
                bad += 1
                if bad < 4:
                    print("MISMATCH", scenario, "\n got", got, "\n exp", exp)
    # non-vacuity: one fixed expectation
    fixed = run(ExportManager.export_samples, ([(["d"], "s")], "none", None, "abs"), False)
    if fixed[0] != ("ok", None) or fixed[2] != "Exported D/s_x.wav\n" \
            or fixed[3] != [(os.path.join("out", "D", "s_x.wav"), 1)] or fixed[4][0] != 0:
        print("SANITY FAILED", fixed)
        bad += 1
    print("scenarios:", total, "mismatches:", bad)
    return 1 if bad else 0


if __name__ == "__main__":
    sys.exit(main())
