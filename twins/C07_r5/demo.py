"""Equivalence demo for r5: add_to_sector_links (smpl_extract/util/fat.py).

Compares the module's add_to_sector_links against an inline copy of the
ORIGINAL implementation: same return value, same exception (type, message,
type of __cause__), same final contents of the sector_links table (partial
effects before an error included).
"""
import itertools
import random
import sys

from smpl_extract.util.fat import InvalidFatDefinition
from smpl_extract.util.fat import SectorLink
from smpl_extract.util.fat import add_to_sector_links


def original_add_to_sector_links(links_arg, sector_links):
    links_iter = iter(links_arg)
    prev_link = next(links_iter)
    try:
        for link in links_iter:
            sector_links[prev_link] = SectorLink(next=link, end=False)
            prev_link = link
        sector_links[prev_link] = SectorLink(next=0, end=True)

    except IndexError as e:
        raise InvalidFatDefinition(
            f"FAT entry {prev_link} exceeds total "
            f"number of FAT entries {len(sector_links)}."
        ) from e


def observe(fn, links, table_size, prefill):
    if prefill:
        table = [SectorLink(next=7 + k, end=False) for k in range(table_size)]
    else:
        table = [SectorLink()] * table_size
    links_copy = list(links)
    try:
        ret = fn(links_copy, table)
        outcome = ("ret", ret)
    except BaseException as exc:  # noqa - we compare everything
        outcome = (
            "exc", type(exc).__name__, str(exc),
            type(exc.__cause__).__name__, str(exc.__cause__),
        )
    state = [(type(x).__name__, x.next, x.end) for x in table]
    return outcome, state, links_copy


def main():
    checked = 0
    bad = 0

    def check(links, table_size, prefill):
        nonlocal checked, bad
        a = observe(original_add_to_sector_links, links, table_size, prefill)
        b = observe(add_to_sector_links, links, table_size, prefill)
        checked += 1
        if a != b:
            bad += 1
            if bad < 10:
                print("MISMATCH", links, table_size, prefill, a, b)

    # exhaustive: small tables, every list of up to 4 links drawn from
    # in-range, negative (python wrap-around), and out-of-range values
    for table_size in range(0, 5):
        values = list(range(-table_size - 2, table_size + 3))
        for length in range(0, 5):
            if len(values) ** length > 200000:
                continue
            for links in itertools.product(values, repeat=length):
                check(links, table_size, False)
    for table_size in range(0, 4):
        values = list(range(-table_size - 1, table_size + 2))
        for length in range(0, 4):
            for links in itertools.product(values, repeat=length):
                check(links, table_size, True)

    # odd index types: bool indexes, strings / None / floats raise TypeError
    for links in ([True, False], ["a"], [0, "a"], [None], [1.0], [0, 1.5, 2],
                  [2 ** 70], [0, -2 ** 70], [0, 1, 2 ** 70, 1]):
        for table_size in (0, 1, 3):
            check(links, table_size, False)
            check(links, table_size, True)

    # random tables of real size
    rng = random.Random(707)
    for _ in range(3000):
        table_size = rng.choice([1, 2, 16, 100, 11386])
        length = rng.randint(0, 40)
        links = [
            rng.choice([
                rng.randrange(table_size),
                rng.randrange(table_size),
                rng.randrange(table_size),
                table_size,
                table_size + rng.randrange(5),
                -rng.randrange(1, table_size + 3),
            ])
            for _ in range(length)
        ]
        check(links, table_size, False)

    print(f"checked {checked} cases, {bad} mismatches")
    return 1 if bad else 0


if __name__ == "__main__":
    sys.exit(main())
