"""r16 evidence: ScaleDegree.__str__ / ScaleDegree.from_string
(smpl_extract/midi.py) behave exactly like the original enum (pasted below)
for every member, every single character, padded / multi-character / non-text
inputs, and MidiNote text still round-trips for all 12 names x octaves 0-9.
Exit 0 = all agree, 1 = difference.
"""
import enum
import sys

import smpl_extract.midi as live


# ---------------------------------------------------------------- ORIGINAL --
class ScaleDegree(enum.IntEnum):
    # (kept under its own name: error messages quote the class qualname)
    A = 0
    B = 1
    C = 2
    D = 3
    E = 4
    F = 5
    G = 6
    def __str__(self):
        return chr(self.value + ord('A'))
    @classmethod
    def from_string(cls, input: str):
        input = input.upper().strip()
        return cls(ord(input) - ord('A'))


OrigScaleDegree = ScaleDegree
# ------------------------------------------------------------ END ORIGINAL --


def describe(value):
    if isinstance(value, enum.Enum):
        return ("member", type(value).__name__, value.name, int(value))
    return (type(value).__name__, repr(value))


def outcome(fn, *args, **kwargs):
    try:
        value = fn(*args, **kwargs)
    except BaseException as exc:  # noqa: B902
        return ("exc", type(exc), str(exc))
    return ("ok", describe(value))


failures = []
checked = 0


def compare(label, new_fn, old_fn, *args, **kwargs):
    global checked
    checked += 1
    got = outcome(new_fn, *args, **kwargs)
    want = outcome(old_fn, *args, **kwargs)
    if got != want:
        failures.append((label, args, got, want))


TEXT_VIEWS = [
    ("str", lambda m: str(m)),
    ("dunder", lambda m: m.__str__()),
    ("unbound", lambda m: type(m).__str__(m)),
    ("format", lambda m: format(m)),
    ("format d", lambda m: format(m, "d")),
    ("format >3", lambda m: format(m, ">3")),
    ("fstring", lambda m: f"{m}|{m!s}|{m!r}|{m:02d}"),
    ("percent", lambda m: "%s|%r|%d" % (m, m, m)),
    ("repr", lambda m: repr(m)),
    ("name", lambda m: m.name),
    ("value", lambda m: m.value),
    ("int", lambda m: int(m) + 1),
    ("in list", lambda m: str([m])),
]


def main():
    New, Old = live.ScaleDegree, OrigScaleDegree

    # 1. the enum itself is unchanged
    if [(m.name, m.value) for m in New] != [(m.name, m.value) for m in Old]:
        failures.append(("members", list(New), list(Old), None))
    if list(New.__members__) != list(Old.__members__):
        failures.append(("__members__", None, None, None))

    # 2. text form of every member, however it is requested
    for index in range(7):
        for view_name, view in TEXT_VIEWS:
            compare(("text", view_name), lambda i: view(New(i)),
                    lambda i: view(Old(i)), index)
        expected = "ABCDEFG"[index]
        if str(New(index)) != expected:
            failures.append(("letter", index, str(New(index)), expected))
        if New.from_string(str(New(index))) is not New(index):
            failures.append(("roundtrip", index, None, None))
    for bad_index in (-1, 7, 8, 100, None, "A", 2.0, 2.5, True):
        compare("lookup", lambda v: str(New(v)), lambda v: str(Old(v)), bad_index)

    # 3. from_string on every single character (incl. ones whose upper() is
    #    longer or which strip() removes) and with surrounding blanks
    for code in range(0x3000):
        ch = chr(code)
        compare("char", New.from_string, Old.from_string, ch)
        if code < 0x180:
            compare("char pad", New.from_string, Old.from_string, " " + ch + "\t\n")
            compare("char twice", New.from_string, Old.from_string, ch + ch)
    for ch in "ßﬁŉẞ\U0001d400Ａａ":
        compare("char special", New.from_string, Old.from_string, ch)

    # 4. odd inputs
    odd = ["", " ", "  ", "ab", "a b", " g ", "\tc\n", "H", "h", "@", "[", "`",
           "A#", "#", "0", None, 0, 2, 2.5, b"a", b"A", b" g ", b"", b"ab", b"h",
           bytearray(b"c"), ["a"], ("a",), {"a"}, object(), New.C, Old.C, True]
    for item in odd:
        compare("odd", New.from_string, Old.from_string, item)
    compare("kw", New.from_string, Old.from_string, input="e")
    compare("kw wrong", New.from_string, Old.from_string, letter="e")
    compare("no arg", New.from_string, Old.from_string)

    # 5. a str subclass with its own upper()/strip() is driven the same way
    class Chatty(str):
        log = []
        def upper(self):
            Chatty.log.append("upper")
            return Chatty(str.upper(self))
        def strip(self, *args):
            Chatty.log.append("strip")
            return Chatty(str.strip(self, *args))

    logs = []
    for cls in (New, Old):
        del Chatty.log[:]
        result = outcome(cls.from_string, Chatty(" f "))
        logs.append((result, tuple(Chatty.log)))
    if logs[0] != logs[1]:
        failures.append(("chatty", logs[0], logs[1], None))

    # 6. MidiNote text: all 12 names x octaves 0-9 (plus B#, E#) parse to the
    #    expected note and print back to the same text
    names = ["A", "A#", "B", "C", "C#", "D", "D#", "E", "F", "F#", "G", "G#",
             "B#", "E#"]
    for name in names:
        for octave in range(10):
            text = f"{name}{octave}"
            for variant in (text, text.lower(), "  " + text + " "):
                note = live.MidiNote.from_string(variant)
                want = (name[0], name.endswith("#"), octave)
                got = (note.scale_degree.name, note.is_sharp, note.octave)
                if got != want or note.to_string() != text or str(note) != text \
                        or repr(note) != f"MidiNote({text})":
                    failures.append(("note text", variant, got, note.to_string()))
    for byte in range(256):
        note = live.MidiNote.from_midi_byte(byte)
        expected = ["A", "A#", "B", "C", "C#", "D", "D#", "E", "F", "F#", "G",
                    "G#"][(byte - 21) % 12] + str((byte - 21) // 12)
        if note.to_string() != expected or note.to_midi_byte() != byte:
            failures.append(("byte text", byte, note.to_string(), expected))
        if 0 <= note.octave <= 9 and live.MidiNote.from_string(expected) != note:
            failures.append(("byte text roundtrip", byte, expected, None))

    print(f"r16: {checked} comparisons, {len(failures)} differences")
    for failure in failures[:10]:
        print("DIFF", failure)
    return 1 if failures else 0


if __name__ == "__main__":
    sys.exit(main())
