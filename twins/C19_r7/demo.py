"""Equivalence demo for the FirFilter.__init__ / reset_state refactoring
(fir.pyx: the zero history is built by one extracted helper).

The .pyx is shipped pre-built, so the edited text has no runtime effect on
the compiled module.  To still exercise the *edited text*, the pure-Python
`class FirFilter` / `class ChickSysCustomFirFilter` blocks are cut out of
smpl_extract/filters/fir.pyx and exec'd (the cdef convolution kernel, which
is not importable, is reached through the compiled class' convolve_valid).
The result is compared against
  (a) an inline copy of the ORIGINAL class text, and
  (b) the compiled classes.
Exit 0 when everything agrees, 1 otherwise.
"""
import itertools
import os
import random
import sys
import types
import warnings
from typing import Optional

import numpy as np

import smpl_extract.filters.fir as compiled

warnings.simplefilter("ignore")

HERE = os.path.dirname(os.path.abspath(compiled.__file__))
PYX = os.path.join(HERE, "fir.pyx")


def _kernel(x, h, k):
    """stand-in for the cdef _c_chicken_sys_convolve_valid(x, h, k)"""
    holder = types.SimpleNamespace(k_gain=k)
    return compiled.ChickSysCustomFirFilter.convolve_valid(holder, x, h)


# ---------------------------------------------------------------- ORIGINAL
class OrigFirFilter:

    def __init__(self, h: np.ndarray, delay_offset: int = 0) -> None:
        self.N = len(h)
        self.h = h
        self.m0 = delay_offset
        self.m1 = self.N - self.m0 - 1
        self.x_prev = np.zeros(self.m1)

    def reset_state(self, **kwargs):
        x_prev = kwargs.get("x_prev", None)
        x_prev = x_prev or np.zeros(self.m1)
        self.x_prev = x_prev

    def convolve_valid(self, x: np.ndarray, h: np.ndarray) -> np.ndarray:
        if np.size(x) < np.size(h):
            return np.asarray([], dtype=x.dtype)
        y = np.convolve(x, h, "valid")
        return y

    def process(self, x: np.ndarray) -> np.ndarray:
        dtype = x.dtype
        x_full = np.concatenate([self.x_prev, x])
        self.x_prev = x[-(self.N - 1):]
        y = self.convolve_valid(x_full, self.h).astype(dtype)
        return y

    def get_remaining(self) -> np.ndarray:
        dtype = self.x_prev.dtype
        x_full = np.concatenate([self.x_prev, np.zeros(self.m0)])
        y = self.convolve_valid(x_full, self.h).astype(dtype)
        self.reset_state()
        return y


class OrigChickSysCustomFirFilter(OrigFirFilter):

    def __init__(
        self,
        h: np.ndarray,
        delay_offset: int = 0,
        k_gain: int = 1
    ) -> None:
        super().__init__(h, delay_offset)
        self.k_gain = k_gain

    def convolve_valid(self, x: np.ndarray, h: np.ndarray) -> np.ndarray:
        x = x.astype(np.int16)
        result = _kernel(x, h, self.k_gain)
        return result


# ------------------------------------------------- classes from the .pyx text
def _cut_class(lines, name):
    start = next(i for i, l in enumerate(lines) if l.startswith("class " + name))
    end = len(lines)
    for j in range(start + 1, len(lines)):
        l = lines[j]
        if l.strip() and not l[0].isspace():
            end = j
            break
    return "".join(lines[start:end])


def load_text_classes():
    with open(PYX, "r", encoding="utf-8") as fh:
        lines = fh.readlines()
    ns = {"np": np, "Optional": Optional,
          "_c_chicken_sys_convolve_valid": _kernel}
    exec(compile(_cut_class(lines, "FirFilter"), PYX + ":FirFilter", "exec"), ns)
    exec(compile(_cut_class(lines, "ChickSysCustomFirFilter"),
                 PYX + ":ChickSysCustomFirFilter", "exec"), ns)
    return ns["FirFilter"], ns["ChickSysCustomFirFilter"]


TextFir, TextChick = load_text_classes()

FAILS = []
CHECKS = [0]


def same_value(a, b):
    if isinstance(a, np.ndarray) or isinstance(b, np.ndarray):
        return (isinstance(a, np.ndarray) and isinstance(b, np.ndarray)
                and a.dtype == b.dtype and a.shape == b.shape
                and a.tobytes() == b.tobytes())
    if isinstance(a, float) and isinstance(b, float):
        return repr(a) == repr(b)
    return type(a) is type(b) and a == b


def outcome(fn):
    try:
        return ("ok", fn())
    except BaseException as e:  # noqa
        # the inline copies are called Orig...; ignore that in messages
        return ("exc", type(e).__name__, str(e).replace("'Orig", "'"))


def same_outcome(a, b):
    if a[0] != b[0]:
        return False
    if a[0] == "exc":
        return a[1:] == b[1:]
    return same_value(a[1], b[1])


def state(f):
    if f is None:
        return {}
    return {k: (v.copy() if isinstance(v, np.ndarray) else v)
            for k, v in sorted(vars(f).items())}


def same_state(f, g):
    sf, sg = state(f), state(g)
    return sf.keys() == sg.keys() and all(same_value(sf[k], sg[k]) for k in sf)


def check(label, *objs_and_calls):
    """objs_and_calls: list of (obj, callable) - first one is the reference."""
    CHECKS[0] += 1
    ref_obj, ref_call = objs_and_calls[0]
    ref_out = outcome(ref_call)
    for obj, call in objs_and_calls[1:]:
        out = outcome(call)
        if not same_outcome(ref_out, out):
            FAILS.append((label, "outcome", ref_out, out))
        elif not same_state(ref_obj, obj):
            FAILS.append((label, "state", state(ref_obj), state(obj)))


def build(label, ctors, *args, **kw):
    """Construct with every implementation; compare exception or state."""
    CHECKS[0] += 1
    res = [outcome(lambda c=c: c(*args, **kw)) for c in ctors]
    ref = res[0]
    for r in res[1:]:
        if ref[0] != r[0]:
            FAILS.append((label, "ctor outcome", ref, r))
        elif ref[0] == "exc" and ref[1:] != r[1:]:
            FAILS.append((label, "ctor exception", ref, r))
        elif ref[0] == "ok" and not same_state(ref[1], r[1]):
            FAILS.append((label, "ctor state", state(ref[1]), state(r[1])))
    if any(r[0] != "ok" for r in res):
        return None
    return [r[1] for r in res]


# ---------------------------------------------------------------- scenarios
rng = random.Random(1907)
nrng = np.random.default_rng(1907)

GENERIC_ALL = (OrigFirFilter, TextFir, compiled.FirFilter)
CHICK_ALL = (OrigChickSysCustomFirFilter, TextChick, compiled.ChickSysCustomFirFilter)


def reset_kwargs(m1):
    yield {}
    yield {"x_prev": None}
    yield {"x_prev": None, "unused": 3}
    yield {"y_prev": np.asarray([1.0])}                   # ignored key
    yield {"x_prev": np.asarray([2.5])}
    yield {"x_prev": np.asarray([0.0])}                   # falsy -> zeros
    yield {"x_prev": np.asarray([3], dtype=np.int16)}
    yield {"x_prev": np.asarray([0], dtype=np.int16)}
    yield {"x_prev": np.asarray([1.0, 2.0])}              # ambiguous -> ValueError
    yield {"x_prev": np.zeros(max(m1, 0))}
    yield {"x_prev": np.ones(max(m1, 0), dtype=np.int16)}
    yield {"x_prev": np.asarray([])}
    yield {"x_prev": []}
    yield {"x_prev": [1.0]}                               # truthy list is kept as is
    yield {"x_prev": [4, 5, 6]}
    yield {"x_prev": 0}
    yield {"x_prev": 7}
    yield {"x_prev": "abc"}
    yield {"x_prev": ()}


def signals(dtype):
    yield np.asarray([], dtype=dtype)
    yield np.asarray([1], dtype=dtype)
    yield np.asarray([32767, -32768, 32767, -32768, 0, 1], dtype=dtype)
    yield np.asarray([32767] * 9, dtype=dtype)
    yield np.asarray([-32768] * 9, dtype=dtype)
    for _ in range(5):
        n = rng.randint(1, 40)
        yield nrng.integers(-32768, 32768, n).astype(dtype)


def splits(n):
    if n == 0:
        yield []
        return
    if n <= 6:
        for bits in itertools.product([0, 1], repeat=n - 1):
            yield [i + 1 for i, b in enumerate(bits) if b] + [n]
    else:
        for _ in range(4):
            k = rng.randint(0, min(n - 1, 6))
            yield sorted(rng.sample(range(1, n), k)) + [n]


def run_stream(f, x, cuts):
    out = []
    lo = 0
    for hi in cuts:
        out.append(f.process(x[lo:hi]))
        lo = hi
    out.append(f.get_remaining())
    return np.concatenate(out) if out else np.asarray([])


def main():
    # 1. constructor edge cases (also the failing ones)
    h3 = np.asarray([-1, 2, -1])
    ctor_args = [
        (h3,), (h3, 0), (h3, 1), (h3, 2), (h3, 3), (h3, 4), (h3, -1), (h3, -5),
        (h3, 1.0), (h3, 0.5), (h3, True), (h3, None), (h3, "1"), (h3, np.int64(1)),
        (h3, np.asarray(1)), (h3, np.asarray([1])), (h3, np.asarray([0, 1])),
        ([1.0, 2.0],), ((1, 2, 3, 4), 2), (np.asarray([]),), (np.asarray([]), -1),
        ([],), ("abc",), (5,), (None,), (np.asarray(3.0),), (np.asarray([[1, 2], [3, 4]]),),
        (range(4), 1), ({1: 2, 3: 4},),
    ]
    for args in ctor_args:
        # Cython type-checks/coerces the `delay_offset: int` annotation at call
        # time, plain Python does not; that difference is in the build, not in
        # the refactoring, so the compiled class only takes part for real ints.
        plain = len(args) < 2 or type(args[1]) is int
        GENERIC, CHICK = (GENERIC_ALL, CHICK_ALL) if plain else (GENERIC_ALL[:2], CHICK_ALL[:2])
        build("FirFilter%r" % (tuple(type(a).__name__ for a in args),), GENERIC, *args)
        build("Chick%r" % (tuple(type(a).__name__ for a in args),), CHICK, *args)
        build("Chick-k%r" % (tuple(type(a).__name__ for a in args),), CHICK, *args[:1],
              **{"delay_offset": args[1] if len(args) > 1 else 0, "k_gain": 7})
    GENERIC, CHICK = GENERIC_ALL, CHICK_ALL
    build("kw", GENERIC, h=h3, delay_offset=2)

    # 2. generic FIR: every delay offset, reset_state kwargs, streaming
    kernels = [np.asarray([1.0]), np.asarray([-1, 2, -1]), np.asarray([0.5, 0.25]),
               np.asarray([0.005066072573015534, 0.315591906491287, 0.6036255989257485,
                           0.07571642200994903, 0.0, 0.0, 0.0, 0.0])]
    for _ in range(5):
        kernels.append(nrng.uniform(-1, 1, rng.randint(1, 7)))
    for h in kernels:
        for m0 in range(0, len(h)):
            trio = build("gen", GENERIC, h, m0)
            if trio is None:
                continue
            for kw in reset_kwargs(trio[0].m1):
                warm = nrng.integers(-1000, 1000, 9).astype(np.int16)
                check("warm", *[(f, (lambda f=f: f.process(warm))) for f in trio])
                check("reset %r" % (kw,), *[(f, (lambda f=f: f.reset_state(**kw))) for f in trio])
                x = nrng.integers(-32768, 32768, 11).astype(np.int16)
                check("after-reset process", *[(f, (lambda f=f: f.process(x))) for f in trio])
                check("get_remaining", *[(f, (lambda f=f: f.get_remaining())) for f in trio])
                check("get_remaining again", *[(f, (lambda f=f: f.get_remaining())) for f in trio])
            for dtype in (np.int16, np.float64):
                for x in signals(dtype):
                    for cuts in splits(len(x)):
                        check("stream", *[(f, (lambda f=f: run_stream(f, x, cuts))) for f in trio])
                    # a reset filter behaves like a new one
                    fresh = build("fresh", GENERIC, h, m0)
                    for f in trio:
                        outcome(lambda f=f: f.process(x))
                        f.reset_state()
                    check("reset==new", (fresh[0], lambda: fresh[0].process(x)),
                          *[(f, (lambda f=f: f.process(x))) for f in trio],
                          *[(f, (lambda f=f: f.process(x))) for f in fresh[1:]])

    # 3. ChickenSys custom FIR (inherits __init__ / reset_state)
    roland = np.asarray([1, -2, 5, -11, 25, -65, 176, -460, 9981, 32767, 9981,
                         -460, 176, -65, 25, -11, 5, -2, 1], dtype=np.int16)
    chick_cfgs = [(roland, 7, 52067), (roland, 0, 52067), (roland, 18, 52067), (roland, 9, 1),
                  (np.asarray([1, 2, 1], dtype=np.int16), 1, 4),
                  (np.asarray([32767, 32767], dtype=np.int16), 0, 1),
                  (np.asarray([3], dtype=np.int16), 0, -2)]
    for h, m0, k in chick_cfgs:
        trio = build("chick", CHICK, h, m0, k)
        for kw in reset_kwargs(trio[0].m1):
            check("chick reset", *[(f, (lambda f=f: f.reset_state(**kw))) for f in trio])
            x = nrng.integers(-32768, 32768, 25).astype(np.int16)
            check("chick process", *[(f, (lambda f=f: f.process(x))) for f in trio])
            check("chick remaining", *[(f, (lambda f=f: f.get_remaining())) for f in trio])
        for x in signals(np.int16):
            for cuts in splits(len(x)):
                check("chick stream", *[(f, (lambda f=f: run_stream(f, x, cuts))) for f in trio])

    # 4. broken instances: m1 removed / replaced before a reset
    for bad in ("del", -1, 2.0, None, "3", 0, 10 ** 3):
        trio = build("gen", GENERIC, h3, 1)
        for f in trio:
            if bad == "del":
                del f.m1
            else:
                f.m1 = bad
        check("reset with m1=%r" % (bad,), *[(f, (lambda f=f: f.reset_state())) for f in trio])
        check("reset truthy with m1=%r" % (bad,),
              *[(f, (lambda f=f: f.reset_state(x_prev=np.asarray([1.0])))) for f in trio])
        check("remaining with m1=%r" % (bad,), *[(f, (lambda f=f: f.get_remaining())) for f in trio])

    print("checks: %d, failures: %d" % (CHECKS[0], len(FAILS)))
    for f in FAILS[:10]:
        print("FAIL", f)
    return 1 if FAILS else 0


if __name__ == "__main__":
    sys.exit(main())
