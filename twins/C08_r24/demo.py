"""Equivalence demo for r24 (util/stream.py StreamWrapper.read: the three-step
clip of the request - take size, bound it by end_of_file - position when a
length is known, raise negatives to 0 - moves into the private method
_clip_to_length() written with a flipped `is None` test and max(); the cursor
advance `+=` is spelled out).

The ORIGINAL StreamWrapper.read is pasted below and grafted onto twin
subclasses of every view class (StreamWrapper, StreamOffset, StreamReversed,
SectorStream, FileStream, MdfStream), so that seek/tell/readall, the address
translation and the sector logic are shared and only `read` differs.  Live and
original stacks sit on twin logging parents and are driven through identical
histories; they must agree on every return value (and its type), exception
type and text, on the state of every layer (position, true_size, end_of_file)
after every step, and on the ordered log of tell/seek/read calls reaching the
parent.  For well-formed non-empty views the bytes are also compared with a
plain model of the logical content and the cursor is checked to stay in
[0, length].

Covered: every (position, size) pair over tiny streams, exhaustive 3-step
histories, long random histories over random windows / sector sizes / chain
permutations / sample widths / nestings up to depth 4, reads of size 0, at
and across the end, None and negative sizes (readall), bool and float sizes,
views with length 0, negative length, length None, cursor constructed beyond
the end, misaligned requests on the reversed view (BadReadSize / BadAlign
text), and a parent whose cursor was moved behind the view's back (resync).
Exit 0 = all agree, 1 = mismatch.
"""
import itertools
import random
import sys
from io import BytesIO, SEEK_CUR, SEEK_END, SEEK_SET
from typing import Union

from smpl_extract.alcohol.mdf import MDF_SECTOR_BODY_SIZE
from smpl_extract.alcohol.mdf import MDF_SECTOR_SIZE
from smpl_extract.alcohol.mdf import MdfStream
from smpl_extract.util.fat import FileStream
from smpl_extract.util.sector import SectorStream
from smpl_extract.util.stream import StreamOffset
from smpl_extract.util.stream import StreamReversed
from smpl_extract.util.stream import StreamWrapper


def orig_read(self, size: Union[int, None])->bytes:
    """Original StreamWrapper.read, verbatim."""

    if size is None or size < 0:
        return self.readall()

    self.true_size = size
    if self.end_of_file is not None:
        self.true_size = min(self.end_of_file - self.position, size)
    if self.true_size < 0:
        self.true_size = 0

    true_position = self.substream.tell()
    expected_position = self._translate_addr(self.position)
    if expected_position != true_position:
        self._seek(self.position)

    result = self._read(self.true_size)
    self.position += self.true_size
    return result


class OWrapper(StreamWrapper):
    read = orig_read


class OOffset(StreamOffset):
    read = orig_read


class OReversed(StreamReversed):
    read = orig_read


class OSector(SectorStream):
    read = orig_read


class OFile(FileStream):
    read = orig_read


class OMdf(MdfStream):
    read = orig_read


ORIG = {
    StreamWrapper: OWrapper, StreamOffset: OOffset, StreamReversed: OReversed,
    SectorStream: OSector, FileStream: OFile, MdfStream: OMdf,
}


class Parent(BytesIO):
    """BytesIO that logs every call."""

    def __init__(self, data):
        super().__init__(data)
        self.log = []

    def tell(self):
        r = super().tell()
        self.log.append(("tell", r))
        return r

    def seek(self, *a):
        r = super().seek(*a)
        self.log.append(("seek", a, r))
        return r

    def read(self, *a):
        r = super().read(*a)
        self.log.append(("read", a, r))
        return r


FAILURES = []


def fail(msg):
    FAILURES.append(msg)
    if len(FAILURES) <= 20:
        print("MISMATCH:", msg)


def outcome(fn):
    try:
        r = fn()
        return ("ok", r, type(r))
    except Exception as e:
        return ("exc", type(e), str(e))


def state(v):
    layers = []
    while not isinstance(v, Parent):
        layers.append((v.position, type(v.position), v.true_size, type(v.true_size),
                       v.end_of_file, v.buffer_length))
        v = v.substream
    layers.append(BytesIO.tell(v))
    return layers


def root(v):
    while not isinstance(v, Parent):
        v = v.substream
    return v


def stack(data, spec):
    """Build the same stack of views twice: live classes / original-read classes.

    spec is a list of (class, args, kwargs), innermost first.
    """
    live, orig = Parent(data), Parent(data)
    for cls, args, kwargs in spec:
        live = cls(live, *args, **kwargs)
        orig = ORIG[cls](orig, *args, **kwargs)
    return live, orig


def step(live, orig, op, logical, tag):
    before = orig.position
    if op[0] == "seek":
        a = outcome(lambda: live.seek(*op[1]))
        b = outcome(lambda: orig.seek(*op[1]))
    elif op[0] == "tell":
        a = outcome(live.tell)
        b = outcome(orig.tell)
    elif op[0] == "kick":
        # somebody else moves the shared parent cursor
        BytesIO.seek(root(live), op[1])
        BytesIO.seek(root(orig), op[1])
        a = b = ("ok", None, type(None))
    else:
        a = outcome(lambda: live.read(op[1]))
        b = outcome(lambda: orig.read(op[1]))
    if a != b:
        fail(f"{tag}: {op} at {before}: {a} vs {b}")
        return False
    if state(live) != state(orig):
        fail(f"{tag}: state after {op}: {state(live)} vs {state(orig)}")
        return False
    if root(live).log != root(orig).log:
        fail(f"{tag}: parent log after {op} at {before}")
        return False
    if logical is not None and a[0] == "ok" and op[0] == "read":
        whole = op[1] is None or op[1] < 0
        want = logical[before:] if whole else logical[before:before + op[1]]
        if a[1] != want:
            fail(f"{tag}: read {op[1]} at {before} -> {a[1]!r}, want {want!r}")
        if live.position != before + len(want):
            fail(f"{tag}: cursor after read {op[1]} at {before}: {live.position}")
    if logical is not None and not (0 <= live.position <= len(logical)):
        fail(f"{tag}: cursor {live.position} outside [0, {len(logical)}]")
    return True


def drive(live, orig, ops, logical, tag):
    for op in ops:
        if not step(live, orig, op, logical, tag):
            return


def random_ops(rng, n, count, kicks=0):
    ops = []
    for _ in range(count):
        k = rng.random()
        if k < 0.55:
            ops.append(("read", rng.choice(
                [0, 1, 2, 3, n, n + 2, None, -1, rng.randrange(0, n + 3), rng.randrange(0, n + 3)])))
        elif k < 0.9:
            ops.append(("seek", (rng.randrange(-n - 2, n + 3), rng.choice([SEEK_SET, SEEK_CUR, SEEK_END]))))
        elif k < 0.9 + kicks:
            ops.append(("kick", rng.randrange(0, n + 5)))
        else:
            ops.append(("tell",))
    return ops


def reverse_samples(data, width):
    samples = [data[i:i + width] for i in range(0, len(data), width)]
    return b"".join(reversed(samples))


def main():
    rng = random.Random(2408)

    if not callable(getattr(StreamWrapper, "read", None)) or not callable(StreamWrapper.readall):
        fail("public read/readall missing")
    for cls in ORIG:
        if "read" in vars(cls) and cls is not StreamWrapper:
            fail(f"{cls.__name__} grew its own read")

    data = bytes(range(65, 65 + 12))                  # b"ABCDEFGHIJKL"

    # --- 1. every (position, size) over each kind of tiny view
    tiny_specs = {
        "wrapper":  ([(StreamWrapper, (12,), {})], data),
        "window":   ([(StreamOffset, (5, 3), {})], data[3:8]),
        "window0":  ([(StreamOffset, (1, 0), {})], data[0:1]),
        "sector":   ([(SectorStream, (12, 4), {})], data),
        "chain":    ([(FileStream, (3, [2, 0, 3]), {})], data[6:9] + data[0:3] + data[9:12]),
        "rev1":     ([(StreamReversed, (12,), dict(sample_width=1))], data[::-1]),
        "rev2":     ([(StreamReversed, (12,), dict(sample_width=2))], reverse_samples(data, 2)),
        "rev3":     ([(StreamReversed, (12,), dict(sample_width=3))], reverse_samples(data, 3)),
        "rev-win":  ([(StreamOffset, (8, 2), {}), (StreamReversed, (8,), dict(sample_width=2))],
                     reverse_samples(data[2:10], 2)),
        "win-chain": ([(FileStream, (3, [2, 0, 3]), {}), (StreamOffset, (5, 2), {})],
                      (data[6:9] + data[0:3] + data[9:12])[2:7]),
    }
    for name, (spec, logical) in tiny_specs.items():
        n = len(logical)
        for pos in range(0, n + 1):
            for size in list(range(0, n + 3)) + [None, -1, -7, True, False]:
                live, orig = stack(data, spec)
                drive(live, orig, [("seek", (pos, SEEK_SET)), ("read", size), ("tell",), ("read", size)],
                      logical, f"{name} pos={pos}")

    # --- 2. exhaustive 3-step histories over tiny views
    alphabet = (
        [("read", s) for s in (0, 1, 2, 3, 4, 5, None, -1)]
        + [("seek", (o, w)) for w in (SEEK_SET, SEEK_CUR, SEEK_END) for o in (-5, -1, 0, 1, 2, 4, 6)]
        + [("tell",), ("kick", 1)]
    )
    for ops in itertools.product(alphabet, repeat=3):
        live, orig = stack(b"..WXYZ..", [(StreamOffset, (4, 2), {})])
        drive(live, orig, ops, b"WXYZ", "tiny window")
    for ops in itertools.product(alphabet[::2], repeat=3):
        live, orig = stack(b"ABCDEFGH", [(FileStream, (2, [3, 1]), {})])
        drive(live, orig, ops, b"GHCD", "tiny chain")
        live, orig = stack(b"ABCD", [(StreamReversed, (4,), dict(sample_width=2))])
        drive(live, orig, ops, b"CDAB", "tiny reversed")

    # --- 3. degenerate views: length 0, negative, None; cursor built beyond the end
    read_only = [("read", s) for s in (0, 1, 3, 20, True, 2.0)] + [("tell",)]
    for size in (0, -1, -5, None, 3, 12, 20):
        for position in (0, 2, 12, 15):
            for cls, extra in ((StreamWrapper, ()), (StreamOffset, (2,))):
                for ops in itertools.product(read_only, repeat=2):
                    live, orig = stack(data, [(cls, (size,) + extra, dict(position=position, buffer_length=4))])
                    drive(live, orig, ops, None, f"degenerate {cls.__name__} size={size} pos={position}")
                if size is not None:
                    for tail in (("read", None), ("read", -1), ("seek", (0, SEEK_END)), ("seek", (1, SEEK_SET))):
                        live, orig = stack(data, [(cls, (size,) + extra, dict(position=position, buffer_length=4))])
                        drive(live, orig, [("read", 2), tail, ("read", 2), tail, ("tell",)], None,
                              f"degenerate tail {cls.__name__} size={size} pos={position}")
    for size in (0, -4):
        live, orig = stack(data, [(SectorStream, (size, 4), {})])
        drive(live, orig, [("read", 3), ("seek", (2, SEEK_SET)), ("read", 3), ("read", None)], None, "sector empty")
        live, orig = stack(data, [(StreamReversed, (size,), dict(sample_width=2))])
        drive(live, orig, [("read", 2), ("read", 3), ("seek", (0, SEEK_END)), ("read", 2)], None, "reversed empty")
    live, orig = stack(data, [(FileStream, (4, []), {})])
    drive(live, orig, [("read", 0), ("read", 3), ("seek", (0, SEEK_END)), ("read", 1), ("read", None)], None, "chain empty")

    # --- 4. misaligned requests on the reversed view
    for width in (2, 3, 4):
        n = 12
        logical = reverse_samples(data, width)
        for pos in range(0, n + 1):
            for size in range(0, n + 2):
                live, orig = stack(data, [(StreamReversed, (n,), dict(sample_width=width, position=pos))])
                aligned = pos % width == 0
                drive(live, orig, [("read", size), ("tell",), ("read", width), ("seek", (0, SEEK_SET)), ("read", size)],
                      logical if aligned else None, f"reversed w={width} pos={pos} size={size}")

    # --- 5. raw-sector view
    B = MDF_SECTOR_BODY_SIZE
    bodies = [bytes(rng.randrange(256) for _ in range(B)) for _ in range(3)]
    image = b"".join(b"\x00" * 16 + body + b"\xEE" * (MDF_SECTOR_SIZE - 16 - B) for body in bodies) + b"rest"
    logical = b"".join(bodies)
    for pos in (0, 1, B - 1, B, B + 1, 3 * B - 1, 3 * B):
        for size in (0, 1, B, B + 1, 2 * B + 5, 3 * B, 3 * B + 1, None):
            live, orig = stack(image, [(MdfStream, (), {})])
            drive(live, orig, [("seek", (pos, SEEK_SET)), ("read", size), ("tell",), ("read", 3)], logical, "mdf")
    live, orig = stack(image, [(MdfStream, (), dict(buffer_length=777))])
    drive(live, orig, random_ops(rng, 3 * B, 300, kicks=0.05), logical, "mdf random")

    # --- 6. long random histories over random nestings up to depth 4
    for trial in range(500):
        L = rng.randrange(1, 9)
        nsect = rng.randrange(1, 9)
        store = bytes(rng.randrange(256) for _ in range(L * nsect + rng.randrange(0, 4)))
        spec = []
        logical = store
        depth = rng.randrange(1, 5)
        for level in range(depth):
            n = len(logical)
            kind = rng.choice(["window", "sector", "chain", "reverse", "plain"])
            buf = dict(buffer_length=rng.choice([1, 2, 3, 4, 12, 0x1000]))
            if kind == "window":
                off = rng.randrange(0, n)
                size = rng.randrange(1, n - off + 1)
                spec.append((StreamOffset, (size, off), buf))
                logical = logical[off:off + size]
            elif kind == "plain":
                size = rng.randrange(1, n + 1)
                spec.append((StreamWrapper, (size,), buf))
                logical = logical[:size]
            elif kind == "sector":
                L2 = rng.randrange(1, 6)
                n2 = (n // L2) * L2
                if n2 == 0:
                    continue
                spec.append((SectorStream, (n2, L2), buf))
                logical = logical[:n2]
            elif kind == "chain":
                L2 = rng.randrange(1, 6)
                avail = n // L2
                if avail == 0:
                    continue
                chain = [rng.randrange(avail) for _ in range(rng.randrange(1, 6))]
                spec.append((FileStream, (L2, chain), buf))
                logical = b"".join(logical[s * L2:(s + 1) * L2] for s in chain)
            else:
                width = rng.choice([1, 2, 4])
                n2 = (n // width) * width
                if n2 == 0:
                    continue
                if buf["buffer_length"] % width:
                    buf = dict(buffer_length=width * 3)
                spec.append((StreamReversed, (n2,), dict(sample_width=width, **buf)))
                logical = reverse_samples(logical[:n2], width)
        if not spec:
            continue
        live, orig = stack(store, spec)
        names = "/".join(c.__name__ for c, _, _ in spec)
        drive(live, orig, random_ops(rng, len(logical), rng.randrange(10, 80), kicks=0.04),
              logical, f"rand{trial} {names}")

    if FAILURES:
        print(f"{len(FAILURES)} mismatches")
        return 1
    print("r24 demo: live StreamWrapper.read and original agree on all cases")
    return 0


if __name__ == "__main__":
    sys.exit(main())
