"""Equivalence demo for r3: KeygroupAdapter._decode (smpl_extract/akai/keygroup.py).

The adapter in the tree is compared with an inline copy of the ORIGINAL
_decode on (a) containers parsed by KeygroupConstruct from random keygroup
records with 0..n active velocity zones, (b) hand-made containers with
mismatching auxiliary list lengths (error path) and (c) malformed containers
(missing keys, clashing keys).  Results are compared field by field including
types; exceptions by type and message.
"""
import dataclasses
import random
import struct
import sys
from typing import List

from construct.core import Computed, ConstructError
from construct.lib.containers import Container, ListContainer

from smpl_extract.akai.keygroup import Keygroup
from smpl_extract.akai.keygroup import KeygroupAdapter
from smpl_extract.akai.keygroup import KeygroupCommon
from smpl_extract.akai.keygroup import KeygroupConstruct
from smpl_extract.akai.keygroup import VelocityZone
from smpl_extract.util.constructs import sanitize_container
from smpl_extract.util.dataclass import get_common_field_args


def original_decode(obj, context, path):
    # verbatim copy of the original KeygroupAdapter._decode body
    del context  # Unused
    container = obj 
    
    num_active_velocity_zones = len(container.velocity_zones)
    zone_aux_attrib_names = (
        "enable_key_tracking",
        "aux_out_offset",
        "velocity_to_sample_start"
    )
    cond = {
        k : len(container[k]) != num_active_velocity_zones 
        for k in zone_aux_attrib_names    
    }
    if any(cond.values()):
        bad_attribs = tuple(k for k, v in cond.items() if v)
        bad_lengths = tuple(str(len(container[x])) for x in bad_attribs)
        grammar = "have lengths" if len(bad_attribs) > 1 else "has a length"
        message = (
            f"{', '.join(bad_attribs)} {grammar} of {', '.join(bad_lengths)}. "
            f"Expected {num_active_velocity_zones}."
        )
        raise ConstructError(message, path)
    
    velocity_zones: List[VelocityZone] = list()
    for i, zone_container in enumerate(container.velocity_zones):
        zone_aux_attribs = {
            k : container[k][i] for k in zone_aux_attrib_names
        }
        velocity_zone = VelocityZone(
            **sanitize_container(zone_container),
            **zone_aux_attribs
        )
        velocity_zones.append(velocity_zone)

    common_attribs = get_common_field_args(KeygroupCommon, container)

    keygroup = Keygroup(
        **common_attribs,
        velocity_zones=velocity_zones
    )

    return keygroup


def deep(x):
    """Structure + types, so that 1 / True / 1.0 are told apart."""
    if dataclasses.is_dataclass(x) and not isinstance(x, type):
        return (type(x).__name__, tuple(
            (f.name, deep(getattr(x, f.name))) for f in dataclasses.fields(x)))
    if isinstance(x, (list, tuple)):
        return (type(x).__name__, tuple(deep(v) for v in x))
    return (type(x).__name__, repr(x))


def outcome(f, obj):
    try:
        return ("ok", deep(f(obj, {}, "(parsing) -> keygroup")))
    except Exception as e:
        return ("exc", type(e).__name__, str(e))


failures = 0


def compare(label, obj):
    global failures
    got = outcome(ADAPTER._decode, obj)
    want = outcome(original_decode, obj)
    if got != want:
        failures += 1
        if failures < 20:
            print("MISMATCH", label, got, want)
    return got[0]


ADAPTER = KeygroupAdapter(Computed(0))
rng = random.Random(303)


def akai_name(empty):
    if empty:
        return bytes([0x0A]) * 12
    n = rng.randrange(1, 13)
    return bytes(rng.randrange(0, 0x29) for _ in range(n - 1)) \
        + bytes([rng.randrange(0, 0x0A)]) + bytes([0x0A]) * (12 - n)


def make_keygroup(num_zones, flags):
    b = bytes([rng.randrange(256)]) + struct.pack("<H", rng.randrange(0x10000))
    b += bytes(rng.randrange(256) for _ in range(28))
    b += bytes([num_zones]) + bytes(rng.randrange(256) for _ in range(2))
    for fl in flags:
        b += akai_name(empty=not fl) + bytes(rng.randrange(256) for _ in range(12))
    b += bytes(rng.randrange(256) for _ in range(2 + num_zones + num_zones + 2 * num_zones + 2))
    return b


stats = {"ok": 0, "exc": 0}

# (a) parsed containers, every active/inactive pattern for 0..5 zones
n_a = 0
for num_zones in range(0, 6):
    for mask in range(1 << num_zones):
        flags = [bool(mask >> i & 1) for i in range(num_zones)]
        for _ in range(6):
            raw = make_keygroup(num_zones, flags)
            container = KeygroupConstruct.parse(raw)
            assert len(container.velocity_zones) == sum(flags)
            stats[compare(("parsed", num_zones, mask), container)] += 1
            n_a += 1

# (b) length mismatches -> ConstructError with the same message
n_b = 0
base = KeygroupConstruct.parse(make_keygroup(4, [True, True, False, True]))
for la in range(0, 5):
    for lb in range(0, 5):
        for lc in range(0, 5):
            c = Container(base)
            c["enable_key_tracking"] = ListContainer([True] * la)
            c["aux_out_offset"] = ListContainer(range(lb))
            c["velocity_to_sample_start"] = ListContainer(range(-lc, 0))
            stats[compare(("lengths", la, lb, lc), c)] += 1
            n_b += 1

# (c) malformed containers
n_c = 0
for victim in ("velocity_zones", "enable_key_tracking", "aux_out_offset",
               "velocity_to_sample_start", "block_id", "velocity_to_volume_offset"):
    c = Container(base)
    del c[victim]
    stats[compare(("missing", victim), c)] += 1
    n_c += 1
c = Container(base)
zones = [Container(z) for z in base.velocity_zones]
zones[1]["aux_out_offset"] = 7            # clashes with the per-zone keyword
c["velocity_zones"] = ListContainer(zones)
stats[compare("clash", c)] += 1
c = Container(base)
zones = [Container(z) for z in base.velocity_zones]
zones[2]["bogus"] = 1                      # unknown dataclass field
c["velocity_zones"] = ListContainer(zones)
stats[compare("bogus", c)] += 1
c = Container(base)
zones = [Container(z) for z in base.velocity_zones]
zones[0]["_private"] = 1                   # dropped by sanitize_container
c["velocity_zones"] = ListContainer(zones)
stats[compare("private", c)] += 1
n_c += 3

print("parsed:", n_a, "length cases:", n_b, "malformed:", n_c, stats, "failures:", failures)
sys.exit(1 if failures else 0)
