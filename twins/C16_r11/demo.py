"""Equivalence demo for r11: PartialEntry.sample_entries
(smpl_extract/roland/s7xx/partial_entry.py).

The live property is compared with an inline copy of the ORIGINAL
implementation (installed on a subclass).  Every generated scenario builds a
pool of sample entries (real SampleEntry objects, instrumented so that every
attribute write and every `path` read is logged), some of them shared between
several references and between several partials, some with an empty path
(IndexError), some references whose `sample_entry` attribute raises.  Naming
routines are scripted (identity / copy / in-place renaming / mutate / return
[] / return None / raise / raise once).  The same access script
(`sample_entries`, `children`, on any of the partials, routines swapped in
between) is replayed on live and reference objects; event logs (order of
reads and writes), results, final `_parent` / `_path` of every entry, cache
states and exceptions must agree.
"""
import random
import sys

from smpl_extract.roland.s7xx.partial_entry import PartialEntry
from smpl_extract.roland.s7xx.partial_entry import SampleEntryReference
from smpl_extract.roland.s7xx.sample_entry import SampleEntry


class Boom(Exception):
    pass


# --------------------------------------------------------------------------
# inline copy of the ORIGINAL implementation
# --------------------------------------------------------------------------
class OrigPartialEntry(PartialEntry):

    @property
    def sample_entries(self):
        if not self._sample_entries:
            sample_entries = []
            path = self.path
            for reference in self.sample_entry_references:
                sample_entry = reference.sample_entry
                new_path = path + [sample_entry.path[-1]]
                sample_entry._parent = self
                sample_entry._path = new_path
                sample_entries.append(sample_entry)

            for routine in self._routines.values():
                sample_entries = routine(sample_entries)
            self._sample_entries = sample_entries
        return self._sample_entries  # type: ignore


# --------------------------------------------------------------------------
# instrumented model objects
# --------------------------------------------------------------------------
LOG = None        # event log of the world being replayed
PARTIALS = None   # list of partials of that world (for naming parents)


def partial_tag(obj):
    if obj is None:
        return None
    for i, partial in enumerate(PARTIALS or []):
        if obj is partial:
            return "partial%d" % i
    return "<%s>" % type(obj).__name__


class LoggedSampleEntry(SampleEntry):
    """Real SampleEntry; logs writes of the re-homing attributes and path reads."""

    def __setattr__(self, key, value):
        if LOG is not None and key in ("_parent", "_path", "_safe_name",
                                       "_export_name"):
            shown = partial_tag(value) if key == "_parent" else (
                list(value) if isinstance(value, list) else value
            )
            LOG.append(("set", self.directory_name, key, shown))
        object.__setattr__(self, key, value)

    @property
    def path(self):
        if LOG is not None:
            LOG.append(("path-read", self.directory_name))
        return Element_path(self)


def Element_path(entry):
    # the original Element.path behaviour
    if hasattr(entry, "_path"):
        return entry._path
    return []


class RaisingReference:
    """Reference whose sample_entry attribute cannot be read."""

    def __init__(self, tag):
        self.tag = tag

    @property
    def sample_entry(self):
        LOG.append(("reference-raise", self.tag))
        raise Boom("reference " + self.tag)


class LoggedReference(SampleEntryReference):
    def __getattribute__(self, key):
        if key == "sample_entry" and LOG is not None:
            LOG.append(("reference-read",
                        object.__getattribute__(self, "pitch_kf")))
        return object.__getattribute__(self, key)


ROUTINE_KINDS = [
    "identity", "copy", "rename", "rename", "mutate", "reverse", "empty",
    "none", "raise", "raise-once", "tuple",
]


def make_routine(index, kind):
    state = {"calls": 0}

    def routine(entries):
        state["calls"] += 1
        LOG.append((
            "routine", index, kind, type(entries).__name__,
            tuple(getattr(e, "directory_name", repr(e)) for e in entries),
        ))
        if kind == "identity":
            return entries
        if kind == "copy":
            return list(entries)
        if kind == "rename":
            # in-place renaming of shared elements (like the naming routines)
            for n, e in enumerate(entries):
                e._safe_name = "%s~%d.%d" % (e.directory_name, index, n)
            return entries
        if kind == "mutate":
            entries.append(entries[0]) if entries else None
            return entries
        if kind == "reverse":
            return list(reversed(entries))
        if kind == "empty":
            return []
        if kind == "none":
            return None
        if kind == "tuple":
            return tuple(entries)
        if kind == "raise":
            raise Boom("routine %d" % index)
        if kind == "raise-once":
            if state["calls"] == 1:
                raise Boom("routine %d once" % index)
            return entries
        raise AssertionError(kind)
    return routine


def make_scenario(rng, hostile):
    n_entries = rng.randrange(0, 6)
    entries = []
    for i in range(n_entries):
        kind = "ok"
        if hostile and rng.random() < 0.12:
            kind = "empty-path"
        depth = rng.randrange(1, 4)
        entries.append({"name": "S%d" % i, "kind": kind, "depth": depth})
    n_partials = rng.randrange(1, 4)
    partials = []
    for p in range(n_partials):
        refs = []
        if n_entries:
            for _ in range(rng.randrange(0, 5)):
                if hostile and rng.random() < 0.06:
                    refs.append("raise")
                else:
                    refs.append(rng.randrange(n_entries))
        elif hostile and rng.random() < 0.3:
            refs.append("raise")
        kinds = ROUTINE_KINDS if hostile else ["identity", "copy", "rename",
                                               "reverse"]
        routines = [rng.choice(kinds) for _ in range(rng.randrange(0, 4))]
        partials.append({
            "refs": refs,
            "routines": routines,
            "path": [["PERF", "PATCH", "PART%d" % p], [], ["X"]][
                rng.choice([0, 0, 0, 1, 2])
            ],
        })
    script = []
    for _ in range(rng.randrange(1, 9)):
        op = rng.choice(["sample_entries", "sample_entries", "children",
                         "peek", "swap-routines", "export-paths"])
        script.append((op, rng.randrange(n_partials)))
    return {"entries": entries, "partials": partials, "script": script}


def describe(value):
    if value is None:
        return None
    if isinstance(value, (list, tuple)):
        return (type(value).__name__,
                tuple(getattr(e, "directory_name", repr(e)) for e in value))
    return repr(value)


def run_world(cls, scenario):
    global LOG, PARTIALS
    LOG = None
    PARTIALS = []
    entries = []
    for spec in scenario["entries"]:
        path = [] if spec["kind"] == "empty-path" else (
            ["ORIGIN%d" % d for d in range(spec["depth"] - 1)] + [spec["name"]]
        )
        entries.append(LoggedSampleEntry(
            directory_name=spec["name"], parameter_name=spec["name"].lower(),
            _path=path
        ))
    partials = []
    for p, spec in enumerate(scenario["partials"]):
        refs = []
        for n, r in enumerate(spec["refs"]):
            if r == "raise":
                refs.append(RaisingReference("p%d.%d" % (p, n)))
            else:
                refs.append(LoggedReference(sample_entry=entries[r],
                                            pitch_kf=100 * p + n))
        routines = {
            "r%d" % i: make_routine(i, kind)
            for i, kind in enumerate(spec["routines"])
        }
        partials.append(cls(
            directory_name="PART%d" % p,
            parameter_name="part%d" % p,
            sample_entry_references=refs,
            _parent=None,
            _path=list(spec["path"]),
            _routines=routines,
        ))
    PARTIALS = partials
    LOG = []
    results = []
    for op, which in scenario["script"]:
        partial = partials[which]
        LOG.append(("op", op, which))
        try:
            if op == "sample_entries":
                value = partial.sample_entries
                outcome = ("ok", describe(value),
                           value is partial._sample_entries)
            elif op == "children":
                value = partial.children
                outcome = ("ok", describe(value),
                           value is partial._sample_entries)
            elif op == "peek":
                outcome = ("ok", describe(partial._sample_entries))
            elif op == "swap-routines":
                partial.set_routines({"late": make_routine(9, "rename")})
                outcome = ("ok", "swapped")
            else:
                outcome = ("ok", tuple(
                    tuple(e.export_path()) for e in entries
                ))
        except Exception as exc:  # noqa: BLE001 - compared
            outcome = ("exc", type(exc).__name__, str(exc))
        state = tuple(
            (e.directory_name, partial_tag(e._parent), tuple(e._path),
             getattr(e, "_safe_name", "<unset>"))
            for e in entries
        )
        caches = tuple(describe(p._sample_entries) for p in partials)
        results.append((op, which, outcome, state, caches))
    log = LOG
    LOG = None
    return results, log


def hand_written_checks():
    """Precomputed expectations for one small, fully understood case."""
    global LOG, PARTIALS
    LOG = None
    failures = 0
    shared = SampleEntry(directory_name="KICK", _path=["OLD", "KICK"])
    other = SampleEntry(directory_name="SNARE", _path=["SNARE"])
    first = PartialEntry(
        directory_name="A", _path=["PERF", "A"],
        sample_entry_references=[
            SampleEntryReference(sample_entry=shared),
            SampleEntryReference(sample_entry=other),
            SampleEntryReference(sample_entry=shared),
        ],
    )
    second = PartialEntry(
        directory_name="B", _path=["PERF", "B"],
        sample_entry_references=[SampleEntryReference(sample_entry=shared)],
    )
    PARTIALS = [first, second]
    got = first.sample_entries
    if [e.directory_name for e in got] != ["KICK", "SNARE", "KICK"]:
        failures += 1
        print("order/duplicates wrong")
    if got[0] is not shared or got[2] is not shared or got[1] is not other:
        failures += 1
        print("identity wrong")
    if shared._parent is not first or shared._path != ["PERF", "A", "KICK"] \
            or other._path != ["PERF", "A", "SNARE"]:
        failures += 1
        print("re-homing wrong", shared._path, other._path)
    if first.sample_entries is not got or first.children is not got:
        failures += 1
        print("memoisation wrong")
    second.sample_entries
    if shared._parent is not second or shared._path != ["PERF", "B", "KICK"]:
        failures += 1
        print("second partial did not take over the shared entry")
    # memoised: looking at the first partial again must not re-home
    first.sample_entries
    if shared._parent is not second:
        failures += 1
        print("memoised access re-homed the entry")
    if first.path != ["PERF", "A"] or second.path != ["PERF", "B"]:
        failures += 1
        print("partial path modified")
    empty = PartialEntry(directory_name="E", _path=["E"])
    a = empty.sample_entries
    b = empty.sample_entries
    if a != [] or b != [] or a is b:
        # an empty result is falsy, so the original rebuilds it every time
        failures += 1
        print("empty partial: expected a fresh empty list per access")
    return failures


def main():
    rng = random.Random(3160)
    failures = 0
    n = 0
    exc_cases = 0
    for case in range(5000):
        scenario = make_scenario(rng, hostile=(case % 4 != 0))
        live = run_world(PartialEntry, scenario)
        ref = run_world(OrigPartialEntry, scenario)
        n += 1
        if any(r[2][0] == "exc" for r in live[0]):
            exc_cases += 1
        if live != ref:
            failures += 1
            if failures <= 5:
                print("MISMATCH in case", case, scenario)
                for a, b in zip(live[0] + live[1], ref[0] + ref[1]):
                    if a != b:
                        print("  live:", a)
                        print("  ref: ", b)
                        break
                else:
                    print("  lengths", len(live[1]), len(ref[1]))
    failures += hand_written_checks()
    print("cases: %d (with exceptions: %d)  failures: %d"
          % (n, exc_cases, failures))
    return 1 if failures else 0


if __name__ == "__main__":
    sys.exit(main())
