"""Equivalence demo for r8: make_transcoder (smpl_extract/transcoder.py).

The live `make_transcoder` is compared with an inline copy of the ORIGINAL
function (which uses the same module-level helpers and classes).  Inputs are
lists of DataStreams over recording streams that log every seek/read/tell, so
the order of operations on the shared streams is part of the comparison.

Compared per case: exception type and message, class of the returned
transcoder, its configuration (buffer size / process names), every chunk the
transcoder yields, the complete stream operation log and the final stream
positions.  Cases include: no streams, channel-count mismatches, streams
positioned mid-way or at EOF before the call (the rewind), odd lengths,
0-channel and 0-width encodings (division by zero after the rewind), seeks
that raise on the n-th stream, mono/stereo/multi inputs, all endianess and
signedness combinations.
"""
import io
import random
import sys
from io import SEEK_SET
from typing import Callable
from typing import List
from typing import Tuple

import numpy as np

from smpl_extract.data_streams import DataStream
from smpl_extract.data_streams import Endianess
from smpl_extract.data_streams import IncompatibleNumberOfChannels
from smpl_extract.data_streams import NoDataStream
from smpl_extract.data_streams import StreamEncoding
from smpl_extract.data_streams import system_byte_order
from smpl_extract.transcoder import decode_frame
from smpl_extract.transcoder import encode_frame
from smpl_extract.transcoder import get_buffer_sizes
from smpl_extract.transcoder import make_transcoder
from smpl_extract.transcoder import PassthroughTranscoder
from smpl_extract.transcoder import PipelineTranscoder
from smpl_extract.transcoder import swap_endianess
from smpl_extract.transcoder import swap_endianess_multi
from smpl_extract.transcoder import TranscodePipelineStruct


# --------------------------------------------------------------------------
# inline copy of the ORIGINAL implementation
# --------------------------------------------------------------------------
def orig_make_transcoder(
        data_streams: List[DataStream],
        dest_encoding: StreamEncoding
    ):

    # check for bad args
    if len(data_streams) <= 0:
        raise NoDataStream("No data streams given")

    total_num_channels = 0
    for data_stream in data_streams:
        num_channels = max(1, data_stream.encoding.num_interleaved_channels)
        total_num_channels += num_channels
    expected_num_channels = dest_encoding.num_interleaved_channels
    if total_num_channels != expected_num_channels:
        raise IncompatibleNumberOfChannels(
            f"Expected {expected_num_channels} fourd {total_num_channels}."
        )

    # begin
    for data_stream in data_streams:
        data_stream.stream.seek(0, SEEK_SET)
    buffer_sizes = get_buffer_sizes(data_streams)

    if len(data_streams) == 1 \
            and data_streams[0].encoding == dest_encoding:
        result = PassthroughTranscoder(
            data_streams[0],
            buffer_size=buffer_sizes[0]
        )
        return result

    processes: List[Tuple[
        str,
        Callable[[List[np.ndarray]], List[np.ndarray]]
    ]]
    processes = []

    # is byteswap needed at input?
    swaps = list(
        x.encoding.endianess != system_byte_order
        for x in data_streams
        for _ in range(max(1, x.encoding.num_interleaved_channels))
    )
    if any(swaps):
        if all(swaps):
            processes.append(("swap_input_endianess", swap_endianess))
        else:
            processes.append((
                "swap_input_endianess_multi",
                lambda x: swap_endianess_multi(x, swaps)
            ))

    # is byte swap needed at output?
    if dest_encoding.endianess != system_byte_order:
        processes.append(("swap_output_endianess", swap_endianess))

    dest_dtype = dest_encoding.dtype

    f_decode_frame = lambda x: decode_frame(x, buffer_sizes=buffer_sizes)
    f_encode_frame = lambda x: encode_frame(x, dest_dtype=dest_dtype)
    pipeline = TranscodePipelineStruct(
        f_decode_frame,
        processes,
        f_encode_frame
    )

    result = PipelineTranscoder(data_streams, pipeline)
    return result


# --------------------------------------------------------------------------
# recording stream
# --------------------------------------------------------------------------
class Boom(Exception):
    pass


class RecordingStream(io.BytesIO):
    def __init__(self, data, tag, log, fail_seek=False):
        super().__init__(data)
        self._tag = tag
        self._log = log
        self._fail_seek = fail_seek

    def seek(self, *args, **kwargs):
        self._log.append(("seek", self._tag, args, tuple(sorted(kwargs.items()))))
        if self._fail_seek:
            raise Boom("seek " + self._tag)
        return super().seek(*args, **kwargs)

    def read(self, *args, **kwargs):
        before = super().tell()
        data = super().read(*args, **kwargs)
        self._log.append(("read", self._tag, args, before, len(data)))
        return data

    def tell(self):
        pos = super().tell()
        self._log.append(("tell", self._tag, pos))
        return pos

    def raw_tell(self):
        return io.BytesIO.tell(self)


def make_encoding(spec):
    return StreamEncoding(
        endianess=spec[0], sample_width=spec[1],
        num_interleaved_channels=spec[2], is_signed=spec[3])


def run(func, case):
    log = []
    streams = []
    for i, s in enumerate(case["streams"]):
        rec = RecordingStream(s["data"], "s%d" % i, log,
                              fail_seek=s["fail_seek"])
        io.BytesIO.seek(rec, s["start"], SEEK_SET)
        streams.append(DataStream(rec, make_encoding(s["enc"])))
    if case.get("alias") and len(streams) > 1:
        # the same DataStream object listed twice
        streams[-1] = streams[0]
    dest = make_encoding(case["dest"])
    container = list(streams) if case["as_list"] else tuple(streams)
    out = []
    try:
        transcoder = func(container, dest)
    except BaseException as e:  # noqa - all exceptions are observables
        out.append(("exc", type(e).__name__, str(e)))
        transcoder = None
    if transcoder is not None:
        out.append(("type", type(transcoder).__name__))
        if isinstance(transcoder, PassthroughTranscoder):
            out.append(("passthrough", transcoder.buffer_size,
                        transcoder.data_stream is streams[0]))
        elif isinstance(transcoder, PipelineTranscoder):
            out.append(("pipeline",
                        [name for name, _ in transcoder.pipeline.processes],
                        transcoder.data_streams is container))
        log.append(("made",))
        try:
            for n, chunk in enumerate(transcoder):
                out.append(("chunk", bytes(chunk)))
                if n > 64:
                    break
        except BaseException as e:  # noqa
            out.append(("iter_exc", type(e).__name__, str(e)))
    out.append(("positions", [s.stream.raw_tell() for s in streams]))
    return out, log


ENDIAN = [Endianess.LITTLE, Endianess.BIG]


def random_encoding(rng, channels=None, allow_weird=True):
    width = rng.choice([1, 2, 2, 2, 4, 8] + ([0, 3] if allow_weird else []))
    if channels is None:
        channels = rng.choice([1, 1, 2, 2, 3] + ([0] if allow_weird else []))
    return (rng.choice(ENDIAN), width, channels, rng.choice([True, False]))


def random_case(rng):
    n_streams = rng.choice([0, 1, 1, 1, 2, 2, 3, 4])
    streams = []
    for _ in range(n_streams):
        enc = random_encoding(rng)
        length = rng.choice([0, 1, 2, 3, 7, 16, 100, 4096, 4097, 9000])
        data = bytes(rng.randrange(256) for _ in range(length))
        start = rng.choice([0, 0, 1, length // 2, length, length + 5])
        streams.append({"enc": enc, "data": data, "start": start,
                        "fail_seek": rng.random() < 0.05})
    total = sum(max(1, s["enc"][2]) for s in streams)
    roll = rng.random()
    if n_streams == 1 and roll < 0.35:
        dest = streams[0]["enc"]                      # passthrough candidate
    elif roll < 0.85:
        dest = random_encoding(rng, channels=total, allow_weird=False)
    else:
        dest = random_encoding(rng)                   # likely a mismatch
    return {"streams": streams, "dest": dest,
            "alias": rng.random() < 0.05, "as_list": rng.random() < 0.9}


def handwritten_cases():
    le16m = (Endianess.LITTLE, 2, 1, True)
    be16m = (Endianess.BIG, 2, 1, True)
    le16s = (Endianess.LITTLE, 2, 2, True)
    be16s = (Endianess.BIG, 2, 2, True)
    u8m = (Endianess.LITTLE, 1, 1, False)
    zero_ch = (Endianess.LITTLE, 2, 0, True)
    zero_w = (Endianess.LITTLE, 0, 1, True)
    ramp = bytes(range(256)) * 40

    def st(enc, data=ramp, start=0, fail=False):
        return {"enc": enc, "data": data, "start": start, "fail_seek": fail}

    cases = []
    for dest in (le16m, be16m, le16s, be16s, u8m, zero_ch, zero_w):
        cases.append({"streams": [], "dest": dest})
        for a in (le16m, be16m, le16s, u8m, zero_ch, zero_w):
            for start in (0, 1, 5000, len(ramp), len(ramp) + 10):
                cases.append({"streams": [st(a, start=start)], "dest": dest})
            for b in (le16m, be16m, zero_ch):
                cases.append({"streams": [st(a, start=3), st(b, ramp[:999], 999)],
                              "dest": dest})
                cases.append({"streams": [st(a, start=3),
                                          st(b, ramp[:999], 10, fail=True)],
                              "dest": dest})
                cases.append({"streams": [st(a, start=3, fail=True),
                                          st(b, ramp[:999], 10)],
                              "dest": dest})
    for c in cases:
        c.setdefault("alias", False)
        c.setdefault("as_list", True)
    return cases


def main():
    rng = random.Random(160008)
    cases = handwritten_cases()
    for _ in range(2500):
        cases.append(random_case(rng))

    bad = 0
    kinds = {}
    for i, case in enumerate(cases):
        live = run(make_transcoder, case)
        ref = run(orig_make_transcoder, case)
        kinds[ref[0][0][:2]] = kinds.get(ref[0][0][:2], 0) + 1
        if live != ref:
            bad += 1
            if bad <= 5:
                print("MISMATCH in case", i,
                      {k: v for k, v in case.items() if k != "streams"},
                      [(s["enc"], len(s["data"]), s["start"], s["fail_seek"])
                       for s in case["streams"]])
                print("  live:", live[0][:3], live[1][:6])
                print("  ref :", ref[0][:3], ref[1][:6])
    print("cases: %d, mismatches: %d" % (len(cases), bad))
    for k in sorted(kinds, key=str):
        print("   ", k, kinds[k])
    return 1 if bad else 0


if __name__ == "__main__":
    sys.exit(main())
