"""Equivalence demo for r20: block sizing declarations in
smpl_extract/transcoder.py - the module constant _DEFAULT_BUFFER_SIZE (target
block size, default of get_num_frames_possible) and the declaration of the
`buffer_size` field of the PassthroughTranscoder dataclass.

Compared against precomputed values and an inline copy of the ORIGINAL
declarations:

  1. the constant (value and type), the default of get_num_frames_possible,
     the dataclass field table of PassthroughTranscoder (name, type, default,
     default_factory, init/repr/compare/hash/kw_only flags), its __init__
     signature, class attribute, repr and equality of instances;
  2. get_num_frames_possible / get_buffer_sizes for every combination of
     widths and channel counts against the ORIGINAL formulas;
  3. iteration of PassthroughTranscoder built WITHOUT an explicit buffer_size
     (so the declared default is what sizes the blocks) and with explicit
     sizes, over streams shorter and longer than one block and with partial
     trailing frames: the list of yielded blocks and the sizes requested from
     the stream must match the ORIGINAL class;
  4. complete make_transcoder runs (default block size), block by block
     against the same run with the ORIGINAL sizing functions / passthrough
     class patched in, and for equal-length sources also against output
     computed independently with numpy, including the block boundaries.

Exit 0 when everything agrees, 1 otherwise.
"""
from dataclasses import MISSING
from dataclasses import dataclass
from dataclasses import fields
from io import BytesIO
import inspect
import itertools
import random
import sys
from unittest.mock import patch

import numpy as np

import smpl_extract.transcoder as T
from smpl_extract.data_streams import DataStream
from smpl_extract.data_streams import Endianess
from smpl_extract.data_streams import StreamEncoding
from smpl_extract.util.stream import SectorReadError


# ------------------------------------------------ ORIGINAL declarations
_DEFAULT_BUFFER_SIZE_ORIG = 0x1000


def get_num_frames_possible_ORIG(stream, target_size=_DEFAULT_BUFFER_SIZE_ORIG):
    frame_size = stream.frame_size
    num_frames = max(1, target_size // frame_size)
    return num_frames


def get_buffer_sizes_ORIG(streams):
    num_frames = min(list(get_num_frames_possible_ORIG(x) for x in streams))
    buffer_sizes = list(num_frames * x.frame_size for x in streams)
    return buffer_sizes


@dataclass
class PassthroughTranscoder_ORIG:
    data_stream:    DataStream
    buffer_size:    int = _DEFAULT_BUFFER_SIZE_ORIG


    def __iter__(self):
        return self


    def __next__(self):
        stream = self.data_stream.stream
        try:
            buffer = stream.read(self.buffer_size)
        except SectorReadError as e:
            raise StopIteration

        frame_size = self.data_stream.frame_size
        buffer = T.resize_buffer(buffer, frame_size)

        if len(buffer) <= 0:
            raise StopIteration

        return buffer


failures = []
checks = 0


def check(label, a, b):
    global checks
    checks += 1
    if a != b:
        failures.append((label, a, b))


def pattern(n, seed=0):
    rnd = random.Random(seed)
    return bytes(rnd.randrange(256) for _ in range(n))


class LoggedBytesIO(BytesIO):
    def __init__(self, data):
        super().__init__(data)
        self.log = []

    def read(self, size=-1):
        self.log.append(("read", size))
        return super().read(size)


# ------------------------------------------------------- 1. declarations
check("constant value", T._DEFAULT_BUFFER_SIZE, 4096)
check("constant type", type(T._DEFAULT_BUFFER_SIZE), int)
check("constant vs orig", T._DEFAULT_BUFFER_SIZE, _DEFAULT_BUFFER_SIZE_ORIG)
check("default arg", T.get_num_frames_possible.__defaults__, (4096,))


def field_table(cls):
    return [
        (f.name, f.type, f.default, f.default_factory is MISSING, f.init,
         f.repr, f.compare, f.hash, f.kw_only, dict(f.metadata))
        for f in fields(cls)
    ]


check("field table", field_table(T.PassthroughTranscoder),
      field_table(PassthroughTranscoder_ORIG))
check("field table literal", field_table(T.PassthroughTranscoder), [
    ("data_stream", DataStream, MISSING, True, True, True, True, None, False,
     {}),
    ("buffer_size", int, 4096, True, True, True, True, None, False, {}),
])
check("signature", str(inspect.signature(T.PassthroughTranscoder)),
      str(inspect.signature(PassthroughTranscoder_ORIG)))
check("signature literal",
      str(inspect.signature(T.PassthroughTranscoder)).replace(
          "smpl_extract.data_streams.", ""),
      "(data_stream: DataStream, buffer_size: int = 4096) -> None")
check("class attribute", T.PassthroughTranscoder.buffer_size,
      PassthroughTranscoder_ORIG.buffer_size)
check("class attribute type", type(T.PassthroughTranscoder.buffer_size), int)
check("annotations", T.PassthroughTranscoder.__annotations__,
      PassthroughTranscoder_ORIG.__annotations__)
check("no data_stream class attribute",
      hasattr(T.PassthroughTranscoder, "data_stream"),
      hasattr(PassthroughTranscoder_ORIG, "data_stream"))
check("hash setting", T.PassthroughTranscoder.__hash__,
      PassthroughTranscoder_ORIG.__hash__)
check("match args", T.PassthroughTranscoder.__match_args__,
      PassthroughTranscoder_ORIG.__match_args__)

ds = DataStream(BytesIO(b"abcd"), StreamEncoding(sample_width=2))
for args, kwargs in [((ds,), {}), ((ds, 8), {}), ((ds,), {"buffer_size": 6}),
                     ((), {"data_stream": ds}), ((), {}), ((ds, 1, 2), {}),
                     ((ds,), {"block": 3})]:
    def build(cls):
        try:
            obj = cls(*args, **kwargs)
            return ("ok", obj.buffer_size, obj.data_stream is ds,
                    repr(obj).replace("_ORIG", ""), vars(obj) == dict(
                        data_stream=ds, buffer_size=obj.buffer_size))
        except TypeError as e:
            return ("exc", str(e).replace("_ORIG", ""))
    check(("construct", len(args), tuple(kwargs)),
          build(T.PassthroughTranscoder), build(PassthroughTranscoder_ORIG))
check("eq default vs explicit",
      T.PassthroughTranscoder(ds) == T.PassthroughTranscoder(ds, 0x1000), True)
check("neq", T.PassthroughTranscoder(ds) == T.PassthroughTranscoder(ds, 8),
      False)


# ------------------------------------------------------- 2. block sizing
encodings = [
    StreamEncoding(sample_width=w, num_interleaved_channels=n)
    for w, n in itertools.product((1, 2, 3, 4, 8, 4096, 5000), (1, 2, 3, 7))
]
streams_all = [DataStream(BytesIO(b""), e) for e in encodings]
for s in streams_all:
    check(("frames possible", s.frame_size), T.get_num_frames_possible(s),
          get_num_frames_possible_ORIG(s))
    for target in (0, 1, 2, 7, 64, 4095, 4096, 4097, 10 ** 6):
        check(("frames possible", s.frame_size, target),
              T.get_num_frames_possible(s, target),
              get_num_frames_possible_ORIG(s, target))
for count in (1, 2, 3):
    for combo in itertools.combinations(streams_all, count):
        check(("buffer sizes", tuple(s.frame_size for s in combo)),
              T.get_buffer_sizes(list(combo)),
              get_buffer_sizes_ORIG(list(combo)))
zero = DataStream(BytesIO(b""), StreamEncoding(sample_width=0))
for f_new, f_old in [(T.get_num_frames_possible, get_num_frames_possible_ORIG)]:
    res = []
    for f in (f_new, f_old):
        try:
            res.append(f(zero))
        except ZeroDivisionError as e:
            res.append(("ZeroDivisionError", str(e)))
    check("zero frame size", res[0], res[1])


# ------------------------------------------- 3. passthrough with default
def run_passthrough(cls, data, width, nch, size_args):
    sub = LoggedBytesIO(data)
    enc = StreamEncoding(sample_width=width, num_interleaved_channels=nch)
    transcoder = cls(DataStream(sub, enc), *size_args)
    blocks = [bytes(b) for b in transcoder]
    return blocks, sub.log, transcoder.buffer_size


for width, nch in itertools.product((1, 2, 3, 4), (1, 2, 3)):
    frame = width * nch
    for length in (0, 1, frame - 1, frame, 5 * frame + 1, 4095, 4096, 4097,
                   8192, 8192 + frame, 3 * 4096 + 5, 20000):
        data = pattern(max(0, length), seed=length)
        for size_args in ((), (frame,), (7 * frame,), (4096,), (4096 // frame * frame,)):
            label = ("passthrough", width, nch, length, size_args)
            check(label,
                  run_passthrough(T.PassthroughTranscoder, data, width, nch,
                                  size_args),
                  run_passthrough(PassthroughTranscoder_ORIG, data, width,
                                  nch, size_args))
        # with the declared default the first request is 4096 bytes
        blocks, log, size = run_passthrough(T.PassthroughTranscoder, data,
                                            width, nch, ())
        check(("default request", width, nch, length),
              (size, log[0]), (4096, ("read", 4096)))


# ------------------------------------------------- 4. make_transcoder runs
def expected_output(sources, width):
    """Independent model: cut to blocks, de-interleave, interleave."""
    dt = {1: "i1", 2: "i2", 4: "i4"}[width]
    frame_sizes = [n * width for _, n, _ in sources]
    frames_per_block = min(max(1, 4096 // fs) for fs in frame_sizes)
    positions = [0] * len(sources)
    out = []
    while True:
        channels = []
        for i, (data, nch, order) in enumerate(sources):
            size = frames_per_block * frame_sizes[i]
            raw = data[positions[i]:positions[i] + size]
            positions[i] += len(raw)
            raw = raw[:len(raw) // frame_sizes[i] * frame_sizes[i]]
            arr = np.frombuffer(raw, dtype=(">" if order == Endianess.BIG
                                            else "<") + dt)
            arr = arr.astype("<" + dt)
            for c in range(nch):
                channels.append(arr[c::nch])
        if any(len(c) == 0 for c in channels):
            break
        longest = max(len(c) for c in channels)
        channels = [np.concatenate([c, np.zeros(longest - len(c), c.dtype)])
                    for c in channels]
        out.append(np.stack(channels, axis=1).astype("<" + dt).tobytes())
    return out


orders = [Endianess.LITTLE, Endianess.BIG]
rnd = random.Random(5)
for num_streams in (1, 2, 3):
    for width in (1, 2, 4):
        for stream_orders in itertools.product(orders, repeat=num_streams):
            for host in orders:
                for variant in range(3):
                    nchs = [rnd.choice([1, 2, 3]) for _ in range(num_streams)]
                    frames = rnd.choice([0, 3, 700, 1365, 1366, 4096, 5000])
                    sources = []
                    for i in range(num_streams):
                        n = frames if variant == 0 else rnd.randrange(0, 6000)
                        extra = rnd.choice([0, 0, 1]) if variant == 2 else 0
                        sources.append((
                            pattern(n * nchs[i] * width + extra, seed=n + i),
                            nchs[i], stream_orders[i]))
                    streams = [
                        DataStream(BytesIO(data), StreamEncoding(
                            endianess=order, sample_width=width,
                            num_interleaved_channels=nch))
                        for data, nch, order in sources
                    ]
                    dest = StreamEncoding(
                        endianess=Endianess.LITTLE, sample_width=width,
                        num_interleaved_channels=sum(nchs))
                    label = ("transcode", num_streams, width, stream_orders,
                             host, variant, tuple(nchs))
                    with patch.object(T, "system_byte_order", host):
                        transcoder = T.make_transcoder(streams, dest)
                    got = [bytes(b) for b in transcoder]
                    # same run with the ORIGINAL block sizing patched in
                    with patch.object(T, "system_byte_order", host), \
                            patch.object(T, "get_buffer_sizes",
                                         get_buffer_sizes_ORIG):
                        transcoder = T.make_transcoder(streams, dest)
                        if isinstance(transcoder, T.PassthroughTranscoder):
                            transcoder = PassthroughTranscoder_ORIG(
                                transcoder.data_stream,
                                buffer_size=transcoder.buffer_size)
                    check(label + ("vs orig",), got,
                          [bytes(b) for b in transcoder])
                    if variant == 0:
                        # equal lengths: nothing is padded, so the simple
                        # independent model applies
                        check(label + ("vs model",), got,
                              expected_output(sources, width))


print(f"{checks} checks, {len(failures)} disagreements")
for failure in failures[:5]:
    print("DISAGREE", repr(failure)[:600])
sys.exit(1 if failures else 0)
