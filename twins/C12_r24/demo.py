"""Equivalence demo for r24: smpl_extract.util.sector.SectorStream._read_sector
(the single-sector read behind SectorStream._read and, through inheritance,
util.fat.FileStream; a short sector read becomes the SectorReadError that is
the stop condition of PassthroughTranscoder / PipelineTranscoder).

The live _read_sector is compared with an inline copy of the ORIGINAL that is
mounted on twin subclasses of SectorStream and FileStream:

  1. direct calls over a grid of sector lengths x sector indices x offsets x
     sizes (inside the sector, exactly up to the boundary, one byte beyond,
     negative values, indices beyond the FAT chain, truncated images) -
     return values, exceptions (type and text) and the complete log of
     seek/read calls on the underlying stream must agree;
  2. random scripts of public seek / read / tell calls on both stream
     classes, comparing results, exceptions, position / true_size and the
     substream log;
  3. complete transcodings through make_transcoder over sector-backed
     streams whose image is complete or truncated (so that the stop
     condition fires in the middle of the data), for the passthrough and the
     pipeline transcoder, 1..3 streams, both byte orders, several block
     sizes, byte for byte.

Exit 0 when everything agrees, 1 otherwise.
"""
from io import BytesIO
from io import SEEK_CUR
from io import SEEK_END
from io import SEEK_SET
import itertools
import random
import sys

import smpl_extract.transcoder as T
from smpl_extract.data_streams import DataStream
from smpl_extract.data_streams import Endianess
from smpl_extract.data_streams import StreamEncoding
from smpl_extract.util.fat import FileStream
from smpl_extract.util.sector import SectorStream
from smpl_extract.util.stream import AttemptToReadBeyondBuffer


# ---------------------------------------------------------------- ORIGINAL
def _read_sector_ORIG(self, sector_index, offset, size):
    if offset + size > self.sector_length:
        raise AttemptToReadBeyondBuffer("Reading too much")

    start_address = self._get_address_given_sector_index(
        sector_index,
        offset
    )

    self.substream.seek(start_address, SEEK_SET)
    result = self.substream.read(size)
    return result


_twins = {}


def twin(cls):
    if cls not in _twins:
        _twins[cls] = type(cls.__name__ + "ORIG", (cls,),
                           {"_read_sector": _read_sector_ORIG})
    return _twins[cls]


def same(cls):
    return cls


# ------------------------------------------------------------------ helpers
class LoggedBytesIO(BytesIO):
    def __init__(self, data):
        super().__init__(data)
        self.log = []

    def seek(self, *args):
        try:
            result = super().seek(*args)
        except Exception as e:  # noqa: BLE001
            self.log.append(("seek", args, "exc", type(e).__name__))
            raise
        self.log.append(("seek", args, result))
        return result

    def read(self, *args):
        result = super().read(*args)
        self.log.append(("read", args, result))
        return result

    def tell(self):
        result = super().tell()
        self.log.append(("tell", result))
        return result


def outcome(f, *args, **kwargs):
    try:
        result = f(*args, **kwargs)
        return ("ok", type(result).__name__, result)
    except Exception as e:  # noqa: BLE001
        return ("exc", type(e).__name__, str(e))


failures = []
checks = 0


def check(label, a, b):
    global checks
    checks += 1
    if a != b:
        failures.append(label)
        if len(failures) <= 10:
            print("MISMATCH", label, repr(a)[:200], repr(b)[:200])


def pattern(n, seed):
    rnd = random.Random(seed)
    return bytes(rnd.randrange(256) for _ in range(n))


# --------------------------------------------------------- 1. direct calls
def run_direct():
    values = [-5, -1, 0, 1, 2, 3, 4, 5, 7, 8, 9, 16, 17, 40]
    for sector_length in (1, 4, 8, 16):
        for image_size in (0, 10, 64, 200):
            data = pattern(image_size, sector_length * 1000 + image_size)
            chain = [3, 0, 7, 1, 12]

            def build(t):
                raw_a, raw_b = LoggedBytesIO(data), LoggedBytesIO(data)
                return (
                    (t(SectorStream)(raw_a, image_size, sector_length), raw_a),
                    (t(FileStream)(raw_b, sector_length, chain), raw_b),
                )

            live_pair, orig_pair = build(same), build(twin)
            for (live, raw_live), (orig, raw_orig) in zip(live_pair, orig_pair):
                for index, offset, size in itertools.product(
                        [-6, -1, 0, 1, 2, 4, 5, 30], values, values):
                    label = (type(live).__name__, sector_length, image_size,
                             index, offset, size)
                    check(label,
                          outcome(live._read_sector, index, offset, size),
                          outcome(orig._read_sector, index, offset, size))
                check((type(live).__name__, sector_length, image_size, "log"),
                      raw_live.log, raw_orig.log)
                check((type(live).__name__, sector_length, image_size, "st"),
                      (live.position, live.true_size),
                      (orig.position, orig.true_size))
    # huge ints stay exact
    for t, collected in ((same, []), (twin, [])):
        s = t(SectorStream)(LoggedBytesIO(b"abc"), 3, 10 ** 30)
        collected.append(outcome(s._read_sector, 0, 10 ** 30 - 1, 1))
        collected.append(outcome(s._read_sector, 0, 10 ** 30 - 1, 2))
        collected.append(outcome(s._read_sector, 0, 2 ** 70, -(2 ** 70)))
        if t is same:
            first = collected
        else:
            check("huge ints", first, collected)


# ------------------------------------------------------- 2. random scripts
def run_scripts():
    rng = random.Random(2401)
    for case in range(1200):
        sector_length = rng.choice([1, 2, 4, 16, 100])
        data = pattern(rng.choice([0, 1, 7, 64, 300, 1000]), case)
        kind = rng.choice(["sector", "fat"])
        if kind == "sector":
            size = rng.choice([len(data), len(data) // 2, len(data) + 9, 0])
            position = rng.choice([0, 0, 3, size])

            def build(t):
                raw = LoggedBytesIO(data)
                return t(SectorStream)(raw, size, sector_length,
                                       position=position), raw
        else:
            chain = [rng.randrange(0, 14)
                     for _ in range(rng.choice([0, 1, 3, 9]))]
            position = rng.choice([0, 0, 3])

            def build(t):
                raw = LoggedBytesIO(data)
                return t(FileStream)(raw, sector_length, list(chain),
                                     position=position), raw

        live, raw_live = build(same)
        orig, raw_orig = build(twin)
        for step_no in range(rng.randrange(1, 14)):
            op = rng.choice(["seek", "read", "read", "read", "tell"])
            if op == "seek":
                args = (rng.choice([0, 1, -1, 2, 5, 33, -50, 500]),
                        rng.choice([SEEK_SET, SEEK_CUR, SEEK_END]))
                a, b = outcome(live.seek, *args), outcome(orig.seek, *args)
            elif op == "read":
                args = (rng.choice([0, 1, 2, 3, 4, 8, 17, 24, 150, 999, -1]),)
                a, b = outcome(live.read, *args), outcome(orig.read, *args)
            else:
                args = ()
                a, b = outcome(live.tell), outcome(orig.tell)
            where = (case, kind, step_no, op, args)
            check(where, a, b)
            check(where + ("state",), (live.position, live.true_size),
                  (orig.position, orig.true_size))
        check((case, kind, "log"), raw_live.log, raw_orig.log)


# -------------------------------------------------- 3. complete transcodings
def run_transcodings():
    rng = random.Random(2402)
    stops = 0
    for case in range(500):
        width = rng.choice([1, 2, 4])
        num_streams = rng.choice([1, 1, 1, 2, 3])
        sector_length = rng.choice([4, 16, 64, 2048])
        base_frames = rng.choice([0, 1, 5, 100, 1500])
        specs = []
        for i in range(num_streams):
            nch = rng.choice([1, 1, 2, 3])
            endian = rng.choice([Endianess.LITTLE, Endianess.BIG])
            frames = base_frames if rng.random() < 0.5 \
                else rng.choice([0, 1, 3, 77, 1100])
            length = frames * nch * width + rng.choice([0, 0, 1])
            kind = rng.choice(["sector", "fat"])
            num_sectors = -(-length // sector_length) + rng.choice([0, 0, 1])
            if kind == "fat":
                chain = list(range(num_sectors + 2))
                rng.shuffle(chain)
                chain = chain[:num_sectors]
                if chain and rng.random() < 0.2:
                    chain[-1] = num_sectors + 50    # beyond the image
                image_size = (num_sectors + 2) * sector_length
            else:
                chain = None
                image_size = num_sectors * sector_length
            if rng.random() < 0.35:                 # truncated image
                image_size = rng.randrange(0, image_size + 1)
            data = pattern(image_size, case * 10 + i)
            specs.append((nch, endian, length, kind, chain, data))
        total = sum(s[0] for s in specs)
        dest = StreamEncoding(
            endianess=rng.choice([Endianess.LITTLE, Endianess.LITTLE,
                                  Endianess.BIG]),
            sample_width=width, num_interleaved_channels=total)
        host = rng.choice([Endianess.LITTLE, Endianess.BIG])
        block = rng.choice([1, width, 3 * width, 16, 64, 4096])

        def transcode(t):
            streams, raws = [], []
            for nch, endian, length, kind, chain, data in specs:
                raw = LoggedBytesIO(data)
                raws.append(raw)
                if kind == "fat":
                    s = t(FileStream)(raw, sector_length, list(chain))
                else:
                    s = t(SectorStream)(raw, length, sector_length)
                enc = StreamEncoding(endianess=endian, sample_width=width,
                                     num_interleaved_channels=nch)
                streams.append(DataStream(s, enc))
            defaults = T.get_num_frames_possible.__defaults__
            try:
                T.get_num_frames_possible.__defaults__ = (block,)
                with patch_host(host):
                    transcoder = T.make_transcoder(streams, dest)
                    blocks = [bytes(b) for b in transcoder]
            finally:
                T.get_num_frames_possible.__defaults__ = defaults
            return (type(transcoder).__name__, blocks,
                    [(d.stream.position, d.stream.true_size) for d in streams],
                    [r.log for r in raws])

        a = outcome(transcode, same)
        b = outcome(transcode, twin)
        check(("transcoding", case), a, b)
        if a[0] == "ok":
            produced = sum(len(x) for x in a[2][1])
            shortest = min(s[2] // (s[0] * width) for s in specs) * total * width
            if produced < shortest:
                stops += 1
    return stops


def patch_host(host):
    from unittest.mock import patch
    return patch.object(T, "system_byte_order", host)


if __name__ == "__main__":
    run_direct()
    run_scripts()
    stops = run_transcodings()
    print(f"{checks} checks ({stops} transcodings ended early by the stop "
          f"condition), {len(failures)} mismatches")
    sys.exit(1 if failures else 0)
