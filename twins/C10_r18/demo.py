"""Equivalence demo for r18 (the name a child is looked up by and listed
under: base.Element.safe_name, read by Traversable.parse_path for every
sibling and by Traversable.get_info / LeafElement.get_info; its twin
Element.export_name is refactored the same way).

The properties as currently in the tree are compared with an inline copy of
the ORIGINAL implementations:
  * on synthetic Element subclasses in every state the attribute can be in:
    `_safe_name` / `_export_name` absent (Element.__init__ never ran, as for
    dataclass leaves and the AKAI image), None, "", " ", a name, a str
    subclass, 0, False, (), a non-string object, set on the class only,
    set on the class and shadowed on the instance, deleted again, kept in
    __slots__ and never assigned, produced by a property that returns
    a value / None / raises AttributeError / raises something else; crossed
    with `name` being a class attribute, an instance attribute, a property,
    missing, or a property that raises: same value (identity) or the same
    exception type and message;
  * Element.export_path (built from export_name along the parent chain) on
    chains of such elements;
  * through the two routines that assign the names
    (Image.make_safe_names_routine / make_export_names_routine) on lists with
    duplicated, blank and odd raw names: same names read back;
  * end to end: ls_action on a synthetic Image tree, on a CDDA bin/cue image
    and on an AKAI image with duplicated volume names, for printed names,
    variations (blanks, case, trailing separators, `A:`) and unrelated
    paths, plus export_samples_to_wav of the CDDA image into a fresh temp
    directory, with the original properties patched onto Element versus the
    tree's properties: same stdout, same exported file names.
Exit 0 when all agree, else 1.
"""
import contextlib
from dataclasses import dataclass
import io
import itertools
import os
import shutil
import sys
import tempfile

import smpl_extract.actions as actions
from smpl_extract.akai.data_types import AKAI_PARTITION_MAGIC
from smpl_extract.akai.data_types import AKAI_SAT_ENTRY_CNT
from smpl_extract.akai.data_types import AKAI_SECTOR_SIZE
from smpl_extract.akai.data_types import AKAI_VOLUME_ENTRY_CNT
from smpl_extract.akai.data_types import FILE_TABLE_END_FLAG
from smpl_extract.base import Element
from smpl_extract.base import ElementTypes
from smpl_extract.elements import LeafElement
from smpl_extract.structural import Image
from smpl_extract.structural import Traversable


# ---- ORIGINAL implementations (verbatim) ----------------------------------
def _orig_safe_name(self) -> str:
    result = self.name
    if hasattr(self, "_safe_name"):
        if self._safe_name is not None:
            result = self._safe_name
    return result


def _orig_export_name(self) -> str:
    result = self.name
    if hasattr(self, "_export_name"):
        if self._export_name is not None:
            result = self._export_name
    return result


ORIG = {
    "safe_name": property(_orig_safe_name),
    "export_name": property(_orig_export_name),
}
NEW = {
    "safe_name": Element.__dict__["safe_name"],
    "export_name": Element.__dict__["export_name"],
}


@contextlib.contextmanager
def original_world():
    for key, prop in ORIG.items():
        setattr(Element, key, prop)
    try:
        yield
    finally:
        for key, prop in NEW.items():
            setattr(Element, key, prop)


class Boom(Exception):
    pass


class StrSub(str):
    pass


class Odd:
    def __repr__(self):
        return "<odd>"


ODD = Odd()
SUB = StrSub("sub")
ABSENT = object()

# values the private attribute may hold
STORED = [ABSENT, None, "", " ", "Given", "given (2)", SUB, 0, False, (),
          ODD, 0.0, [], "None"]


def make_element(name_mode, store_mode, attr, stored, ran_init):
    """Builds a fresh class + instance for one state."""
    body = {"type_id": ElementTypes.SampleEntry, "type_name": "T",
            "get_info": lambda self: None}
    if name_mode == "class":
        body["name"] = "Raw Name"
    elif name_mode == "property":
        body["name"] = property(lambda self: "Prop Name")
    elif name_mode == "raising":
        def raising(self):
            raise Boom("name failed")
        body["name"] = property(raising)
    elif name_mode == "attribute-error":
        def raising(self):
            raise AttributeError("no name for you")
        body["name"] = property(raising)

    if store_mode == "class" and stored is not ABSENT:
        body[attr] = stored
    elif store_mode == "slots":
        body["__slots__"] = (attr,)
    elif store_mode == "property":
        if stored is ABSENT:
            def getter(self):
                raise AttributeError(attr)
        else:
            def getter(self):
                return stored
        body[attr] = property(getter)
    elif store_mode == "property-raising":
        def getter(self):
            raise Boom(f"{attr} failed")
        body[attr] = property(getter)

    if not ran_init or store_mode in ("slots", "property",
                                     "property-raising"):
        body["__init__"] = lambda self: None
    cls = type("Synthetic", (Element,), body)
    try:
        obj = cls()
    except BaseException as exc:  # noqa: B902
        return ("no-instance", type(exc).__name__)
    if name_mode == "instance":
        obj.name = "Inst Name"
    if store_mode == "instance" and stored is not ABSENT:
        setattr(obj, attr, stored)
    elif store_mode == "shadow":
        setattr(cls, attr, "On Class")
        if stored is not ABSENT:
            setattr(obj, attr, stored)
    elif store_mode == "deleted":
        setattr(obj, attr, stored if stored is not ABSENT else "x")
        delattr(obj, attr)
    elif store_mode == "slots" and stored is not ABSENT:
        setattr(obj, attr, stored)
    return obj


def read(obj, prop_name):
    if isinstance(obj, tuple):
        return obj
    try:
        value = getattr(obj, prop_name)
        return ("ok", type(value).__name__, repr(value),
                value is ODD, value is SUB)
    except BaseException as exc:  # noqa: B902
        return ("exc", type(exc).__name__, str(exc))


def states():
    name_modes = ["class", "instance", "property", "missing", "raising",
                  "attribute-error"]
    store_modes = ["instance", "class", "shadow", "deleted", "slots",
                   "property", "property-raising"]
    for name_mode, store_mode, stored, ran_init in itertools.product(
            name_modes, store_modes, STORED, (True, False)):
        yield name_mode, store_mode, stored, ran_init


# ---- export_path chains ----------------------------------------------------
class Node(Element):
    type_id = ElementTypes.DirectoryEntry
    type_name = "Node"

    def __init__(self, name, path, parent, export=ABSENT, call_init=True):
        if call_init:
            super().__init__(path, parent)
        else:
            self._path = path
            self._parent = parent
        self.name = name
        if export is not ABSENT:
            self._export_name = export

    def get_info(self):
        return None


def chains():
    exports = [ABSENT, None, "", "Exp", 0, SUB]
    for first, second, third in itertools.product(exports, repeat=3):
        for call_init in (True, False):
            root = Node("root", [], None, first, call_init)
            mid = Node("mid", ["mid"], root, second, call_init)
            leaf = Node("leaf", ["mid", "leaf"], mid, third, call_init)
            yield root, mid, leaf


# ---- routines --------------------------------------------------------------
@dataclass
class FakeLeaf(LeafElement):
    name: str = ""
    type_name: str = "Leaf"
    size: int = 7
    type_id = ElementTypes.SampleEntry


class BareImage(Image):
    name = "Bare"
    type_name = "Bare Image"

    def __init__(self):
        pass


RAW_LISTS = [
    [],
    ["KICK"],
    ["KICK", "KICK", "KICK (2)", "KICK", "SNARE L", "SNARE L", "SNARE R"],
    ["", "", " ", "''", "\"", ":", "a:b", "a/b", "a\\b", "..", "-", "."],
    ["x", "X", "x ", " x", "x.", "x..", "☃", "é", "a'b", "ab", "a b"],
]


def routine_names(raw_names):
    image = BareImage()
    out = []
    for routine in (image.make_safe_names_routine,
                    image.make_export_names_routine,
                    image.make_safe_names_routine):
        elements = [FakeLeaf(name=raw) for raw in raw_names]
        before = [(e.safe_name, e.export_name) for e in elements]
        returned = routine(elements)
        after = [(e.safe_name, e.export_name) for e in returned]
        out.append((before, after))
    return out


# ---- end to end ------------------------------------------------------------
class FakeImage(Image):
    name = "Fake Image"
    type_name = "Fake Image"
    type_id = ElementTypes.DirectoryEntry

    def __init__(self, spec):
        Traversable.__init__(self, lambda ctx: self._make(spec, ctx, self))

    @staticmethod
    def _make(spec, ctx, parent):
        routines = ctx["_elem_routines"]
        made = []
        for entry in spec:
            if isinstance(entry, tuple):
                raw, sub = entry
                node = Traversable(
                    (lambda sub: lambda c: FakeImage._make(sub, c, None))(sub),
                    routines=routines, path=[raw], parent=parent,
                    type_name="Dir",
                )
                node.name = raw
            else:
                node = FakeLeaf(name=entry)
            made.append(node)
        return made


RAW_SPEC = [
    ("VOL", ["KICK", "KICK", "KICK (2)", "KICK", "SNARE L", "SNARE L",
             "SNARE (2) L", "SNARE R"]),
    ("VOL", ["x", "x", "x", "x (2)", "x (3)", "x (5)", "x"]),
    ("VOL (2)", ["a'b", "ab", "a b", "a:b", "a/b"]),
    ("vol", ["", "", " ", "''"]),
    "VOL",
    "LEAF",
    "LEAF",
    "LEAF (2)",
    "LEAF (2)",
    "it's",
    "  padded  ",
]


def printed_names(listing):
    names = []
    rows = listing.splitlines()[2:]
    if listing.endswith("\n\n") and rows and rows[-1] == "":
        rows = rows[:-1]
    for line in rows:
        names.append(line[:20].rstrip() if len(line) >= 20 else line.rstrip())
    return names


def ls_text(image, path):
    buf = io.StringIO()
    with contextlib.redirect_stdout(buf):
        actions.ls_action(image, path)
    return buf.getvalue()


def ls_paths(image_factory):
    top = printed_names(ls_text(image_factory(), ""))
    paths = ["", " ", "/", "\\", "nope", "VOL (9)", "LEAF (3)", "(2)", "☃"]
    for name in top:
        paths += [name, " " + name + " ", name + "/", name.lower(),
                  name + "/nope", name[:-1], name + " (2)"]
        listing = ls_text(image_factory(), name)
        if listing[:4] == "Item":
            for child in printed_names(listing):
                paths += [name + "/" + child, name + "\\" + child + "\\",
                          name + "/" + child + " (2)"]
    return paths


def run_ls(image, path):
    buf = io.StringIO()
    try:
        with contextlib.redirect_stdout(buf):
            actions.ls_action(image, path)
        return ("ok", buf.getvalue())
    except BaseException as exc:  # noqa: B902
        return ("exc", type(exc).__name__, str(exc), buf.getvalue())


def akai_name(text):
    out = []
    for ch in text.ljust(12)[:12]:
        if ch.isdigit():
            out.append(ord(ch) - ord("0"))
        elif "A" <= ch <= "Z":
            out.append(0x0B + ord(ch) - ord("A"))
        else:
            out.append({" ": 0x0A, "#": 0x25, "+": 0x26, "-": 0x27,
                        ".": 0x28}[ch])
    return bytes(out)


def make_partition(sectors, volumes=()):
    header = (
        sectors.to_bytes(2, "little") + b"\x00\x00" + AKAI_PARTITION_MAGIC
        + bytes([0x55, 0xBA]) + b"\x2f\x00"
    )
    sat = [0] * AKAI_SAT_ENTRY_CNT
    entries = b""
    bodies = {}
    next_sector = 4
    for n in range(AKAI_VOLUME_ENTRY_CNT):
        if n < len(volumes):
            name, vtype = volumes[n]
            entries += (
                akai_name(name) + vtype.to_bytes(2, "little")
                + next_sector.to_bytes(2, "little")
            )
            sat[next_sector] = 0xC000
            body = bytearray(AKAI_SECTOR_SIZE)
            body[8:10] = FILE_TABLE_END_FLAG.to_bytes(2, "little")
            bodies[next_sector] = bytes(body)
            next_sector += 1
        else:
            entries += bytes([0x0A] * 12) + b"\x00\x00\x00\x00"
    for s in range(4):
        sat[s] = 0x4000
    sat_bytes = b"".join(v.to_bytes(2, "little") for v in sat)
    blob = bytearray(sectors * AKAI_SECTOR_SIZE)
    head = header + entries + sat_bytes
    blob[:len(head)] = head
    for sector, body in bodies.items():
        blob[sector * AKAI_SECTOR_SIZE:(sector + 1) * AKAI_SECTOR_SIZE] = body
    return bytes(blob)


def write_files(root):
    vols = (("VOL", 1), ("VOL", 3), ("VOL  2", 1), ("VOL", 3), ("LONE", 1))
    files = {
        "akai.img": make_partition(10, vols) + make_partition(4, vols[:2]),
        "audio.bin": bytes(2352 * 75 * 3),
        "audio.cue": (
            b"FILE \"audio.bin\" BINARY\n  TRACK 01 AUDIO\n"
            b"    TITLE \"First\"\n    INDEX 01 00:00:00\n"
            b"  TRACK 02 AUDIO\n    INDEX 01 00:01:00\n"
            b"  TRACK 03 AUDIO\n    TITLE \"First\"\n    INDEX 01 00:02:00\n"
        ),
    }
    for name, data in files.items():
        with open(os.path.join(root, name), "wb") as handle:
            handle.write(data)


FILE_PATHS = {
    "audio.cue": [
        "", "/", "First", " First ", "First/", "first", "First (2)",
        "First (2)\\", "First (3)", "Untitled Track 2", "Untitled Track 2/x",
        "Untitled Track 9", "nope", "☃",
    ],
    "akai.img": [
        "", "A", "a:", "B:/", "A/VOL", "A/VOL (2)/", "A/VOL (3)", "A/VOL (4)",
        "A/VOL  2", "a/lone", "B/VOL (2)", "B/VOL (3)", "C", "A/VOL (2)/x",
        "A:/vol (2)", ":", "A::",
    ],
}


def run_export(target, out_dir):
    buf = io.StringIO()
    try:
        with contextlib.redirect_stdout(buf):
            actions.export_samples_to_wav(target, out_dir)
        outcome = ("ok", buf.getvalue())
    except BaseException as exc:  # noqa: B902
        outcome = ("exc", type(exc).__name__, str(exc), buf.getvalue())
    listing = []
    for base, _dirs, files in os.walk(out_dir):
        for name in sorted(files):
            full = os.path.join(base, name)
            listing.append(
                (os.path.relpath(full, out_dir), os.path.getsize(full)))
    return outcome, sorted(listing)


def main():
    failures = 0
    checked = 0

    def note(label, detail, expected, actual):
        nonlocal failures
        failures += 1
        if failures <= 5:
            print("MISMATCH", label, detail)
            print("  expected", expected)
            print("  actual  ", actual)

    seen_kinds = set()
    for name_mode, store_mode, stored, ran_init in states():
        for prop_name, attr in (("safe_name", "_safe_name"),
                                ("export_name", "_export_name")):
            with original_world():
                expected = read(
                    make_element(name_mode, store_mode, attr, stored,
                                 ran_init), prop_name)
            actual = read(
                make_element(name_mode, store_mode, attr, stored, ran_init),
                prop_name)
            checked += 1
            seen_kinds.add(expected[:2])
            if expected != actual:
                note("property", (prop_name, name_mode, store_mode,
                                  repr(stored), ran_init), expected, actual)
    if len(seen_kinds) < 8:
        print("property states too uniform:", sorted(seen_kinds))
        failures += 1

    for root, mid, leaf in chains():
        for node in (root, mid, leaf):
            with original_world():
                try:
                    expected = ("ok", repr(node.export_path()))
                except BaseException as exc:  # noqa: B902
                    expected = ("exc", type(exc).__name__, str(exc))
            try:
                actual = ("ok", repr(node.export_path()))
            except BaseException as exc:  # noqa: B902
                actual = ("exc", type(exc).__name__, str(exc))
            checked += 1
            if expected != actual:
                note("export_path", node.name, expected, actual)

    for raw_names in RAW_LISTS:
        with original_world():
            expected = routine_names(raw_names)
        actual = routine_names(raw_names)
        checked += 1
        if expected != actual:
            note("routines", raw_names, expected, actual)

    with original_world():
        paths = ls_paths(lambda: FakeImage(RAW_SPEC))
    saw_found = saw_not_found = 0
    for path in paths:
        with original_world():
            expected = run_ls(FakeImage(RAW_SPEC), path)
        actual = run_ls(FakeImage(RAW_SPEC), path)
        checked += 1
        if "was not found" in expected[-1]:
            saw_not_found += 1
        elif expected[0] == "ok":
            saw_found += 1
        if expected != actual:
            note("ls", repr(path), expected, actual)
    if saw_found < 20 or saw_not_found < 20:
        print("synthetic tree paths:", saw_found, "found,", saw_not_found,
              "not found - too few")
        failures += 1

    root_dir = tempfile.mkdtemp()
    try:
        write_files(root_dir)
        for file_name, file_paths in FILE_PATHS.items():
            target = os.path.join(root_dir, file_name)
            for path in file_paths:
                with original_world():
                    expected = run_ls(target, path)
                actual = run_ls(target, path)
                checked += 1
                if expected != actual:
                    note("file ls", (file_name, path), expected, actual)

        cue = os.path.join(root_dir, "audio.cue")
        out_a = os.path.join(root_dir, "out_orig")
        out_b = os.path.join(root_dir, "out_new")
        os.makedirs(out_a)
        os.makedirs(out_b)
        with original_world():
            expected = run_export(cue, out_a)
        actual = run_export(cue, out_b)
        checked += 1
        if expected != actual:
            note("export", "audio.cue", expected, actual)
        if expected[0][0] != "ok" or len(expected[1]) != 3:
            print("CDDA export did not produce three files:", expected)
            failures += 1
    finally:
        shutil.rmtree(root_dir, ignore_errors=True)

    print(f"checked {checked} cases, {failures} mismatches")
    return 1 if failures else 0


if __name__ == "__main__":
    sys.exit(main())
