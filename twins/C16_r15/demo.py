"""Equivalence demo for r15: Image._add_count_to_name (smpl_extract/structural.py),
the helper through which sanitize_names_general builds the "NAME (2)" /
"NAME (2) L" names it writes in place into shared elements.

Part 1: the live method is compared with an inline copy of the ORIGINAL on a
large table of names (stereo suffixes, odd separators, unicode, trailing
newlines, empty, str subclasses, non-strings) and counts (ints, bools, big,
negative, strings, None, floats, objects); results must be equal and of the
same type, exceptions of the same type and text.

Part 2: whole renaming runs.  Random element lists with many colliding names
are renamed through make_safe_names_routine / make_export_names_routine on a
live Image and on a subclass that carries the original helper; the sequence of
in-place writes (element, attribute, value) and the final names must agree,
also when the routines are applied repeatedly and in different orders.

Part 3: a few precomputed expected values.
"""
import random
import sys

from smpl_extract.base import Element
from smpl_extract.base import ElementTypes
from smpl_extract.structural import Image


# --------------------------------------------------------------------------
# inline copy of the ORIGINAL implementation
# --------------------------------------------------------------------------
def orig_add_count_to_name(self, name, count):
    count_str = "(" + str(count) + ")"
    delim = " "
    tokens = [name, count_str]
    match = self._STEREO_FILENAME.match(name)
    if match:
        tokens = [
            match.group(1),
            count_str,
            match.group(3)
        ]
    new_name = delim.join(tokens)
    return new_name


class OrigImage(Image):
    _add_count_to_name = orig_add_count_to_name


class MyStr(str):
    pass


class Weird:
    def __str__(self):
        return "weird"

    def __format__(self, spec):
        return "formatted"

    def __repr__(self):
        return "repr"


def outcome(func, image, name, count):
    try:
        value = func(image, name, count)
        return ("ok", value, type(value).__name__)
    except Exception as e:  # noqa
        return ("exc", type(e).__name__, str(e))


STEMS = ["", "A", "PIANO", "PIANO C3", "Str-ings", "  lead", "x(2)", "L", "R",
         "-L", " L", "LL", "AL", "A L R", "A -L -R", "été", "ß",
         "a\tb", "A\n", "0", "%s", "{name}", "{", "}", "%", "%d (x)", "\\1"]
SEPARATORS = ["", " ", "-", " - ", "--", "\t", "  ", "-\n", "_", ".", " ", " "]
CHANNELS = ["", "L", "R", "l", "r", "LR", "L ", "R\n", "L\n\n", "R  \t", "M", "L.", "-"]
COUNTS = [0, 1, 2, 3, 10, 99, 100, -1, 10 ** 30, True, False, "2", "", None, 2.0,
          1.5, (1,), (1, 2), (), [3], b"4", Weird(), float("nan"), MyStr("7")]


def part_one():
    live = Image._add_count_to_name
    image = Image(lambda additions: [])
    names = []
    for stem in STEMS:
        for sep in SEPARATORS:
            for channel in CHANNELS:
                names.append(stem + sep + channel)
    names += [MyStr("A-L"), MyStr("B"), MyStr(""), None, b"A-L", 5, ["A"], b""]
    rng = random.Random(1615)
    alphabet = "AaLR -_.\t\n()%{}0é"
    for _ in range(3000):
        names.append("".join(rng.choice(alphabet) for _ in range(rng.randint(0, 9))))
    checks = failures = 0
    for i, name in enumerate(names):
        counts = COUNTS if i % 7 == 0 else [2, rng.choice(COUNTS), rng.randint(-5, 500)]
        for count in counts:
            a = outcome(live, image, name, count)
            b = outcome(orig_add_count_to_name, image, name, count)
            checks += 1
            if a != b:
                failures += 1
                if failures <= 5:
                    print("MISMATCH", repr(name), repr(count), a, b)
    return checks, failures


# --------------------------------------------------------------------------
# part 2
# --------------------------------------------------------------------------
class Item(Element):
    type_name = "Item"

    def __init__(self, label, name, type_id, log):
        object.__setattr__(self, "log", None)
        super().__init__(["x", name], None)
        self.label = label
        self.name = name
        self.type_id = type_id
        self.log = log

    def __setattr__(self, key, value):
        log = self.__dict__.get("log")
        if log is not None and key in ("_safe_name", "_export_name"):
            log.append((self.label, key, value))
        object.__setattr__(self, key, value)

    def get_info(self):
        return None


POOL = ["KICK", "KICK", "KICK (2)", "KICK (3)", "KICK-L", "KICK-R", "KICK -L",
        "KICK L", "KICK (2) L", "SNARE'", "SNARE\"", "SNARE", "a/b", "a?b",
        "a b", "", " ", ".", "-", "x.", "x-", ":", "S:1", "é", "L", "R",
        "PAD -L", "PAD -L", "PAD (2) L", "PAD (3) L", "PAD  - R", "PAD"]


def rename_run(image_class, seed):
    rng = random.Random(seed)
    log = []
    image = image_class(lambda additions: [])
    elements = []
    for i in range(rng.randint(0, 14)):
        type_id = rng.choice([ElementTypes.DirectoryEntry, ElementTypes.SampleEntry,
                              ElementTypes.ProgramEntry])
        elements.append(Item("e%d" % i, rng.choice(POOL), type_id, log))
    out = []
    for step in range(rng.randint(1, 4)):
        routine = rng.choice([image.make_safe_names_routine,
                              image.make_export_names_routine])
        subset = elements if rng.random() < 0.7 else rng.sample(
            elements, rng.randint(0, len(elements)))
        try:
            result = routine(subset)
            out.append(("result_is_input", result is subset))
        except Exception as e:  # noqa
            out.append(("exc", type(e).__name__, str(e)))
        out.append(("log", list(log)))
        out.append(("names", [(e.label, e.name, e.safe_name, e.export_name)
                              for e in elements]))
    return out


def part_two():
    rng = random.Random(16150)
    checks = failures = 0
    for case in range(1500):
        seed = rng.randrange(1 << 30)
        a = rename_run(Image, seed)
        b = rename_run(OrigImage, seed)
        checks += 1
        if a != b:
            failures += 1
            if failures <= 3:
                print("RENAME MISMATCH seed", seed)
                print("  live:", a)
                print("  orig:", b)
    return checks, failures


EXPECTED = [
    (("KICK", 2), "KICK (2)"),
    (("KICK-L", 2), "KICK (2) L"),
    (("KICK -R", 3), "KICK (3) R"),
    (("KICK - L  ", 10), "KICK (10) L"),
    (("L", 2), "L (2)"),
    ((" L", 2), " (2) L"),
    (("-R", 4), " (4) R"),
    (("", 2), " (2)"),
    (("KICK l", 2), "KICK l (2)"),
    (("A L\n", 2), "A (2) L"),
    (("A-L-R", 5), "A-L (5) R"),
]


def part_three():
    image = Image(lambda additions: [])
    failures = 0
    for (args, want) in EXPECTED:
        got = image._add_count_to_name(*args)
        if got != want:
            failures += 1
            print("EXPECTED MISMATCH", args, repr(got), repr(want))
    return len(EXPECTED), failures


def main():
    total_failures = 0
    for title, part in (("helper", part_one), ("renaming runs", part_two),
                        ("expected values", part_three)):
        checks, failures = part()
        print("%s: checks %d failures %d" % (title, checks, failures))
        total_failures += failures
    return 1 if total_failures else 0


if __name__ == "__main__":
    sys.exit(main())
