"""Equivalence demo for r13: Traversable.parse_path (smpl_extract/structural.py).

The refactoring splits parse_path into two private helpers (_tokenize_path and
_find_child).  This demo replays random path look-ups on two identically built
element trees: one queried through the LIVE Traversable.parse_path, the other
through an inline copy of the ORIGINAL implementation.  Compared per query:
the returned node (by label), exception type + message, the full event log
(order of child realisations, routine runs and safe_name reads) and the cache
state of every directory afterwards.  Histories are sequences of queries on
ONE tree, so the order of first accesses is exercised too.
"""
import random
import sys
from typing import List
from typing import cast

from smpl_extract.base import Element
from smpl_extract.base import ElementTypes
from smpl_extract.structural import ErrorInvalidPath
from smpl_extract.structural import ErrorNoChildWithName
from smpl_extract.structural import ErrorNotTraversable
from smpl_extract.structural import Traversable


# --------------------------------------------------------------------------
# inline copy of the ORIGINAL implementation
# --------------------------------------------------------------------------
def orig_parse_path(self, path):

    tokens_raw = self._TOKENIZE_PATH_REGEX.split(path.strip())
    tokens_raw_iter = iter(tokens_raw)

    tokens: List[str] = []
    tokens.append(next(tokens_raw_iter))
    while True:
        try:
            next(tokens_raw_iter)
            next_token = next(tokens_raw_iter)
        except StopIteration:
            break
        tokens.append(next_token)

    if len(tokens) > 0 and len(tokens[-1]) < 1:
        tokens = tokens[:-1]

    current_node = self
    for i, token in enumerate(tokens):
        token_sanitized = self._sanitize_string(token)

        try:
            if isinstance(current_node, Traversable):
                current_node = cast(Traversable, current_node)
                children = current_node.children

                child = next((
                    x for x in children
                    if self._sanitize_string(x.safe_name) == token_sanitized
                ))
                if not child:
                    raise ErrorNoChildWithName()
                current_node = child

            else:
                raise ErrorNotTraversable

        except (ErrorNoChildWithName, ErrorNotTraversable, StopIteration) as e:
            path_so_far = "/".join(tokens[:i]) + "/" if current_node != self else "image"
            msg = f"The entity \"{token}\" was not found in \"{path_so_far}\"."
            raise ErrorInvalidPath(msg)

    if isinstance(current_node, Traversable):
        children = current_node.children

    return current_node


# --------------------------------------------------------------------------
# instrumented model
# --------------------------------------------------------------------------
class Boom(Exception):
    pass


class Leaf(Element):
    type_id = ElementTypes.SampleEntry
    type_name = "Leaf"

    def __init__(self, label, name, log, falsy=False, bad_name=False,
                 path=None, parent=None):
        super().__init__(path, parent)
        self.label = label
        self.name = name
        self.log = log
        self.falsy = falsy
        self.bad_name = bad_name

    @property
    def safe_name(self):
        self.log.append(("safe_name", self.label))
        if self.bad_name:
            raise Boom(self.label)
        return Element.safe_name.fget(self)

    def __bool__(self):
        return not self.falsy

    def get_info(self):
        return None


class Dir(Traversable):
    type_name = "Dir"

    def __init__(self, label, name, log, spec, falsy=False, bad_name=False,
                 realize_fails=0, path=None, parent=None, routines=None):
        super().__init__(self._realize, routines, path, parent)
        self.label = label
        self.name = name
        self.log = log
        self.spec = spec
        self.falsy = falsy
        self.bad_name = bad_name
        self.realize_fails = realize_fails

    def _realize(self, additions):
        self.log.append(("realize", self.label, sorted(additions.keys()),
                         additions["_elem_parent"] is self))
        if self.realize_fails > 0:
            self.realize_fails -= 1
            raise Boom("realize " + self.label)
        return [build(child_spec, self.log, self) for child_spec in self.spec["children"]]

    @property
    def safe_name(self):
        self.log.append(("safe_name", self.label))
        if self.bad_name:
            raise Boom(self.label)
        return Element.safe_name.fget(self)

    def __bool__(self):
        return not self.falsy


def make_routines(log, kind):
    if kind == 0:
        return None

    def rename(elements):
        log.append(("routine", "rename", [e.label for e in elements]))
        for e in elements:
            e._safe_name = e.name.upper() if kind == 1 else " " + e.name + "  "
        return elements

    def reverse(elements):
        log.append(("routine", "reverse", [e.label for e in elements]))
        return list(reversed(elements))

    if kind == 3:
        return {"rename": rename, "reverse": reverse}
    return {"rename": rename}


def build(spec, log, parent):
    path = (parent.path if parent is not None else []) + [spec["name"]]
    if spec["kind"] == "leaf":
        return Leaf(spec["label"], spec["name"], log, spec["falsy"],
                    spec["bad_name"], path, parent)
    return Dir(spec["label"], spec["name"], log, spec, spec["falsy"],
               spec["bad_name"], spec["realize_fails"], path, parent,
               make_routines(log, spec["routine_kind"]))


NAMES = ["A", "a", "B", "vol 1", " pad ", "", "x:y", "S-L", "S-R", "C/D",
         "back\\slash", "A", "dup", "dup", "Z.wav", "\t", "0"]


def random_spec(rng, depth, counter):
    counter[0] += 1
    label = "n%d" % counter[0]
    name = rng.choice(NAMES)
    falsy = rng.random() < 0.08
    bad_name = rng.random() < 0.04
    if depth <= 0 or rng.random() < 0.4:
        return dict(kind="leaf", label=label, name=name, falsy=falsy,
                    bad_name=bad_name)
    children = [random_spec(rng, depth - 1, counter)
                for _ in range(rng.randint(0, 4))]
    return dict(kind="dir", label=label, name=name, falsy=falsy,
                bad_name=bad_name, children=children,
                realize_fails=1 if rng.random() < 0.05 else 0,
                routine_kind=rng.randint(0, 3))


SEPARATORS = ["/", "\\", "\\\\", "//", "\\/", "/\\", "\\\\\\", " / ", "/ "]


def collect_names(spec, out):
    out.append(spec["name"])
    for child in spec.get("children", []):
        collect_names(child, out)


def random_path(rng, names):
    n = rng.randint(0, 4)
    parts = []
    for _ in range(n):
        name = rng.choice(names) if rng.random() < 0.85 else rng.choice(
            ["nope", "", " ", "A ", " a", "DUP", "VOL 1", "x:y"])
        if rng.random() < 0.3:
            name = name.upper()
        if rng.random() < 0.2:
            name = " " + name + " "
        parts.append(name)
    path = ""
    for i, part in enumerate(parts):
        if i > 0 or rng.random() < 0.15:
            path += rng.choice(SEPARATORS)
        path += part
    if rng.random() < 0.3:
        path += rng.choice(SEPARATORS)
    if rng.random() < 0.2:
        path = rng.choice([" ", "\t", "\n"]) + path + rng.choice([" ", "\r\n"])
    return path


FIXED_PATHS = ["", " ", "/", "//", "\\", "\\\\", "\\\\\\", "/A", "A/", "A//",
               "A///", "A/ /", "/ /", "a\\b/c\\\\d", "///", " / ", "A/\\B"]


def snapshot(node, out):
    if isinstance(node, Traversable):
        cached = node.__dict__.get("_children")
        out.append((node.label, None if cached is None else [c.label for c in cached]))
        for child in cached or []:
            snapshot(child, out)
    return out


def run_query(func, root, path, log):
    del log[:]
    try:
        outcome = ("ok", func(root, path).label)
    except Exception as e:  # noqa
        outcome = ("exc", type(e).__name__, str(e),
                   type(e.__context__).__name__ if e.__context__ else None)
    return outcome, list(log), snapshot(root, [])


def main():
    rng = random.Random(16013)
    failures = 0
    checks = 0
    live = Traversable.parse_path
    for scenario in range(400):
        counter = [0]
        spec = random_spec(rng, 3, counter)
        spec["kind"] = "dir"
        spec.setdefault("children", [random_spec(rng, 2, counter) for _ in range(3)])
        spec.setdefault("realize_fails", 0)
        spec.setdefault("routine_kind", rng.randint(0, 3))
        spec["falsy"] = rng.random() < 0.05
        names = []
        collect_names(spec, names)

        log_a, log_b = [], []
        root_a = build(spec, log_a, None)
        root_b = build(spec, log_b, None)
        root_a._path = []
        root_b._path = []

        paths = [random_path(rng, names) for _ in range(12)]
        paths += rng.sample(FIXED_PATHS, 4)
        paths.append(None if rng.random() < 0.1 else "A")
        rng.shuffle(paths)
        for path in paths:
            res_a = run_query(live, root_a, path, log_a)
            res_b = run_query(orig_parse_path, root_b, path, log_b)
            checks += 1
            if res_a != res_b:
                failures += 1
                if failures <= 5:
                    print("MISMATCH scenario", scenario, "path", repr(path))
                    print("  live:", res_a)
                    print("  orig:", res_b)

    # tokenisation table with precomputed expectations (root has no children,
    # so the error message exposes the token list)
    expected = {
        "": "ok", " ": "ok",
        "/": 'The entity "" was not found in "image".',
        "\\\\": 'The entity "" was not found in "image".',
        "a": 'The entity "a" was not found in "image".',
        "a/b": 'The entity "a" was not found in "image".',
        "//": 'The entity "" was not found in "image".',
        " x /y": 'The entity "x " was not found in "image".',
    }
    for path, want in expected.items():
        root = Dir("r", "r", [], dict(children=[]))
        try:
            got = "ok" if live(root, path) is root else "other"
        except ErrorInvalidPath as e:
            got = str(e)
        checks += 1
        if got != want:
            failures += 1
            print("TABLE MISMATCH", repr(path), repr(got), repr(want))

    print("checks:", checks, "failures:", failures)
    return 1 if failures else 0


if __name__ == "__main__":
    sys.exit(main())
