"""Equivalence demo for r18: smpl_extract.transcoder.make_transcoder, the
"swap_input_endianess_multi" step (byte-order steps built from per-stream
flags and applied to the per-channel list).

The live make_transcoder is compared with an inline copy of the ORIGINAL
(module globals are read through the module object so that the patched host
byte order is seen by both):

  1. for every combination of 1..3 streams x 1..3 interleaved channels
     (also 0) x widths 1/2/4 x byte order per stream x destination byte
     order x host byte order: transcoder class, step names, and for every
     step the result of calling it on random channel lists (also lists that
     are shorter / longer than the flag list, and empty lists);
  2. complete transcodings over equal and unequal lengths (0 and partial
     trailing frames included) and several block sizes, byte for byte,
     together with the bad-argument exceptions.

Exit 0 when everything agrees, 1 otherwise.
"""
from io import BytesIO
from io import SEEK_SET
import itertools
import random
import sys
from typing import Callable
from typing import List
from typing import Tuple
from unittest.mock import patch

import numpy as np

import smpl_extract.transcoder as T
from smpl_extract.data_streams import DataStream
from smpl_extract.data_streams import Endianess
from smpl_extract.data_streams import IncompatibleNumberOfChannels
from smpl_extract.data_streams import NoDataStream
from smpl_extract.data_streams import StreamEncoding


def make_transcoder_ORIG(data_streams, dest_encoding):

    # check for bad args
    if len(data_streams) <= 0:
        raise NoDataStream("No data streams given")

    total_num_channels = 0
    for data_stream in data_streams:
        num_channels = max(1, data_stream.encoding.num_interleaved_channels)
        total_num_channels += num_channels
    expected_num_channels = dest_encoding.num_interleaved_channels
    if total_num_channels != expected_num_channels:
        raise IncompatibleNumberOfChannels(
            f"Expected {expected_num_channels} fourd {total_num_channels}."
        )

    # begin
    for data_stream in data_streams:
        data_stream.stream.seek(0, SEEK_SET)
    buffer_sizes = T.get_buffer_sizes(data_streams)

    if len(data_streams) == 1 \
            and data_streams[0].encoding == dest_encoding:
        result = T.PassthroughTranscoder(
            data_streams[0],
            buffer_size=buffer_sizes[0]
        )
        return result

    processes: List[Tuple[
        str,
        Callable[[List[np.ndarray]], List[np.ndarray]]
    ]]
    processes = []

    # is byteswap needed at input?
    swaps = list(
        x.encoding.endianess != T.system_byte_order
        for x in data_streams
        for _ in range(max(1, x.encoding.num_interleaved_channels))
    )
    if any(swaps):
        if all(swaps):
            processes.append(("swap_input_endianess", T.swap_endianess))
        else:
            processes.append((
                "swap_input_endianess_multi",
                lambda x: T.swap_endianess_multi(x, swaps)
            ))

    # is byte swap needed at output?
    if dest_encoding.endianess != T.system_byte_order:
        processes.append(("swap_output_endianess", T.swap_endianess))

    dest_dtype = dest_encoding.dtype

    f_decode_frame = lambda x: T.decode_frame(x, buffer_sizes=buffer_sizes)
    f_encode_frame = lambda x: T.encode_frame(x, dest_dtype=dest_dtype)
    pipeline = T.TranscodePipelineStruct(
        f_decode_frame,
        processes,
        f_encode_frame
    )

    result = T.PipelineTranscoder(data_streams, pipeline)
    return result


failures = []
checks = 0


def check(label, a, b):
    global checks
    checks += 1
    if a != b:
        failures.append((label, a, b))


def pattern(n, seed):
    rnd = random.Random(seed)
    return bytes(rnd.randrange(256) for _ in range(n))


def freeze(channels):
    return [(str(c.dtype), c.dtype.byteorder, c.tobytes()) for c in channels]


def call_step(step, channels):
    try:
        return ("ok", freeze(step(channels)))
    except Exception as e:  # noqa: BLE001
        return ("exc", type(e).__name__, str(e))


def build_streams(layout, lengths, seed):
    """layout: list of (num_interleaved_channels, width, endianess)."""
    streams = []
    for i, ((nch, width, order), length) in enumerate(zip(layout, lengths)):
        enc = StreamEncoding(endianess=order, sample_width=width,
                             num_interleaved_channels=nch)
        streams.append(DataStream(BytesIO(pattern(length, seed + i)), enc))
    return streams


def describe(maker, layout, lengths, dest, host, block, seed, probes):
    """Everything observable about the transcoder built by `maker`."""
    out = []
    defaults = T.get_num_frames_possible.__defaults__
    try:
        with patch.object(T, "system_byte_order", host):
            T.get_num_frames_possible.__defaults__ = (block,)
            streams = build_streams(layout, lengths, seed)
            transcoder = maker(streams, dest)
        out.append(type(transcoder).__name__)
        if isinstance(transcoder, T.PipelineTranscoder):
            steps = transcoder.pipeline.processes
            out.append([name for name, _ in steps])
            for name, step in steps:
                for probe in probes:
                    out.append((name, call_step(step, probe)))
        else:
            out.append(transcoder.buffer_size)
        for chunk in transcoder:
            out.append(bytes(chunk))
        out.append([s.stream.tell() for s in streams])
    except Exception as e:  # noqa: BLE001
        out.append(("exc", type(e).__name__, str(e)))
    finally:
        T.get_num_frames_possible.__defaults__ = defaults
    return out


def make_probes(total_channels, width, seed):
    rnd = random.Random(seed)
    dtype = {1: np.int8, 2: np.int16, 4: np.int32}[width]
    probes = []
    for count in sorted({0, 1, max(0, total_channels - 1), total_channels,
                         total_channels + 2}):
        for frames in (0, 1, 5):
            probes.append([
                np.array([rnd.randrange(-100, 100) for _ in range(frames)],
                         dtype=dtype)
                for _ in range(count)
            ])
    return probes


orders = [Endianess.LITTLE, Endianess.BIG]
case = 0
for num_streams in (1, 2, 3):
    for nchs in itertools.product((0, 1, 2, 3), repeat=num_streams):
        if num_streams == 3 and max(nchs) == 3 and min(nchs) == 0:
            continue  # keep the run time reasonable
        for width in (1, 2, 4):
            for stream_orders in itertools.product(orders, repeat=num_streams):
                for dest_order, host in itertools.product(orders, orders):
                    case += 1
                    rnd = random.Random(case)
                    layout = [(n, width, o)
                              for n, o in zip(nchs, stream_orders)]
                    total = sum(max(1, n) for n in nchs)
                    dest = StreamEncoding(
                        endianess=dest_order, sample_width=width,
                        num_interleaved_channels=total)
                    frames = rnd.randrange(0, 12)
                    equal = [frames * max(1, n) * width for n in nchs]
                    unequal = [rnd.randrange(0, 12) * max(1, n) * width
                               + rnd.choice([0, 0, 1])
                               for n in nchs]
                    block = rnd.choice([1, width, 3 * width, 16, 64, 4096])
                    probes = make_probes(total, width, case)
                    for lengths in (equal, unequal):
                        label = (layout, lengths, dest_order, host, block)
                        check(label,
                              describe(T.make_transcoder, layout, lengths,
                                       dest, host, block, case, probes),
                              describe(make_transcoder_ORIG, layout, lengths,
                                       dest, host, block, case, probes))

# bad arguments
for maker_pair in [(T.make_transcoder, make_transcoder_ORIG)]:
    results = []
    for maker in maker_pair:
        r = []
        for streams, dest in [
            ([], StreamEncoding()),
            (build_streams([(2, 2, Endianess.LITTLE), (1, 2, Endianess.BIG)],
                           [8, 4], 1),
             StreamEncoding(num_interleaved_channels=2, sample_width=2)),
        ]:
            try:
                maker(streams, dest)
                r.append("no error")
            except Exception as e:  # noqa: BLE001
                r.append((type(e).__name__, str(e)))
        results.append(r)
    check("bad args", results[0], results[1])

# the mixed step really occurred and really swaps only the flagged channels
with patch.object(T, "system_byte_order", Endianess.LITTLE):
    streams = build_streams(
        [(1, 2, Endianess.LITTLE), (2, 2, Endianess.BIG)], [4, 8], 7)
    transcoder = T.make_transcoder(
        streams, StreamEncoding(sample_width=2, num_interleaved_channels=3))
names = [n for n, _ in transcoder.pipeline.processes]
check("mixed step present", names, ["swap_input_endianess_multi"])
probe = [np.array([1, 2], dtype=np.int16) for _ in range(3)]
got = [c.tolist() for c in transcoder.pipeline.processes[0][1](probe)]
check("mixed step values", got, [[1, 2], [256, 512], [256, 512]])

print(f"{checks} checks, {len(failures)} disagreements")
for failure in failures[:5]:
    print("DISAGREE", failure)
sys.exit(1 if failures else 0)
