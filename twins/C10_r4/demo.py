"""Equivalence demo for r4: InfoTable.print_table (listing rendering).

Renders many tables with the live InfoTable.print_table / to_string and with
an inline copy of the ORIGINAL implementation and compares the text (or the
exception).  Also renders the listings of a synthetic directory tree obtained
through Traversable.get_info.
Exit status 0 = everything agrees, 1 = a difference was found.
"""
from dataclasses import dataclass
from io import StringIO
import itertools
import random
import sys
from typing import Mapping
from typing import Tuple

from smpl_extract.base import ElementTypes
from smpl_extract.elements import LeafElement
from smpl_extract.info import InfoTable
from smpl_extract.structural import Image
from smpl_extract.structural import Traversable


# ---------------------------------------------------------------------------
# verbatim copy of the ORIGINAL implementation
# ---------------------------------------------------------------------------
def print_table_original(self):

    # if empty
    if len(self.rows) <= 0:
        result = "(*empty*)"
        return result

    str_buffer = StringIO(newline="\n")

    # calc total number of columns and the widths of each
    num_columns = 0
    column_widths: Mapping[int, int] = {}
    rows = self.rows + [self.header]
    for row in rows:
        for i, column_value in enumerate(row):
            # total number of cols
            if i + 1 > num_columns:
                num_columns = i + 1
            # width of ith column
            width = len(column_value)
            if i not in column_widths.keys():
                column_widths[i] = max(width, self.column_width)
            elif width > column_widths[i]:
                column_widths[i] = width

    # total width is sum of column widths and the number of delimiters
    total_width = sum(column_widths.values()) + num_columns - 1


    def make_line(
            row: Tuple[str, ...],
            column_widths: Mapping[int, int] = column_widths
    )->str:
        result = self.column_delimiter.join(map(
            lambda i: row[i].ljust(column_widths[i]),
            range(len(row))
        ))
        return result


    # print the table
    str_buffer.write(make_line(self.header) + "\n")  # header
    str_buffer.write(("-" * total_width) + "\n")  # divider
    for row in self.rows:
        str_buffer.write(make_line(row) + "\n")

    result = str_buffer.getvalue()
    return result


# ---------------------------------------------------------------------------
# synthetic tree for the end-to-end part
# ---------------------------------------------------------------------------
@dataclass
class Leaf(LeafElement):
    name: str = ""
    type_name: str = "S1000 Sample"
    type_id = ElementTypes.SampleEntry


class Dir(Traversable):
    def __init__(self, name, type_name, spec, routines=None, path=None, parent=None):
        self.name = name
        self._spec = spec
        super().__init__(self._realize, routines, path, parent, type_name)

    def _realize(self, context):
        result = []
        for name, sub in self._spec:
            if sub is None:
                child = Leaf(name=name, type_name="T" * (len(name) % 31))
                child._path = self.path + [name]
                child._parent = self
            else:
                child = Dir(name, "Volume", sub, context["_elem_routines"],
                            self.path + [name], self)
            result.append(child)
        return result


class TreeImage(Image):
    name = "Synthetic"
    type_name = "Synthetic Image"

    def __init__(self, spec):
        self._spec = spec
        Traversable.__init__(self, self._realize)
        self.set_routines({
            "make_safe_names": self.make_safe_names_routine,
            "make_export_names": self.make_export_names_routine,
        })

    _realize = Dir._realize


def tree_spec(rng, depth=0):
    spec = []
    for _ in range(rng.randint(0, 6)):
        name = "".join(
            rng.choice("AB ab:-._'/ä音")
            for _ in range(rng.choice([0, 1, 3, 12, 19, 20, 21, 40]))
        )
        if depth < 2 and rng.random() < 0.4:
            spec.append((name, tree_spec(rng, depth + 1)))
        else:
            spec.append((name, None))
    return spec


def outcome(func, table):
    try:
        value = func(table)
    except BaseException as e:  # noqa
        return ("raise", type(e).__name__, str(e))
    return ("ok", value)


def snapshot(table):
    return repr((table.header, table.rows, table.column_width, table.column_delimiter))


def main():
    mismatches = 0
    checked = 0

    def compare(label, header, rows, **kwargs):
        nonlocal mismatches, checked
        checked += 1
        new_table = InfoTable(header, list(rows) if isinstance(rows, list) else rows, **kwargs)
        old_table = InfoTable(header, list(rows) if isinstance(rows, list) else rows, **kwargs)
        got = (outcome(InfoTable.print_table, new_table), snapshot(new_table))
        expected = (outcome(print_table_original, old_table), snapshot(old_table))
        via_to_string = outcome(InfoTable.to_string, new_table)
        if got != expected or via_to_string != expected[0]:
            mismatches += 1
            if mismatches <= 10:
                print("MISMATCH", label, repr(header), repr(rows), kwargs, got, expected)

    # hand written cases ---------------------------------------------------
    H = ("Item", "Type")
    cases = [
        (H, []),
        (H, [("a", "b")]),
        (H, [("", "")]),
        (H, [("x" * 19, "y")]), (H, [("x" * 20, "y")]), (H, [("x" * 21, "y")]),
        (H, [("x" * 50, "y" * 60), ("short", "t")]),
        (H, [("short", "t"), ("x" * 50, "y" * 60)]),
        (H, [("only one",)]),
        (H, [("a", "b", "c")]),
        (H, [("a",), ("a", "b"), ("a", "b", "c", "d" * 30)]),
        (H, [(), ("a", "b")]),
        (H, [()]),
        ((), [("a", "b")]),
        ((), [()]),
        (("H" * 40,), [("a", "b")]),
        (("Item", "Type", "Extra", "More"), [("a", "b")]),
        (H, [("音音", "ä"), ("\U0001F600", "é")]),
        (H, [("tab\there", "new\nline")]),
        (H, [("a", "b")] * 400),
        (H, [("a", 5)]),
        (H, [(5, "a")]),
        (H, [(None, None)]),
        (H, [("a", b"bytes")]),
        (H, [["list", "row"]]),
        (H, ["ab", "cd"]),
        (H, (("tuple", "rows"),)),
        (H, None),
        (None, [("a", "b")]),
        ("IT", [("a", "b")]),
        (H, [("a", ("nested",))]),
    ]
    for header, rows in cases:
        compare("fixed", header, rows)
        for width in (0, 1, 4, 5, 19, 21, 50, -3, 20.0, 20.5, True, None, "20"):
            compare("width", header, rows, column_width=width)
        for delimiter in ("", " ", " | ", "\t", "音", None, 5, b" "):
            compare("delimiter", header, rows, column_delimiter=delimiter)

    # generated tables -----------------------------------------------------
    rng = random.Random(404)
    alphabet = "ab AB:-.ä音"
    lengths = [0, 1, 2, 3, 4, 5, 19, 20, 21, 22, 45]
    for _ in range(6000):
        n_header = rng.choice([0, 1, 2, 2, 2, 3, 5])
        header = tuple(
            "".join(rng.choice(alphabet) for _ in range(rng.choice(lengths)))
            for _ in range(n_header)
        )
        rows = []
        for _ in range(rng.choice([0, 1, 2, 3, 8])):
            n_cols = rng.choice([0, 1, 2, 2, 2, 3, 4, 6])
            rows.append(tuple(
                "".join(rng.choice(alphabet) for _ in range(rng.choice(lengths)))
                for _ in range(n_cols)
            ))
        kwargs = {}
        if rng.random() < 0.5:
            kwargs["column_width"] = rng.choice([0, 1, 3, 10, 20, 21, 30, -1])
        if rng.random() < 0.3:
            kwargs["column_delimiter"] = rng.choice(["", " ", "  ", "|"])
        compare("random", header, rows, **kwargs)

    # exhaustive small shapes ------------------------------------------------
    cells = ["", "a", "b" * 20, "c" * 21]
    for shape in itertools.product(range(0, 4), repeat=3):
        for fill in cells:
            rows = [tuple(fill for _ in range(n)) for n in shape]
            compare("shape", H, rows)
            compare("shape", ("h",) * shape[0], rows, column_width=2)

    # listings produced by Traversable.get_info --------------------------------
    rng = random.Random(505)
    for _ in range(300):
        image = TreeImage(tree_spec(rng))
        stack = [image]
        while stack:
            node = stack.pop()
            table = node.get_info()
            checked += 1
            got = outcome(InfoTable.to_string, table)
            expected = outcome(print_table_original, table)
            if got != expected:
                mismatches += 1
                if mismatches <= 10:
                    print("LISTING MISMATCH", node.path, got, expected)
            stack.extend(c for c in node.children if isinstance(c, Traversable))

    print(f"checked {checked} cases, {mismatches} mismatches")
    return 1 if mismatches else 0


if __name__ == "__main__":
    sys.exit(main())
