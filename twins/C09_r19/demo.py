"""Equivalence demo for r19: smpl_extract/cuesheet.py parse_cue_sheet (what
actions.attempt_parse_cue_sheet calls to decide between "data track -> open the
referenced image" and "all audio -> CDDA").

The refactoring drops the `cue_sheet_files` list (of which only element [0] was
ever used): the first parsed FILE entry is remembered in a variable that starts
as None, later FILE entries are still parsed (so a malformed later entry still
raises) but not kept, and "no FILE entry" is detected by the variable still
being None.

The ORIGINAL function is pasted below (it uses the module's own helpers, which
are untouched).  Checks, on several thousand generated cue texts (zero, one or
several FILE entries; junk before / between / after them; blank and
whitespace-only lines; non-BINARY FILE lines; tracks with and without INDEX /
TITLE / unknown lines; junk where a TRACK is expected; upper/lower case
keywords) and, because the real FILE adapter always consumes the rest of the
text, on 3000 more texts with a stub FILE adapter that consumes only a few
lines per entry or raises on a marker (so that second and third FILE entries,
and a failing later entry, are really reached):
  * same returned CueSheetFile (dataclass equality, plus repr) or same exception
    type and message;
  * the caller's list is left in the same state (the function pops from it);
  * the sequence of lines consumed through get_nonempty_entry and the sequence
    of CueSheetFileAdapter.parse calls are the same.
End to end: cue sheets over raw / 2352-byte-sector Roland images, an all-audio
cue sheet and cue sheets with no usable FILE entry, written to a fresh temp
directory, go through actions.determine_image_type with the expected outcome
(Roland image with the same listing as the bare image / CDDA image / fallback
to treating the text file as an image).
"""
import contextlib
import io
import os
import random
import shutil
import struct
import sys
import tempfile

from smpl_extract import actions
from smpl_extract import cuesheet
from smpl_extract.cuesheet import BadCueSheet
from smpl_extract.cuesheet import CueSheetFile
from smpl_extract.cuesheet import CueSheetFileAdapter
from smpl_extract.cuesheet import CueSheetIndex
from smpl_extract.cuesheet import CueSheetTrack
from smpl_extract.cuesheet import _FILE_LINE_REGEX
from smpl_extract.cuesheet import get_nonempty_entry
from smpl_extract.cuesheet import parse_cue_sheet
from smpl_extract.roland.s7xx.data_types import FAT_AREA_ID
from smpl_extract.roland.s7xx.data_types import FAT_AREA_OFFSET
from smpl_extract.roland.s7xx.data_types import FAT_AREA_SIZE
from smpl_extract.roland.s7xx.image import IdAreaStruct


# ---- the ORIGINAL function, verbatim -------------------------------------------
def original_parse_cue_sheet(lines):
    cue_sheet_files = []
    while len(lines):
        text, lines = get_nonempty_entry(lines)
        match_result = _FILE_LINE_REGEX.match(text)
        if match_result:
            lines = [text] + lines
            cue_sheet_file, lines = CueSheetFileAdapter.parse(lines)
            cue_sheet_files.append(cue_sheet_file)

    if len(cue_sheet_files) <= 0:
        raise BadCueSheet("No FILE entry")

    result = cue_sheet_files[0]
    return result
# --------------------------------------------------------------------------------


failures = []
checks = 0


def check(label, a, b):
    global checks
    checks += 1
    if a != b:
        failures.append((label, a, b))


def outcome(fn):
    try:
        return ("ok", fn())
    except Exception as e:  # noqa: BLE001 - compared, not hidden
        return ("exc", type(e).__name__, str(e), repr(e.args))


def kw(rng, word):
    return rng.choice([word, word.lower(), word.capitalize()])


def gen_track(rng, number):
    mode = rng.choice(["AUDIO", "audio", "Audio", "MODE1/2352", "MODE1/2048", "mode2/2336", "MODE1_RAW"])
    lines = [f"  {kw(rng, 'TRACK')} {number:02d} {mode}"]
    for _ in range(rng.randrange(4)):
        pick = rng.randrange(6)
        if pick == 0:
            lines.append(f"    {kw(rng, 'TITLE')} \"Song {rng.randrange(100)}\"")
        elif pick in (1, 2):
            lines.append(f"    {kw(rng, 'INDEX')} {rng.randrange(3):02d} "
                         f"{rng.randrange(80):02d}:{rng.randrange(60):02d}:{rng.randrange(75):02d}")
        elif pick == 3:
            lines.append("    FLAGS DCP")
        elif pick == 4:
            lines.append(rng.choice(["", "   ", "\t"]))
        else:
            lines.append("    PERFORMER \"Nobody\"")
    return lines


def gen_file_entry(rng, k):
    pick = rng.randrange(12)
    if pick == 0:
        head = f"FILE \"image{k}.wav\" WAVE"                    # not BINARY -> not a FILE entry
    elif pick == 1:
        head = f"FILE image{k}.bin BINARY"                      # unquoted -> not a FILE entry
    else:
        head = f"{kw(rng, 'FILE')} \"{rng.choice(['image', 'my disc', 'sub/dir/x', ''])}{k}.bin\" {kw(rng, 'BINARY')}"
    lines = [rng.choice(["", " ", "\t"]) + head]
    number = 1
    for _ in range(rng.choice([0, 1, 1, 2, 3, 5])):
        lines += gen_track(rng, number)
        number += 1
    if rng.random() < 0.15:
        lines.append("  REM not a track")                       # junk where a TRACK is expected -> BadCueSheet
        lines += gen_track(rng, number)
    return lines


def gen_cue(rng):
    lines = []
    for _ in range(rng.randrange(3)):
        lines.append(rng.choice(["", "   ", "REM GENRE Sampler", "CATALOG 0000000000000", "TITLE \"Disc\"",
                                 "  TRACK 09 AUDIO", "garbage \x7f line"]))
    for k in range(rng.choice([0, 1, 1, 1, 2, 3])):
        lines += gen_file_entry(rng, k)
        for _ in range(rng.randrange(2)):
            lines.append(rng.choice(["", "REM between", "   "]))
    ending = rng.choice(["\n", "\n", "\r\n", ""])
    return [line + ending for line in lines]


class Recorder:
    """Wraps the two helpers parse_cue_sheet relies on and logs their use."""

    def __init__(self):
        self.log = []
        self._get = cuesheet.get_nonempty_entry

    def __enter__(self):
        self._parse = CueSheetFileAdapter.__dict__["parse"]
        get, parse, log = self._get, self._parse.__func__, self.log

        def logged_get(lines):
            before = len(lines)
            text, rest = get(lines)
            log.append(("get", before, text, len(rest)))
            return text, rest

        def logged_parse(cls, lines):
            log.append(("file-parse", list(lines)))
            out = parse(cls, lines)
            log.append(("file-parse-done", out[0].bin_file_name, len(out[0].tracks), len(out[1])))
            return out

        cuesheet.get_nonempty_entry = logged_get
        globals()["get_nonempty_entry"] = logged_get
        CueSheetFileAdapter.parse = classmethod(logged_parse)
        return self

    def __exit__(self, *exc):
        cuesheet.get_nonempty_entry = self._get
        globals()["get_nonempty_entry"] = self._get
        CueSheetFileAdapter.parse = self._parse
        return False


def run(fn, lines):
    mine = list(lines)
    with Recorder() as rec:
        out = outcome(lambda: fn(mine))
    if out[0] == "ok":
        out = ("ok", out[1], repr(out[1]), type(out[1]).__name__)
    return out, mine, rec.log


def header(sector_id):
    return b"\x00" + b"\xFF" * 10 + b"\x00" + struct.pack(">I", sector_id)[1:] + b"\x01"


def mdf_wrap(payload):
    out = bytearray()
    for i in range(0, len(payload), 2048):
        out += header(i // 2048) + payload[i:i + 2048].ljust(2048, b"\0") + bytes(288)
    return bytes(out)


def make_roland_image(rng, extra):
    values = dict(
        revision=rng.randint(0, 2**32 - 1), s7xx_str="S770 MR25A", empty_str="",
        version_str="S-770 Hard Disk Ver. 2.25", copyright_str="Copyright Roland",
        disk_name=rng.choice(["MYDISK", "A B C"]), disk_capacity=rng.randint(0, 2**32 - 1),
        num_volumes=0, num_performances=0, num_patches=rng.randint(0, 0xFFFF),
        num_partials=rng.randint(0, 0xFFFF), num_samples=rng.randint(0, 0xFFFF),
    )
    img = bytearray(0x110000 + extra)
    ida = IdAreaStruct.build(values)
    img[:len(ida)] = ida
    fat = bytearray(FAT_AREA_SIZE)
    struct.pack_into("<HH", fat, 0, FAT_AREA_ID, 77)
    struct.pack_into("<HH", fat, FAT_AREA_SIZE - 4, 0xFFFF, 0xFFFF)
    img[FAT_AREA_OFFSET:FAT_AREA_OFFSET + FAT_AREA_SIZE] = fat
    return bytes(img)


def ls_text(image, path=""):
    buf = io.StringIO()
    with contextlib.redirect_stdout(buf):
        actions.ls_action(image, path)
    return buf.getvalue()


def main():
    rng = random.Random(0x519)

    fixed = [
        [],
        [""],
        ["\n", "   \n"],
        ["REM nothing here\n"],
        ["FILE \"a.bin\" BINARY\n"],
        ["FILE \"a.bin\" BINARY\n", "  TRACK 01 MODE1/2352\n", "    INDEX 01 00:00:00\n"],
        ["FILE \"a.bin\" BINARY\n", "  TRACK 01 AUDIO\n", "  TRACK 02 AUDIO\n",
         "FILE \"b.bin\" BINARY\n", "  TRACK 01 MODE1/2352\n"],
        # second FILE entry is malformed: must still raise although the first one was fine
        ["FILE \"a.bin\" BINARY\n", "  TRACK 01 AUDIO\n", "REM x\n", "FILE \"b.bin\" BINARY\n", "  nonsense\n"],
        ["FILE \"a.bin\" BINARY\n", "  nonsense\n"],
        ["FILE \"a.bin\" WAVE\n", "  TRACK 01 AUDIO\n"],
        ["junk\n", "\n", "file \"lower.bin\" binary\n", "track 1 audio\n", "index 1 0:2:0\n", "title \"t\"\n"],
    ]
    generated = [gen_cue(rng) for _ in range(6000)]

    tally = {"ok": 0, "exc": 0, "multi": 0}
    for n, lines in enumerate(fixed + generated):
        live = run(parse_cue_sheet, lines)
        orig = run(original_parse_cue_sheet, lines)
        check(("result", n), live[0], orig[0])
        check(("caller's list afterwards", n), live[1], orig[1])
        check(("helper calls", n), live[2], orig[2])
        tally[live[0][0]] += 1
        if sum(1 for entry in live[2] if entry[0] == "file-parse-done") > 1:
            tally["multi"] += 1
        if live[0][0] == "ok":
            check(("result type", n), live[0][3], "CueSheetFile")
    check("outcomes of every kind exercised", (tally["ok"] > 500, tally["exc"] > 500), (True, True))

    # With the real CueSheetFileAdapter a FILE entry swallows everything up to the
    # end of the text (or raises), so a second FILE entry is never reached.  To
    # cover that path of the loop anyway, swap in a stub adapter that consumes
    # only a few lines per entry and fails on a marker.
    real_parse = CueSheetFileAdapter.__dict__["parse"]

    def stub_parse(cls, lines):
        head = lines[0].strip()
        if "BROKEN" in head:
            raise BadCueSheet("stub: broken entry")
        take = 1 + head.count("+")
        return CueSheetFile(head, [CueSheetTrack(take, "AUDIO")]), lines[take:]

    CueSheetFileAdapter.parse = classmethod(stub_parse)
    try:
        for n in range(3000):
            lines = []
            for k in range(rng.randrange(5)):
                lines += [rng.choice(["", "junk", "  "])] * rng.randrange(3)
                lines.append(f"FILE \"{'+' * rng.randrange(3)}{rng.choice(['a', 'b', 'BROKEN', 'c', 'd'])}{k}\" BINARY")
                lines += [rng.choice(["x", "", "TRACK 01 AUDIO"])] * rng.randrange(4)
            live = run(parse_cue_sheet, lines)
            orig = run(original_parse_cue_sheet, lines)
            check(("stub result", n), live[0], orig[0])
            check(("stub caller's list", n), live[1], orig[1])
            check(("stub helper calls", n), live[2], orig[2])
            if sum(1 for entry in live[2] if entry[0] == "file-parse-done") > 1:
                tally["multi"] += 1
    finally:
        CueSheetFileAdapter.parse = real_parse
    check("several FILE entries exercised", tally["multi"] > 300, True)

    # exact expectations, independent of the pasted original
    got = parse_cue_sheet(list(fixed[6]))
    check("a FILE line after a track is swallowed by that track",
          got, CueSheetFile("a.bin", [CueSheetTrack(1, "AUDIO"),
                                      CueSheetTrack(2, "AUDIO", unparsed=["FILE \"b.bin\" BINARY"]),
                                      CueSheetTrack(1, "MODE1/2352")]))
    got = parse_cue_sheet(list(fixed[10]))
    check("lower case", got, CueSheetFile("lower.bin", [CueSheetTrack(1, "audio", "t", [CueSheetIndex(1, 0, 2, 0)])]))
    check("no FILE", outcome(lambda: parse_cue_sheet(["REM\n"]))[1:3], ("BadCueSheet", "No FILE entry"))
    check("junk where a TRACK is expected", outcome(lambda: parse_cue_sheet(list(fixed[8])))[1:3], ("BadCueSheet", ""))

    # -- end to end --------------------------------------------------------------
    workdir = tempfile.mkdtemp(prefix="r19_demo_")
    try:
        for n in range(4):
            extra = [0, 1, 777, 2048][n]
            payload = make_roland_image(rng, extra)
            blobs = {"raw": payload, "mdf": mdf_wrap(payload)}
            listings = {}
            for kind, blob in blobs.items():
                path = os.path.join(workdir, f"img{n}.{kind}")
                with open(path, "wb") as f:
                    f.write(blob)
                image = actions.determine_image_type(path)
                listings[kind] = (type(image).__name__, image.disk_name, image.num_samples, ls_text(image))
                cue = os.path.join(workdir, f"img{n}.{kind}.cue")
                with open(cue, "w", encoding="ascii") as f:
                    f.write("REM made by demo\n\n"
                            f"FILE \"img{n}.{kind}\" BINARY\n  TRACK 01 MODE1/2352\n    INDEX 01 00:00:00\n"
                            "  TRACK 02 AUDIO\n    INDEX 01 10:00:00\n"
                            "FILE \"never-opened.bin\" BINARY\n  TRACK 03 AUDIO\n")
                image = actions.determine_image_type(cue)
                listings["cue->" + kind] = (type(image).__name__, image.disk_name, image.num_samples, ls_text(image))
            check(("e2e roland", n), [v[0] for v in listings.values()], ["RolandS7xxImage"] * 4)
            check(("e2e same everywhere", n), len(set(listings.values())), 1)

        with open(os.path.join(workdir, "audio.bin"), "wb") as f:
            f.write(bytes(2352 * 75 * 6))
        cue = os.path.join(workdir, "audio.cue")
        with open(cue, "w", encoding="ascii") as f:
            f.write("FILE \"audio.bin\" BINARY\n  TRACK 01 AUDIO\n    TITLE \"One\"\n    INDEX 01 00:00:00\n"
                    "  TRACK 02 AUDIO\n    INDEX 01 00:02:00\n  TRACK 03 AUDIO\n    INDEX 01 00:04:00\n")
        image = actions.determine_image_type(cue)
        check("e2e cdda type", type(image).__name__, "CompactDiskAudioImage")
        check("e2e cdda listing mentions the titled track", "One" in ls_text(image), True)

        # a text file without a usable FILE entry falls through to image detection (AKAI parser object)
        for name, text in [("nofile.cue", "REM nothing\n  TRACK 01 AUDIO\n"),
                           ("badtrack.cue", "FILE \"audio.bin\" BINARY\n  junk\n  TRACK 01 AUDIO\n")]:
            path = os.path.join(workdir, name)
            with open(path, "w", encoding="ascii") as f:
                f.write(text)
            image = actions.determine_image_type(path)
            check(("e2e fallback", name), type(image).__name__, "AkaiImageParser")
            image.file.close()
    finally:
        shutil.rmtree(workdir, ignore_errors=True)

    print(f"{checks} checks, {len(failures)} disagreements")
    for f in failures[:10]:
        print("  MISMATCH", repr(f)[:400])
    return 1 if failures else 0


if __name__ == "__main__":
    sys.exit(main())
