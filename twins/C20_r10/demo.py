"""Equivalence evidence for r10: KeygroupLinkConstruct and ProgramParser
(smpl_extract/akai/program.py), spelled with explicit constructor calls
(Renamed / Array / Seek(..., whence=0) / this[...]) instead of the `/`, `[n]`
and attribute sugar.

1. compares the structure of the live construct trees with an inline copy of
   the ORIGINAL definitions (class, name, count/at/whence expressions, flags);
2. parses many random AKAI program files (72-byte header, seek to the first
   keygroup, chain of 150-byte keygroups linked through arbitrary next-keygroup
   addresses, 0..4 active velocity zones, broken chains, truncated files) with
   both, at stream offset 0, comparing: every field of the Program and of its
   keygroups, the raw containers of the inner Struct, the final stream
   position, the sequence of seek()/read() calls made on the stream, the text
   `ls` prints, and exception type + message (which carries the parsing path);
3. compares sizeof()/build() outcomes (they raise; same exception expected).
Exit 0 = all agree, 1 = a difference was found.
"""
import io
import random
import struct
import sys
from dataclasses import fields

from construct.core import Computed
from construct.core import Construct
from construct.core import FocusedSeq
from construct.core import If
from construct.core import Seek
from construct.core import Struct
from construct.expr import this
from construct.lib.containers import Container

from smpl_extract.akai.data_types import FileType
from smpl_extract.akai.keygroup import KeygroupAdapter
from smpl_extract.akai.keygroup import KeygroupConstruct
from smpl_extract.akai.program import _has_next_keygroup
from smpl_extract.akai.program import _has_valid_first_keygroup
from smpl_extract.akai.program import KeygroupLinkConstruct
from smpl_extract.akai.program import ProgramAdapter
from smpl_extract.akai.program import ProgramHeaderConstruct
from smpl_extract.akai.program import ProgramParser


# --------------------------------------------------------------------------
# inline copy of the ORIGINAL definitions
# --------------------------------------------------------------------------
OriginalKeygroupLinkConstruct = FocusedSeq(
    "keygroup",
    "keygroup_raw"  / KeygroupConstruct,
    "keygroup"      / KeygroupAdapter(Computed(this.keygroup_raw)),
    If(_has_next_keygroup,
        Seek(this.keygroup_raw.next_keygroup_address)
    )
)

OriginalProgramParser = ProgramAdapter(Struct(
    "header" / ProgramHeaderConstruct,
    If(_has_valid_first_keygroup,
        Seek(this.header.first_keygroup_address)
    ),
    "keygroups" / OriginalKeygroupLinkConstruct[this.header.number_of_keygroups]
))


failures = 0
checked = 0


def fail(*msg):
    global failures
    failures += 1
    if failures <= 5:
        print("MISMATCH", *[repr(m)[:400] for m in msg])


# --------------------------------------------------------------------------
# 1. structure of the construct trees
# --------------------------------------------------------------------------
SHARED = {id(KeygroupConstruct): "KeygroupConstruct",
          id(ProgramHeaderConstruct): "ProgramHeaderConstruct"}


def shape(con, depth=0):
    """nested description of a construct; shared sub-trees named, not walked"""
    if id(con) in SHARED:
        return SHARED[id(con)]
    if not isinstance(con, Construct):
        # expression / plain value: `this` paths print as this['a']['b']
        if con is _has_next_keygroup or con is _has_valid_first_keygroup:
            return con.__name__
        return (type(con).__name__, repr(con))
    out = [type(con).__name__, getattr(con, "name", None),
           con.flagbuildnone, getattr(con, "docs", None),
           getattr(con, "parsed", None)]
    for attr in ("count", "discard", "at", "whence", "condfunc", "func",
                 "parsebuildfrom", "name_key"):
        if hasattr(con, attr):
            out.append((attr, shape(getattr(con, attr), depth + 1)))
    for attr in ("subcon", "thensubcon", "elsesubcon"):
        if hasattr(con, attr):
            out.append((attr, shape(getattr(con, attr), depth + 1)))
    if hasattr(con, "subcons"):
        out.append(("subcons", [shape(c, depth + 1) for c in con.subcons]))
        out.append(("_subcons", sorted(con._subcons.keys())
                    if hasattr(con, "_subcons") else None))
    return out


checked += 2
if shape(KeygroupLinkConstruct) != shape(OriginalKeygroupLinkConstruct):
    fail("shape link", shape(KeygroupLinkConstruct),
         shape(OriginalKeygroupLinkConstruct))
if shape(ProgramParser) != shape(OriginalProgramParser):
    fail("shape parser", shape(ProgramParser), shape(OriginalProgramParser))


# --------------------------------------------------------------------------
# 2. random program files
# --------------------------------------------------------------------------
class TracingStream(io.BytesIO):
    def __init__(self, data):
        super().__init__(data)
        self.trace = []

    def seek(self, *a):
        r = super().seek(*a)
        self.trace.append(("seek", a, r))
        return r

    def read(self, *a):
        r = super().read(*a)
        self.trace.append(("read", a, len(r)))
        return r


def describe_program(program):
    out = {}
    for f in fields(program):
        v = getattr(program, f.name)
        out[f.name] = (type(v).__name__, repr(v))
    out["name"] = program.name
    out["path"] = list(program.path)
    out["items"] = program.itemize()
    try:
        out["info"] = program.get_info().to_string()
    except TypeError as e:
        out["info"] = ("exc", str(e))
    return out


def strip(obj):
    """containers -> plain comparable data (drop the _io entry)"""
    if isinstance(obj, dict):
        return {k: strip(v) for k, v in obj.items() if k != "_io"}
    if isinstance(obj, (list, tuple)):
        return [strip(v) for v in obj]
    return (type(obj).__name__, repr(obj))


def run(parser, blob, ctx, describe):
    stream = TracingStream(blob)
    try:
        out = ("ok", describe(parser.parse_stream(stream, **ctx)))
    except Exception as e:  # noqa
        out = ("exc", type(e).__name__, str(e))
    return out, stream.tell(), stream.trace


DEFAULT_KEYGROUP = bytes.fromhex(
    "029600187f0000630c000000001e632d000000000032632d0000000000000104ffff"
    + "0a0a0a0a0a0a0a0a0a0a0a0a007f000000000000ffff2c01" * 4
    + "0000010100000000000000000000000000000000"
)
assert len(DEFAULT_KEYGROUP) == 150


def akai_name(rng, allow_empty=True):
    if allow_empty and rng.random() < 0.3:
        return bytes([0x0A] * 12)
    n = rng.randrange(1, 13)
    return bytes(rng.randrange(0, 0x29) for _ in range(n)) + bytes([0x0A] * (12 - n))


def make_keygroup(rng, next_address):
    kg = bytearray(DEFAULT_KEYGROUP)
    kg[0] = rng.randrange(256)
    kg[1:3] = struct.pack("<H", next_address)
    lo = rng.randrange(0x18, 0x80)
    kg[3] = lo
    kg[4] = rng.randrange(0x18, 0x80)
    for off in range(5, 30):
        kg[off] = rng.randrange(256)
    kg[30] = rng.randrange(2)
    if rng.random() < 0.03:
        kg[31] = rng.randrange(0, 6)  # unusual zone count
    for z in range(4):
        base = 34 + 24 * z
        kg[base:base + 12] = akai_name(rng)
        kg[base + 12] = rng.randrange(128)
        kg[base + 13] = rng.randrange(128)
        for off in range(14, 19):
            kg[base + off] = rng.randrange(256)
        kg[base + 19] = rng.choice([0, 1, 2, 3, 4, 4, 0, 7])
    kg[130] = rng.randrange(256)
    kg[131] = rng.randrange(2)
    for off in range(132, 136):
        kg[off] = rng.randrange(2)
    for off in range(136, 149):
        kg[off] = rng.randrange(256)
    return bytes(kg)


def make_program(rng):
    num = rng.choice([0, 1, 1, 2, 3, 5, 8, rng.randrange(0, 12)])
    # place the keygroups at arbitrary, non-overlapping addresses
    slots = list(range(rng.randrange(4, 8) + num))
    rng.shuffle(slots)
    gap = rng.randrange(0, 30)
    addresses = [72 + gap + 150 * s for s in slots[:max(num, 1)]]
    first = addresses[0]
    if rng.random() < 0.05:
        first = 0  # "no valid first keygroup": parsing continues at offset 72
    declared = num
    if rng.random() < 0.05:
        declared = num + rng.randrange(1, 3)  # more declared than linked

    hdr = bytearray(72)
    hdr[0] = rng.randrange(256)
    hdr[1:3] = struct.pack("<H", first)
    hdr[3:15] = akai_name(rng)
    for off in range(15, 72):
        hdr[off] = rng.randrange(256)
    hdr[18] = rng.choice([0, 1, 2, 3, 1, 2, 9])        # priority enum
    hdr[19] = rng.randrange(0x18, 0x80)
    hdr[20] = rng.randrange(0x18, 0x80)
    hdr[61] = rng.choice([0, 1, 0, 1, 0, 1, 5])        # voice reassign enum
    hdr[42] = declared

    size = 72 + gap + 150 * (len(slots) + 1)
    image = bytearray(rng.randrange(256) for _ in range(size))
    image[0:72] = hdr
    for i in range(num):
        if i + 1 < num:
            nxt = addresses[i + 1]
        else:
            nxt = rng.choice([0, addresses[0], rng.randrange(65536)])
        if rng.random() < 0.02:
            nxt = 0  # chain broken early
        image[addresses[i]:addresses[i] + 150] = make_keygroup(rng, nxt)
    return bytes(image)



rng = random.Random(10)
ok_count = 0
blobs = []
for n in range(900):
    blob = make_program(rng)
    if n % 25 == 7:
        blob = blob[:rng.randrange(0, len(blob))]   # truncated file
    blobs.append(blob)
blobs += [b"", bytes(71), bytes(72), bytes(400), b"\xff" * 1000]

for n, blob in enumerate(blobs):
    ctx = {}
    if n % 3 == 1:
        ctx = dict(file_type=rng.choice(list(FileType)))
    elif n % 3 == 2:
        ctx = dict(file_type="custom", _elem_name=rng.choice(["ELEM", ""]))
    # whole parser -> Program element
    checked += 1
    a = run(ProgramParser, blob, ctx, describe_program)
    b = run(OriginalProgramParser, blob, ctx, describe_program)
    if a != b:
        fail("parse", n, a, b)
    ok_count += a[0][0] == "ok"
    # inner Struct -> raw containers
    checked += 1
    a = run(ProgramParser.subcon, blob, ctx, strip)
    b = run(OriginalProgramParser.subcon, blob, ctx, strip)
    if a != b:
        fail("parse raw", n, a, b)

if ok_count < 300:
    fail("too few successful parses to be meaningful", ok_count)

# a single chain link parsed on its own (needs the enclosing context)
link_ok = 0
for n in range(400):
    num = rng.choice([0, 1, 2, 3, 200])
    index = rng.choice([0, 1, 2, 199])
    nxt = rng.choice([0, 0, 150, 151, 300, 65535])
    blob = make_keygroup(rng, nxt) + bytes(rng.randrange(256) for _ in range(200))
    if n % 20 == 3:
        blob = blob[:rng.randrange(0, 150)]
    results = []
    for con in (KeygroupLinkConstruct, OriginalKeygroupLinkConstruct):
        stream = TracingStream(blob)
        context = Container(header=Container(number_of_keygroups=num),
                            _index=index, _parsing=True, _building=False,
                            _sizing=False, _params=Container(), _io=stream)
        try:
            res = ("ok", strip(con._parsereport(stream, context, "(link)")))
        except Exception as e:  # noqa
            res = ("exc", type(e).__name__, str(e))
        results.append((res, stream.tell(), stream.trace,
                        sorted(k for k in context.keys())))
    checked += 1
    link_ok += results[0][0][0] == "ok"
    if results[0] != results[1]:
        fail("link", n, results[0], results[1])
if link_ok < 200:
    fail("too few successful link parses", link_ok)


# --------------------------------------------------------------------------
# 3. sizeof / build
# --------------------------------------------------------------------------
def outcome(fn):
    try:
        return ("ok", repr(fn()))
    except Exception as e:  # noqa
        return ("exc", type(e).__name__, str(e))


pairs = [
    (ProgramParser, OriginalProgramParser),
    (ProgramParser.subcon, OriginalProgramParser.subcon),
    (KeygroupLinkConstruct, OriginalKeygroupLinkConstruct),
]
for live, orig in pairs:
    for kw in ({}, dict(header=dict(number_of_keygroups=2))):
        checked += 1
        a = outcome(lambda: live.sizeof(**kw))
        b = outcome(lambda: orig.sizeof(**kw))
        if a != b:
            fail("sizeof", kw, a, b)
    for obj in (None, {}, [], dict(header={}, keygroups=[]), [None, None, None]):
        checked += 1
        a = outcome(lambda: live.build(obj))
        b = outcome(lambda: orig.build(obj))
        if a != b:
            fail("build", obj, a, b)

print("r10 demo: %d comparisons (%d programs, %d links parsed ok), %d failures"
      % (checked, ok_count, link_ok, failures))
sys.exit(1 if failures else 0)
