"""Equivalence demo for r4 (actions.determine_image_type: the `is_textfile`
flag + pre-initialised `lines = []` replaced by try/except/else, temporary
`result` inlined).

An inline copy of the ORIGINAL determine_image_type is run next to the module's
version on real files in a temp directory (cue sheets with cosmetic variations,
non-ASCII text, text without FILE, binary garbage, missing files, streams) and
with the collaborators (parse_text_file, attempt_parse_cue_sheet, open) traced
or stubbed, comparing: kind of image returned / exception raised, image
contents, and the exact sequence of collaborator calls.  Exit 0 = all agree.
"""
import builtins
import io
import os
import random
import re
import shutil
import sys
import tempfile

import smpl_extract.actions as A
from smpl_extract.akai.image import AkaiImageParser
from smpl_extract.cdda.image import CompactDiskAudioImage
from smpl_extract.roland.s7xx.image import RolandSxxImageParser


# --------------------------------------------------------------------------
# inline copy of the ORIGINAL implementation (collaborators looked up in the
# actions module at call time, exactly like the module-level function does)
# --------------------------------------------------------------------------
def o_determine_image_type(file):
    if isinstance(file, str):
        is_textfile = True
        lines = []
        try:
            lines = A.parse_text_file(file)
        except A.BadTextFile:
            is_textfile = False

        if is_textfile:
            parent_directory = A.os.path.dirname(file)
            try:
                result = A.attempt_parse_cue_sheet(lines, parent_directory)
                return result
            except A.BadCueSheet:
                pass

        file_stream = A.open(file, "rb") if hasattr(A, "open") else open(file, "rb")
    else:
        file_stream = file

    if A.is_mdf_image(file_stream):
        file_stream = A.MdfStream(file_stream)
    elif A.is_mdx_image(file_stream):
        file_stream = A.MdxStream(file_stream)

    if A.is_roland_s7xx_image(file_stream):
        result = A.RolandSxxImageParser(file_stream)
    else:
        result = A.AkaiImageParser(file_stream)
    return result


def o_parse_text_file(filename):
    with open(filename, "r", encoding="ascii") as file:
        try:
            text = file.readlines()
        except (UnicodeDecodeError) as e:
            raise A.BadTextFile from e
        return text


# --------------------------------------------------------------------------
failures = 0


def check(cond, what):
    global failures
    if not cond:
        failures += 1
        if failures < 20:
            print("MISMATCH:", what)


def describe(img):
    """Comparable description of whatever determine_image_type returned."""
    if isinstance(img, CompactDiskAudioImage):
        return ("cdda", [
            (t.title, t.num_audio_samples, t._data_stream.offset,
             tuple(t.path), getattr(t._data_stream, "size", None))
            for t in img.tracks])
    if isinstance(img, AkaiImageParser):
        f = img.file
        return ("akai", getattr(f, "name", None), getattr(f, "mode", None),
                img.file_size, f.tell())
    if isinstance(img, RolandSxxImageParser):
        return ("roland",)
    return ("other", repr(img))


class Tracer:
    """Logs calls to parse_text_file / attempt_parse_cue_sheet / open('rb')."""

    def __init__(self):
        self.log = []
        self._saved = {}

    def __enter__(self):
        self._saved = {
            "parse_text_file": A.parse_text_file,
            "attempt_parse_cue_sheet": A.attempt_parse_cue_sheet,
        }
        real_ptf = A.parse_text_file
        real_att = A.attempt_parse_cue_sheet
        real_open = builtins.open
        log = self.log

        def ptf(filename):
            log.append(("parse_text_file", filename))
            try:
                r = real_ptf(filename)
            except BaseException as e:
                log.append(("parse_text_file raised", type(e).__name__))
                raise
            log.append(("parse_text_file ->", tuple(r)))
            return r

        def att(lines, directory=""):
            log.append(("attempt", tuple(lines), directory))
            try:
                r = real_att(lines, directory)
            except BaseException as e:
                log.append(("attempt raised", type(e).__name__))
                raise
            log.append(("attempt ->", type(r).__name__))
            return r

        def traced_open(f, mode="r", *a, **k):
            log.append(("open", f, mode, k.get("encoding")))
            return real_open(f, mode, *a, **k)

        A.parse_text_file = ptf
        A.attempt_parse_cue_sheet = att
        A.open = traced_open          # module-level name shadows the builtin
        return self

    def __exit__(self, *exc):
        A.parse_text_file = self._saved["parse_text_file"]
        A.attempt_parse_cue_sheet = self._saved["attempt_parse_cue_sheet"]
        del A.open
        return False


def call(fn, arg):
    with Tracer() as tr:
        try:
            out = ("ok", describe(fn(arg)))
        except Exception as e:
            out = ("exc", type(e).__name__, str(e))
    return out, tr.log


def compare(arg_factory, label):
    a = call(o_determine_image_type, arg_factory())
    b = call(A.determine_image_type, arg_factory())
    check(a[0] == b[0], (label, "result", a[0], b[0]))
    check(a[1] == b[1], (label, "call sequence", a[1], b[1]))
    return a[0]


# --------------------------------------------------------------------------
tmp = tempfile.mkdtemp(prefix="r4demo")
try:
    rnd = random.Random(4)
    frame = 2352
    with open(os.path.join(tmp, "disc.bin"), "wb") as f:
        f.write(bytes(rnd.randrange(256) for _ in range(frame * 40)))
    with open(os.path.join(tmp, "zero.bin"), "wb") as f:
        f.write(b"\0" * 4096)
    with open(os.path.join(tmp, "empty.bin"), "wb") as f:
        pass

    def canonical(n, binname="disc.bin", data_track=False):
        out = ["FILE \"%s\" BINARY" % binname]
        for i in range(1, n + 1):
            mode = "MODE1/2352" if (data_track and i == 1) else "AUDIO"
            out.append("  TRACK %02d %s" % (i, mode))
            out.append("    TITLE \"Song %d\"" % i)
            out.append("    INDEX 01 00:00:%02d" % (i * 3))
        return out

    def recase(s, mode):
        if mode == 0:
            return s
        if mode == 1:
            return s.lower()
        if mode == 2:
            return s.upper()
        return "".join(c.upper() if k % 2 else c.lower() for k, c in enumerate(s))

    noise = ["", "   ", "REM comment", "PERFORMER \"Someone\"", "FLAGS DCP",
             "PREGAP 00:02:00", "CATALOG 1234567890123"]

    files = {}          # name -> bytes

    def add(name, lines, eol="\n", enc="ascii"):
        files[name] = (eol.join(lines) + eol).encode(enc)

    k = 0
    for n in (1, 2, 3):
        for data_track in (False, True):
            base = canonical(n, data_track=data_track)
            for mode in range(4):
                # keep the bin file name's case: it is not a keyword
                cased = [re.sub("disc\\.bin", "disc.bin", recase(l, mode), flags=re.I) for l in base]
                for pad in ("", "  "):
                    for eol in ("\n", "\r\n"):
                        k += 1
                        add("c%d.cue" % k, [pad + l + pad for l in cased], eol)
            for pos in range(len(base) + 1):
                for nz in noise:
                    k += 1
                    s = list(base)
                    s.insert(pos, nz)
                    add("c%d.cue" % k, s)
    add("missingbin.cue", canonical(2, binname="nope.bin"))
    add("missingbin_data.cue", canonical(2, binname="nope.bin", data_track=True))
    add("emptybin.cue", canonical(2, binname="empty.bin"))
    add("zerobin_data.cue", canonical(2, binname="zero.bin", data_track=True))
    add("notracks.cue", ["FILE \"disc.bin\" BINARY"])
    add("nofile.cue", ["REM just text", "TRACK 01 AUDIO", "INDEX 01 00:00:00"])
    add("wave.cue", ["FILE \"disc.bin\" WAVE", "TRACK 01 AUDIO"])
    add("badtrack.cue", ["FILE \"disc.bin\" BINARY", "garbage"])
    add("plain.txt", ["hello world"])
    files["empty.txt"] = b""
    files["blank.txt"] = b"\n\n   \n"
    files["latin1.cue"] = ("\n".join(["REM caf\xe9"] + canonical(2)) + "\n").encode("latin-1")
    files["utf8.cue"] = ("\n".join(canonical(1) + ["REM ü"]) + "\n").encode("utf-8")
    files["utf8title.cue"] = "\n".join(canonical(1)).replace("Song", "Söng").encode("utf-8")
    files["bom.cue"] = b"\xef\xbb\xbf" + "\n".join(canonical(1)).encode("ascii")
    files["highbyte_late.cue"] = ("\n".join(canonical(2)) + "\n").encode("ascii") + b" " * 20000 + b"\xff"
    files["nul.cue"] = b"\0" * 100
    files["random.img"] = bytes(rnd.randrange(256) for _ in range(5000))
    files["ascii_random.img"] = bytes(rnd.randrange(32, 127) for _ in range(5000))
    for name, data in files.items():
        with open(os.path.join(tmp, name), "wb") as f:
            f.write(data)

    kinds = {}
    for name in sorted(files):
        path = os.path.join(tmp, name)
        res = compare(lambda: path, name)
        kinds[res[1][0] if res[0] == "ok" else res[1]] = kinds.get(res[1][0] if res[0] == "ok" else res[1], 0) + 1
        # parse_text_file itself (untouched by r4, but part of the mechanism)
        outs = []
        for fn in (o_parse_text_file, A.parse_text_file):
            try:
                outs.append(("ok", fn(path)))
            except Exception as e:
                outs.append(("exc", type(e).__name__, type(e.__cause__).__name__))
        check(outs[0] == outs[1], (name, "parse_text_file", outs))

    # relative path (dirname == "") and odd paths
    cwd = os.getcwd()
    os.chdir(tmp)
    try:
        for name in ("c1.cue", "latin1.cue", "nofile.cue", "missingbin.cue", "random.img"):
            compare(lambda: name, "relative " + name)
    finally:
        os.chdir(cwd)
    compare(lambda: os.path.join(tmp, "does_not_exist.cue"), "missing path")
    compare(lambda: tmp, "directory path")
    compare(lambda: "", "empty path")

    # already-open streams and non-str arguments bypass the text probe
    compare(lambda: open(os.path.join(tmp, "c1.cue"), "rb"), "stream cue")
    compare(lambda: open(os.path.join(tmp, "random.img"), "rb"), "stream img")
    compare(lambda: io.BytesIO(b"\0" * 3000), "BytesIO")
    compare(lambda: None, "None")

    # stubbed collaborators: every way the two try-blocks can end
    class Sentinel:
        def __init__(self, truthy):
            self.truthy = truthy

        def __bool__(self):
            return self.truthy

    def stubbed(ptf_behaviour, att_behaviour, label):
        outs = []
        for fn in (o_determine_image_type, A.determine_image_type):
            log = []
            saved = (A.parse_text_file, A.attempt_parse_cue_sheet)

            def ptf(filename):
                log.append(("ptf", filename))
                if isinstance(ptf_behaviour, BaseException):
                    raise ptf_behaviour
                return ptf_behaviour

            def att(lines, directory=""):
                log.append(("att", lines, directory))
                if isinstance(att_behaviour, BaseException):
                    raise att_behaviour
                return att_behaviour

            A.parse_text_file, A.attempt_parse_cue_sheet = ptf, att
            try:
                try:
                    r = fn(os.path.join(tmp, "random.img"))
                    out = ("ok", r if not isinstance(r, AkaiImageParser) else "akai")
                except BaseException as e:
                    out = ("exc", type(e).__name__, e is ptf_behaviour, e is att_behaviour)
            finally:
                A.parse_text_file, A.attempt_parse_cue_sheet = saved
            outs.append((out, log))
        check(outs[0] == outs[1], (label, outs))

    s_true, s_false = Sentinel(True), Sentinel(False)
    ptf_cases = [["x\n"], [], None, 0, "", A.BadTextFile(), A.BadTextFile("m"),
                 A.BadCueSheet(), ValueError("v"), OSError("o"), KeyboardInterrupt(),
                 UnicodeDecodeError("ascii", b"\xff", 0, 1, "r")]
    att_cases = [s_true, s_false, None, 0, [], A.BadCueSheet(), A.BadCueSheet("m"),
                 A.BadTextFile(), ValueError("v"), FileNotFoundError("f"), KeyboardInterrupt()]
    for i, p in enumerate(ptf_cases):
        for j, a in enumerate(att_cases):
            stubbed(p, a, "stub %d/%d" % (i, j))

    print("files: %d, result kinds: %s, mismatches: %d" % (len(files), kinds, failures))
finally:
    shutil.rmtree(tmp, ignore_errors=True)

sys.exit(1 if failures else 0)
