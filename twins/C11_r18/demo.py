"""Equivalence demo for FileAllocationTable.get_path (smpl_extract/util/fat.py).

get_path() walks the allocation chain of a file; the list it returns is the
sector_list of the AKAI Segment / RolandFile, i.e. it decides which absolute
address SectorStream._read_sector seeks to before every sector read.

The live method is compared with a verbatim copy of the ORIGINAL one:

 1. exhaustively over every table of up to 4 links (each link: any next index
    incl. out of range, end or not) x every `size` from -1 to 6 x every start
    sector from -5 to 6;
 2. randomly over bigger tables (chains, loops, self loops, links that point
    outside the table, negative indices, `size` smaller / equal / larger than
    the table, empty tables, bool size) - returned list, exception type and
    text, and the (unchanged) table must agree;
 3. end to end: SegmentAllocationTable.get_segment and
    RolandFileAllocationTable.get_file built on a live and on an original
    table over ONE shared traced handle; block reads of two or three files are
    interleaved exhaustively and randomly; bytes, errors and the seek/read
    trace of the handle must agree, and equal isolated sequential reads.
Exit 0 when everything agrees, 1 otherwise.
"""
import io
import itertools
import random
import sys
from typing import List

from smpl_extract.akai.sat import SegmentAllocationTable
from smpl_extract.roland.s7xx.fat import RolandFileAllocationTable
from smpl_extract.util.fat import FileAllocationTable
from smpl_extract.util.fat import InvalidFatDefinition
from smpl_extract.util.fat import RequestedInvalidSector
from smpl_extract.util.fat import SectorLink
from smpl_extract.util.fat import add_to_sector_links
from smpl_extract.util.stream import StreamOffset


def orig_get_path(
        self,
        starting_sector: int
)->List[int]:
    """Verbatim copy of the original FileAllocationTable.get_path."""

    path = []
    current_sector = starting_sector

    loop_cnt = 0
    while loop_cnt < self.size:
        if current_sector >= len(self.sector_links):
            raise RequestedInvalidSector

        path.append(current_sector)
        sector_link = self.sector_links[current_sector]

        if sector_link.end:
            break
        current_sector = sector_link.next
        loop_cnt += 1

    if loop_cnt >= self.size:
        raise InvalidFatDefinition("Broken FAT. Loop? Sector path exceeds size?")

    return path


_ORIG = {}


def live(cls):
    return cls


def orig(cls):
    if cls not in _ORIG:
        _ORIG[cls] = type("Orig" + cls.__name__, (cls,), {"get_path": orig_get_path})
    return _ORIG[cls]


FAILURES = []
CHECKS = 0


def check(cond, label):
    global CHECKS
    CHECKS += 1
    if not cond:
        FAILURES.append(label)
        if len(FAILURES) <= 20:
            print("MISMATCH:", label)


def outcome(fn):
    try:
        r = fn()
        return ("ok", type(r).__name__, r)
    except Exception as e:  # noqa: BLE001
        ctx = type(e.__context__).__name__ if e.__context__ is not None else None
        return ("exc", type(e).__name__, str(e), ctx)


def compare_paths(links, size, start, label):
    snapshot = [(x.next, x.end) for x in links]
    a = outcome(lambda: live(FileAllocationTable)(None, size, links).get_path(start))
    b = outcome(lambda: orig(FileAllocationTable)(None, size, links).get_path(start))
    check(a == b, f"{label} size={size} start={start} links={snapshot}: {a} != {b}")
    check(snapshot == [(x.next, x.end) for x in links], f"{label}: table was modified")


# ------------------------------------------------------------- 1. exhaustive
def part_exhaustive():
    n = 0
    for table_len in range(0, 5):
        choices = [
            (nxt, end)
            for nxt in range(-1, table_len + 2)
            for end in (False, True)
        ]
        if table_len == 4:
            # keep it bounded: drop the "end" variants that only repeat
            choices = [(nxt, end) for nxt, end in choices if not (end and nxt not in (0, 2))]
        for combo in itertools.product(choices, repeat=table_len):
            links = [SectorLink(next=nxt, end=end) for nxt, end in combo]
            for size in range(-1, 7):
                for start in range(-5, 7):
                    compare_paths(links, size, start, "exhaustive")
                    n += 1
    return n


# ----------------------------------------------------------------- 2. random
def random_table(rng):
    n = rng.choice((0, 1, 2, 3, 5, 8, 13, 40, 120))
    links = []
    shared_default = SectorLink()
    for i in range(n):
        kind = rng.random()
        if kind < 0.15:
            links.append(shared_default)          # the same object, as [SectorLink()] * n gives
        elif kind < 0.30:
            links.append(SectorLink(next=rng.randrange(-3, n + 4), end=True))
        elif kind < 0.40:
            links.append(SectorLink(next=i, end=False))  # self loop
        elif kind < 0.50:
            links.append(SectorLink(next=n + rng.randrange(0, 3), end=False))  # leaves the table
        elif kind < 0.55:
            links.append(SectorLink(next=-rng.randrange(1, n + 2), end=False))  # negative index
        else:
            links.append(SectorLink(next=rng.randrange(0, max(1, n)), end=False))
    return links


def part_random():
    rng = random.Random(1812)
    n = 0
    for _ in range(4000):
        links = random_table(rng)
        n_links = len(links)
        sizes = {0, 1, n_links, n_links + 1, max(0, n_links - 1), 2 * n_links + 3, -2,
                 rng.randrange(0, n_links + 5), True, False}
        for size in sizes:
            for start in {0, 1, n_links - 1, n_links, n_links + 1, -1, -n_links, -n_links - 1,
                          rng.randrange(-2, n_links + 3), rng.randrange(-2, n_links + 3)}:
                compare_paths(links, size, start, "random")
                n += 1
    # tables produced by the project's own helper (well formed chains)
    for _ in range(500):
        n_links = rng.choice((4, 16, 64))
        links = [SectorLink()] * n_links
        free = list(range(n_links))
        rng.shuffle(free)
        while len(free) > 1:
            take = rng.randint(1, min(6, len(free)))
            chain, free = free[:take], free[take:]
            add_to_sector_links(chain, links)
        for size in (n_links, n_links // 2, 3, 1):
            for start in range(-1, n_links + 1):
                compare_paths(links, size, start, "chains")
                n += 1
    return n


# ------------------------------------------------------------- 3. end to end
class TraceIO(io.BytesIO):
    def __init__(self, data):
        super().__init__(data)
        self.trace = []

    def seek(self, off, whence=0):
        r = super().seek(off, whence)
        self.trace.append(("seek", off, whence, r))
        return r

    def tell(self):
        r = super().tell()
        self.trace.append(("tell", r))
        return r

    def read(self, size=-1):
        r = super().read(size)
        self.trace.append(("read", size, len(r)))
        return r


AKAI_SECTOR = 0x2000
ROLAND_CLUSTER = 0x2400   # only used to size the image generously
N_SECTORS = 24
IMAGE = bytes(
    ((i * 131) ^ (i >> 7) ^ (i >> 13) * 29) & 0xFF
    for i in range(64 + N_SECTORS * 0x2400 + 100)
)


def make_links(rng, n_links, with_damage):
    links = [SectorLink()] * n_links
    free = list(range(1, n_links))
    rng.shuffle(free)
    starts = []
    while len(free) > 5:
        take = rng.randint(1, 4)
        chain, free = free[:take], free[take:]
        add_to_sector_links(chain, links)
        starts.append(chain[0])
    if with_damage:
        # a loop and a link that leaves the table
        a, b = free[0], free[1]
        links[a] = SectorLink(next=b, end=False)
        links[b] = SectorLink(next=a, end=False)
        starts.append(a)
        victim = starts[0]
        links[victim] = SectorLink(next=n_links + 2, end=False)
    return links, starts


def open_files(K, flavour, h, links, starts):
    window = StreamOffset(h, len(IMAGE) - 64, 64)
    files = []
    if flavour == "akai":
        table = K(SegmentAllocationTable)(window, len(links), links)
        for s in starts:
            files.append(outcome(lambda: table.get_segment(s)))
    else:
        table = K(RolandFileAllocationTable)(window, len(links), links)
        for k, s in enumerate(starts):
            files.append(outcome(lambda: table.get_file(s, cluster_offset=k % 3)))
    return files


def run_reads(K, flavour, links, starts, schedule):
    h = TraceIO(IMAGE)
    files = open_files(K, flavour, h, links, starts)
    opened = [(f[0], f[1]) if f[0] == "ok" else f for f in files]
    lists = [list(f[2].sector_list) if f[0] == "ok" else None for f in files]
    results = []
    for idx, size in schedule:
        f = files[idx]
        if f[0] != "ok":
            results.append(f)
            continue
        r = outcome(lambda: f[2].read(size))
        results.append(r)
    return opened, lists, results, list(h.trace)


def isolated(K, flavour, links, starts, schedule):
    out = []
    per = {}
    for idx in range(len(starts)):
        sub = [(i, s) for i, s in schedule if i == idx]
        per[idx] = run_reads(K, flavour, links, starts, sub)[2]
    cursor = {i: 0 for i in range(len(starts))}
    for i, _ in schedule:
        out.append(per[i][cursor[i]])
        cursor[i] += 1
    return out


def part_end_to_end():
    rng = random.Random(1813)
    n = 0
    for flavour in ("akai", "roland"):
        for round_no in range(6):
            links, starts = make_links(rng, N_SECTORS, with_damage=(round_no % 2 == 1))
            starts = starts[:3] + starts[-1:]
            # exhaustive orders of 2 files x 3 blocks and 3 files x 2 blocks
            for counts in ((3, 3), (2, 2, 2)):
                pool = [i for i, c in enumerate(counts) for _ in range(c)]
                for order in sorted(set(itertools.permutations(pool))):
                    schedule = [(i, rng.choice((1, 100, 0x1000, 0x2000, 0x2400, 0x3001))) for i in order]
                    a = run_reads(live, flavour, links, starts, schedule)
                    b = run_reads(orig, flavour, links, starts, schedule)
                    check(a == b, f"end to end {flavour} {schedule}: live and original differ")
                    check(a[2] == isolated(live, flavour, links, starts, schedule),
                          f"end to end {flavour} {schedule}: shared differs from isolated")
                    n += 1
            for _ in range(40):
                schedule = [
                    (rng.randrange(len(starts)), rng.choice((0, 7, 512, 0x1000, 0x2000, 0x2400, 0x5000, None)))
                    for _ in range(rng.randint(1, 12))
                ]
                a = run_reads(live, flavour, links, starts, schedule)
                b = run_reads(orig, flavour, links, starts, schedule)
                check(a == b, f"end to end random {flavour} {schedule}: live and original differ")
                check(a[2] == isolated(live, flavour, links, starts, schedule),
                      f"end to end random {flavour} {schedule}: shared differs from isolated")
                n += 1
    return n


def main():
    n1 = part_exhaustive()
    n2 = part_random()
    n3 = part_end_to_end()
    print(f"exhaustive: {n1}, random: {n2}, end to end schedules: {n3}, checks: {CHECKS}")
    if FAILURES:
        print(f"{len(FAILURES)} mismatches")
        return 1
    print("all agree")
    return 0


if __name__ == "__main__":
    sys.exit(main())
