"""Equivalence demo for r23 (smpl_extract/base.py, Element.export_path - the
path components ExportManager.make_output_path joins into
<partition>/<volume>/<name> for every exported WAV).

An inline copy of the ORIGINAL export_path is compared with the live method:
  A. on synthetic element chains (depth 0..7; empty / non-empty / missing
     paths at any level; parent None or missing; export names set, unset or
     missing; odd name values) whose path / parent / export_name / name
     attributes log every access: same result (value and list type, a fresh
     list each call), same exception, same sequence of attribute reads;
  B. on every element (partitions, volumes, samples, generalized samples) of
     AKAI images made by an independent writer: same components;
  C. whole images exported to WAV with the live method and with the original
     patched in: same stdout, same files, same bytes.
Exit 0 = all agree."""
import contextlib
import hashlib
import io
import os
import random
import shutil
import sys
import tempfile
from typing import List

from smpl_extract.base import Element


# ---- inline copy of the ORIGINAL implementation -------------------------
def orig_export_path(self) -> List[str]:
    current_path = self.path
    if len(current_path) <= 0:
        return []
    new_path = []
    current_node = self
    while current_node is not None and len(current_node.path) > 0:
        new_path = [current_node.export_name] + new_path
        current_node = current_node.parent
    return new_path
# -------------------------------------------------------------------------

# ---- independent AKAI S1000/S3000 image writer (logical model -> bytes) ----
import struct as _struct

SECTOR = 0x2000
SAT_CNT = 11386
HEADER_SECTORS = 3
MAGIC = b"".join(((3333 * i) & 0xFFFF).to_bytes(2, "little") for i in range(1, 98))


def akai_name(text):
    out = bytearray()
    for ch in text.upper().ljust(12)[:12]:
        if "0" <= ch <= "9":
            out.append(ord(ch) - ord("0"))
        elif "A" <= ch <= "Z":
            out.append(ord(ch) - ord("A") + 0x0B)
        else:
            out.append({" ": 0x0A, "#": 0x25, "+": 0x26, "-": 0x27, ".": 0x28}[ch])
    return bytes(out)


def sample_file(name, type_byte, rate, pcm, play_start, play_end, loops=(), loop_type=2):
    """140 byte header followed by the 16 bit words."""
    head = bytearray()
    head += bytes([type_byte, 0, 60])
    head += akai_name(name)
    head += bytes(4)
    head += bytes([loop_type, 0, 0])
    head += bytes(4)
    head += _struct.pack("<III", len(pcm) // 2, play_start, play_end)
    table = list(loops) + [(0, 0, 0, 0)] * (8 - len(loops))
    for at, fine, coarse, duration in table:
        head += _struct.pack("<IHIH", at, fine, coarse, duration)
    head += bytes(4)
    head += _struct.pack("<H", rate)
    assert len(head) == 140, len(head)
    return bytes(head) + pcm


def build_partition(rnd, volumes, layout="random", dir_style="chain", spare=6):
    """volumes: list of (name, type 1|3, [(file name, file type byte, content bytes)])"""
    needed = HEADER_SECTORS
    for _name, _type, files in volumes:
        needed += 2 + (24 * (len(files) + 1) + SECTOR - 1) // SECTOR
        for _fname, _ftype, content in files:
            needed += max(1, (len(content) + SECTOR - 1) // SECTOR)
    total = needed + spare
    sat = [0] * SAT_CNT
    for s in range(HEADER_SECTORS):
        sat[s] = 0x4000
    sectors = {}
    free = list(range(HEADER_SECTORS, total))

    def take(count, how):
        nonlocal free
        if how == "contiguous":
            for at in range(len(free) - count + 1):
                run = free[at:at + count]
                if run[-1] - run[0] == count - 1:
                    break
            else:
                raise AssertionError("no contiguous run")
            chosen = run
        elif how == "ascending":
            chosen = sorted(rnd.sample(free, count))
        elif how == "descending":
            chosen = sorted(rnd.sample(free, count), reverse=True)
        else:
            chosen = rnd.sample(free, count)
        free = [s for s in free if s not in chosen]
        return chosen

    def store(chain, payload):
        for n, s in enumerate(chain):
            sectors[s] = payload[n * SECTOR:(n + 1) * SECTOR].ljust(SECTOR, b"\x00")

    # directories first (a reserved run needs a non reserved sector behind it)
    dir_chains = []
    for _name, _type, files in volumes:
        count = (24 * (len(files) + 1) + SECTOR - 1) // SECTOR
        if dir_style == "reserved":
            chain = take(count + 1, "contiguous")
            guard = chain.pop()
            free.append(guard)
            free.sort()
            for s in chain:
                sat[s] = 0x4000
            # keep the guard sector out of later reserved runs: leave it free
            free.remove(guard)
        else:
            chain = take(count, "contiguous" if dir_style == "chain" else "random")
            for a, b in zip(chain, chain[1:]):
                sat[a] = b
            sat[chain[-1]] = 0xC000
        dir_chains.append(chain)

    volume_table = bytearray()
    for (name, vtype, files), dir_chain in zip(volumes, dir_chains):
        table = bytearray()
        for fname, ftype, content in files:
            count = max(1, (len(content) + SECTOR - 1) // SECTOR)
            how = layout if layout != "mixed" else rnd.choice(
                ["contiguous", "ascending", "descending", "random"])
            chain = take(count, how)
            for a, b in zip(chain, chain[1:]):
                sat[a] = b
            sat[chain[-1]] = 0xC000
            store(chain, content)
            table += akai_name(fname) + bytes(4) + bytes([ftype])
            table += len(content).to_bytes(3, "little")
            table += _struct.pack("<H", chain[0]) + bytes(2)
        end = bytearray(24)
        end[8:10] = (0xD747).to_bytes(2, "little")
        table += end
        store(dir_chain, bytes(table))
        volume_table += akai_name(name) + _struct.pack("<HH", vtype, dir_chain[0])
    volume_table += bytes(16 * (100 - len(volumes)))

    head = _struct.pack("<H", total) + b"\x00\x00" + MAGIC
    check = total // 128 - 1
    head += bytes([0x55 if check % 2 == 0 else 0xD5, (check // 2 + 0xBA) & 0xFF]) + b"\x2F\x00"
    head += bytes(volume_table)
    head += b"".join(_struct.pack("<H", x) for x in sat)
    assert len(head) == HEADER_SECTORS * SECTOR - 2, len(head)
    body = bytearray(head.ljust(HEADER_SECTORS * SECTOR, b"\x00"))
    for s in range(HEADER_SECTORS, total):
        body += sectors.get(s, bytes(SECTOR))
    return bytes(body)
# ---------------------------------------------------------------------------

# ---- shared demo plumbing --------------------------------------------------
failures = 0
checks = 0


def check(label, a, b):
    global failures, checks
    checks += 1
    if a != b:
        failures += 1
        if failures <= 10:
            print("MISMATCH", label, "\n   live:", repr(a)[:600], "\n   orig:", repr(b)[:600])


def describe_exc(e):
    cause = e.__cause__
    return (
        type(e).__module__ + "." + type(e).__qualname__,
        str(e),
        None if cause is None else (type(cause).__qualname__, str(cause)),
        e.__suppress_context__,
    )


def outcome(f):
    try:
        return ("ok", f())
    except BaseException as e:  # noqa - demo compares every exception
        return ("raise", describe_exc(e))


def snapshot_dir(base):
    found = {}
    for root, dirs, files in os.walk(base):
        dirs.sort()
        rel = os.path.relpath(root, base)
        found[rel + "/"] = None
        for name in sorted(files):
            with open(os.path.join(root, name), "rb") as fh:
                found[os.path.join(rel, name)] = hashlib.sha256(fh.read()).hexdigest()
    return found


def export_image(image_bytes, scratch, tag):
    from smpl_extract.actions import export_samples_to_wav
    from smpl_extract.akai.image import AkaiImageParser
    dest = os.path.join(scratch, tag)
    os.makedirs(dest)
    captured = io.StringIO()
    with contextlib.redirect_stdout(captured):
        result = outcome(lambda: export_samples_to_wav(
            AkaiImageParser(io.BytesIO(image_bytes)), dest))
    return (result, captured.getvalue(), snapshot_dir(dest))


def make_images(rnd):
    """A spread of logical models x allocation layouts x directory styles."""
    def pcm(words):
        return bytes(rnd.getrandbits(8) for _ in range(2 * words))

    images = []
    lengths = [1, 2, 100, 4096 - 70, 4096 - 69, 4096 - 71, 2 * 4096 - 70,
               3 * 4096 - 70, 5000, 9000, 13000]
    for layout in ("contiguous", "ascending", "descending", "random", "mixed"):
        for dir_style in ("chain", "reserved", "scattered"):
            parts = []
            for p in range(rnd.choice([1, 2, 3])):
                volumes = []
                for v in range(rnd.choice([1, 2, 3])):
                    files = []
                    for f in range(rnd.choice([0, 1, 3, 5])):
                        words = rnd.choice(lengths)
                        start = rnd.choice([0, 0, 1, 7, words // 3])
                        end = rnd.choice([words, words, words - 1, max(start, words - 5)])
                        s3000 = rnd.random() < 0.5
                        files.append((
                            "S%d%d%d" % (p, v, f),
                            0xF3 if s3000 else 0x73,
                            sample_file(
                                "S%d" % f, 3 if s3000 else 1,
                                rnd.choice([0, 8000, 22050, 44100, 48000]),
                                pcm(words), start, end
                            )
                        ))
                    if rnd.random() < 0.5:
                        words = rnd.choice(lengths)
                        for side in "LR":
                            files.append((
                                "PAIR -" + side, 0xF3,
                                sample_file("PAIR -" + side, 3, 44100, pcm(words), 0, words)
                            ))
                    volumes.append(("VOL %d%d" % (p, v), rnd.choice([1, 3]), files))
                parts.append(build_partition(rnd, volumes, layout=layout, dir_style=dir_style))
            images.append(((layout, dir_style), b"".join(parts)))
    return images
# ---------------------------------------------------------------------------




LIVE = Element.__dict__["export_path"]


@contextlib.contextmanager
def original_patched_in(counter=None):
    def counting(self):
        if counter is not None:
            counter[0] += 1
        return orig_export_path(self)
    saved = Element.__dict__["export_path"]
    Element.export_path = counting
    try:
        yield
    finally:
        Element.export_path = saved


class Node(Element):
    """Concrete element using the real path/parent/export_name properties;
    the underlying attributes are read through a logging __getattribute__."""
    type_name = "node"

    def get_info(self):
        raise NotImplementedError

    def __getattribute__(self, key):
        if key in ("_path", "_parent", "_export_name", "_safe_name", "name"):
            object.__getattribute__(self, "log").append((object.__getattribute__(self, "tag"), key))
        return object.__getattribute__(self, key)


class LoggedPropsNode(Element):
    """Element whose path/parent/export_name are overridden properties."""
    type_name = "node"

    def get_info(self):
        raise NotImplementedError

    @property
    def path(self):
        self.log.append((self.tag, "path"))
        return self.path_value

    @property
    def parent(self):
        self.log.append((self.tag, "parent"))
        return self.parent_value

    @property
    def export_name(self):
        self.log.append((self.tag, "export_name"))
        if isinstance(self.name_value, Exception):
            raise self.name_value
        return self.name_value


class Sized:
    """A path-like object: only len() is ever needed."""
    def __init__(self, n, log, tag):
        self.n, self.log, self.tag = n, log, tag

    def __len__(self):
        self.log.append((self.tag, "len"))
        return self.n


def build_chain(rnd, log):
    depth = rnd.choice([0, 1, 2, 3, 3, 4, 7])
    nodes = []
    parent = None
    flavour = rnd.choice(["real", "real", "props"])
    for level in range(depth + 1):
        tag = "n%d" % level
        path_len = rnd.choice([0, 1, 1, 2, level, level + 1])
        if level == depth and rnd.random() < 0.8:
            path_len = max(1, path_len)
        path = ["p%d" % i for i in range(path_len)]
        name = rnd.choice(["NAME%d" % level, "", "a/b", None, 5])
        export_name = rnd.choice([None, None, "EXP%d" % level, "", "x y.z"])
        if flavour == "real":
            node = Node.__new__(Node)
            object.__setattr__(node, "log", log)
            object.__setattr__(node, "tag", tag)
            Element.__init__(node, path if rnd.random() < 0.9 else None, parent)
            if name is not None or rnd.random() < 0.5:
                node.name = name
            node._export_name = export_name
            quirk = rnd.random()
            if quirk < 0.06:
                del node._path
            elif quirk < 0.12:
                del node._parent
            elif quirk < 0.18:
                del node._export_name
            elif quirk < 0.22:
                node._path = Sized(path_len, log, tag)
        else:
            node = LoggedPropsNode.__new__(LoggedPropsNode)
            node.log, node.tag = log, tag
            node.path_value = rnd.choice([path, tuple(path), Sized(path_len, log, tag), "ab"[:path_len]])
            node.parent_value = parent
            node.name_value = rnd.choice([name, export_name, LookupError("no name"), ["list"]])
        nodes.append(node)
        parent = node
    return nodes


def run_chain(func, seed):
    log = []
    rnd = random.Random(seed)
    nodes = build_chain(rnd, log)
    results = []
    for node in reversed(nodes):
        del log[:]
        first = outcome(lambda: func(node))
        first_log = list(log)
        second = outcome(lambda: func(node))
        fresh = None
        if first[0] == "ok" and second[0] == "ok":
            fresh = first[1] is not second[1]
            results.append((first, type(first[1]).__name__, first_log, second, fresh))
        else:
            results.append((first, None, first_log, second, fresh))
    return results


def part_a():
    answered = raised = longest = 0
    for case in range(3000):
        live = run_chain(LIVE, case)
        orig = run_chain(orig_export_path, case)
        check(("chain", case), live, orig)
        for r in live:
            if r[0][0] == "ok":
                answered += 1
                longest = max(longest, len(r[0][1]))
            else:
                raised += 1
    print("synthetic export paths answered:", answered, "raised:", raised, "longest:", longest)
    check("part A is not vacuous", answered > 5000 and raised > 100 and longest >= 6, True)


def walk(element, found):
    found.append(element)
    children = getattr(element, "children", None)
    if children is not None and not getattr(element, "_is_leaf", False):
        for child in children:
            walk(child, found)


def part_b():
    from smpl_extract.akai.image import AkaiImageParser
    rnd = random.Random(2302)
    compared = 0
    for label, image_bytes in make_images(rnd)[:8]:
        image = AkaiImageParser(io.BytesIO(image_bytes))
        image.set_routines({
            "make_safe_names": image.make_safe_names_routine,
            "make_export_names": image.make_export_names_routine,
        })
        found = []
        walk(image, found)
        for element in found:
            subjects = [element]
            if hasattr(element, "to_generalized"):
                subjects.append(element.to_generalized())
            for subject in subjects:
                live = outcome(lambda: LIVE(subject))
                orig = outcome(lambda: orig_export_path(subject))
                check(("element", label, type(subject).__name__, getattr(subject, "name", None)), live, orig)
                if live[0] == "ok" and len(live[1]) == 3:
                    compared += 1
    print("three-level export paths compared:", compared)
    check("part B is not vacuous", compared > 60, True)


def part_c(scratch):
    rnd = random.Random(2303)
    exported = 0
    counter = [0]
    for n, (label, image) in enumerate(make_images(rnd)):
        live = export_image(image, scratch, "live%d" % n)
        with original_patched_in(counter):
            orig = export_image(image, scratch, "orig%d" % n)
        check(("export", label), live, orig)
        exported += sum(1 for digest in live[2].values() if digest)
    print("wav files exported per run:", exported, "| original export_path calls:", counter[0])
    check("exports are not vacuous", exported > 40, True)
    check("the original method really ran", counter[0] >= exported, True)


def main():
    scratch = tempfile.mkdtemp(prefix="r23_demo_")
    try:
        part_a()
        part_b()
        part_c(scratch)
    finally:
        shutil.rmtree(scratch, ignore_errors=True)
    print("checks:", checks, "failures:", failures)
    return 1 if failures or not checks else 0


if __name__ == "__main__":
    sys.exit(main())
