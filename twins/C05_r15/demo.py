"""Equivalence demo for r15: transcoder.make_transcoder (argument checks moved
into the new private helper _check_transcoder_args with the channel-count
accumulator loop written as sum(); the two lambdas that bind decode_frame /
encode_frame replaced by nested defs) versus an inline copy of the ORIGINAL
make_transcoder.

Thousands of generated stream lists (0..3 source streams; sample widths 1/2/4;
little and big endian; signed/unsigned; 0/1/2/3 interleaved channels; equal,
unequal, empty and ragged byte lengths; a stream whose read() raises
SectorReadError) are combined with destination encodings that match, do not
match, or have the wrong channel count.  Compared: the kind of transcoder
returned, its buffer size / process names, every block it yields, the exact
order of seek()/read() calls on all source streams, exception type + message.
Exit 0 when everything agrees, 1 otherwise.
"""
from io import SEEK_SET
import io
import itertools
import random
import sys

import numpy as np

from smpl_extract import transcoder as T
from smpl_extract.data_streams import DataStream
from smpl_extract.data_streams import Endianess
from smpl_extract.data_streams import IncompatibleNumberOfChannels
from smpl_extract.data_streams import NoDataStream
from smpl_extract.data_streams import StreamEncoding
from smpl_extract.data_streams import system_byte_order
from smpl_extract.transcoder import decode_frame
from smpl_extract.transcoder import encode_frame
from smpl_extract.transcoder import get_buffer_sizes
from smpl_extract.transcoder import PassthroughTranscoder
from smpl_extract.transcoder import PipelineTranscoder
from smpl_extract.transcoder import swap_endianess
from smpl_extract.transcoder import swap_endianess_multi
from smpl_extract.transcoder import TranscodePipelineStruct
from smpl_extract.util.stream import SectorReadError


# --------------------------------------------------------------------------
# ORIGINAL implementation (verbatim body)
# --------------------------------------------------------------------------
def original_make_transcoder(data_streams, dest_encoding):

    # check for bad args
    if len(data_streams) <= 0:
        raise NoDataStream("No data streams given")

    total_num_channels = 0
    for data_stream in data_streams:
        num_channels = max(1, data_stream.encoding.num_interleaved_channels)
        total_num_channels += num_channels
    expected_num_channels = dest_encoding.num_interleaved_channels
    if total_num_channels != expected_num_channels:
        raise IncompatibleNumberOfChannels(
            f"Expected {expected_num_channels} fourd {total_num_channels}."
        )

    # begin
    for data_stream in data_streams:
        data_stream.stream.seek(0, SEEK_SET)
    buffer_sizes = get_buffer_sizes(data_streams)

    if len(data_streams) == 1 \
            and data_streams[0].encoding == dest_encoding:
        result = PassthroughTranscoder(
            data_streams[0],
            buffer_size=buffer_sizes[0]
        )
        return result

    processes = []

    # is byteswap needed at input?
    swaps = list(
        x.encoding.endianess != system_byte_order
        for x in data_streams
        for _ in range(max(1, x.encoding.num_interleaved_channels))
    )
    if any(swaps):
        if all(swaps):
            processes.append(("swap_input_endianess", swap_endianess))
        else:
            processes.append((
                "swap_input_endianess_multi",
                lambda x: swap_endianess_multi(x, swaps)
            ))

    # is byte swap needed at output?
    if dest_encoding.endianess != system_byte_order:
        processes.append(("swap_output_endianess", swap_endianess))

    dest_dtype = dest_encoding.dtype

    f_decode_frame = lambda x: decode_frame(x, buffer_sizes=buffer_sizes)
    f_encode_frame = lambda x: encode_frame(x, dest_dtype=dest_dtype)
    pipeline = TranscodePipelineStruct(
        f_decode_frame,
        processes,
        f_encode_frame
    )

    result = PipelineTranscoder(data_streams, pipeline)
    return result


# --------------------------------------------------------------------------
# Fixtures
# --------------------------------------------------------------------------
class LoggedStream(io.BytesIO):

    def __init__(self, data, log, tag, fail_after=None):
        super().__init__(data)
        self._log = log
        self._tag = tag
        self._fail_after = fail_after
        self._reads = 0

    def read(self, size=-1):
        self._reads += 1
        if self._fail_after is not None and self._reads > self._fail_after:
            self._log.append((self._tag, "read-fails", size))
            raise SectorReadError("bad sector")
        data = super().read(size)
        self._log.append((self._tag, "read", size, len(data)))
        return data

    def seek(self, offset, whence=0):
        self._log.append((self._tag, "seek", offset, whence))
        return super().seek(offset, whence)


def build_streams(specs):
    log = []
    streams = []
    for tag, (data, enc_args, start, fail_after) in enumerate(specs):
        raw = LoggedStream(data, log, tag, fail_after)
        io.BytesIO.seek(raw, min(start, len(data)))   # not logged
        streams.append(DataStream(raw, StreamEncoding(*enc_args)))
    return streams, log


def run(f_make, specs, dest_args, as_keyword):
    streams, log = build_streams(specs)
    dest = StreamEncoding(*dest_args)
    try:
        if as_keyword:
            transcoder = f_make(streams, dest_encoding=dest)
        else:
            transcoder = f_make(streams, dest)
    except Exception as e:  # noqa
        return ("exc", type(e).__name__, str(e)), log

    info = [type(transcoder).__name__]
    if isinstance(transcoder, PassthroughTranscoder):
        info.append(transcoder.buffer_size)
        info.append(transcoder.data_stream is streams[0])
    else:
        info.append([name for name, _ in transcoder.pipeline.processes])
        info.append(all(a is b for a, b in
                        zip(transcoder.data_streams, streams)))
        info.append(len(transcoder.data_streams))
    blocks = []
    try:
        for block in transcoder:
            blocks.append(bytes(block))
            if len(blocks) > 200:
                break
        info.append(("blocks", blocks))
    except Exception as e:  # noqa
        info.append(("iter-exc", type(e).__name__, str(e), blocks))
    return ("ok", info), log


# --------------------------------------------------------------------------
# Inputs
# --------------------------------------------------------------------------
rng = random.Random(1505)
ENDIAN = [Endianess.LITTLE, Endianess.BIG]
LENGTHS = [0, 1, 2, 3, 4, 5, 6, 8, 12, 13, 100, 4095, 4096, 4097, 8192, 10001]


def random_encoding(width=None):
    return (rng.choice(ENDIAN),
            width or rng.choice([1, 2, 2, 4]),
            rng.choice([1, 1, 1, 2, 2, 3, 0]),
            rng.choice([True, True, False]))


def random_spec(width=None, length=None):
    if length is None:
        length = rng.choice(LENGTHS)
    data = bytes(rng.getrandbits(8) for _ in range(length))
    fail_after = rng.choice([None] * 8 + [0, 1, 2])
    start = rng.choice([0, 0, 0, 3])
    return (data, random_encoding(width), start, fail_after)


cases = []
# the classic shapes first: mono -> mono, L+R mono -> stereo, passthrough
for width, src_end, dst_end, len_l, len_r in itertools.product(
        [1, 2, 4], ENDIAN, ENDIAN, [0, 6, 8, 4100], [0, 8, 12]):
    left = (bytes(range(256)) * 17)[:len_l]
    right = (bytes(range(255, -1, -1)) * 17)[:len_r]
    enc = (src_end, width, 1, True)
    cases.append(([(left, enc, 0, None)], (dst_end, width, 1, True)))
    cases.append(([(left, enc, 0, None), (right, enc, 0, None)],
                  (dst_end, width, 2, True)))
    cases.append(([(left, enc, 0, None),
                   (right, (dst_end, width, 1, True), 0, None)],
                  (dst_end, width, 2, True)))
for _ in range(3000):
    n = rng.choice([0, 1, 1, 2, 2, 2, 3])
    width = rng.choice([None, 1, 2, 2, 4])
    same_len = rng.choice([None, None, rng.choice(LENGTHS)])
    specs = [random_spec(width, same_len) for _ in range(n)]
    total = sum(max(1, s[1][2]) for s in specs)
    if specs and rng.random() < 0.25:
        dest = specs[0][1]                      # candidate for passthrough
    else:
        channels = total if rng.random() < 0.8 else rng.choice([0, 1, 2, 3, 5])
        dest = (rng.choice(ENDIAN), width or rng.choice([1, 2, 4]), channels,
                rng.choice([True, True, False]))
    cases.append((specs, dest))


# --------------------------------------------------------------------------
# Compare
# --------------------------------------------------------------------------
failures = []
kinds = {}
for i, (specs, dest) in enumerate(cases):
    as_keyword = bool(i % 2)
    got, got_log = run(T.make_transcoder, specs, dest, as_keyword)
    want, want_log = run(original_make_transcoder, specs, dest, as_keyword)
    key = got[1][0] if got[0] == "ok" else got[1]
    kinds[key] = kinds.get(key, 0) + 1
    if got != want or got_log != want_log:
        failures.append(i)
        if len(failures) <= 10:
            short = [(len(s[0]),) + s[1:] for s in specs]
            print("MISMATCH:", short, dest)
            print("   got :", repr(got)[:300])
            print("   want:", repr(want)[:300])
            print("   logs equal:", got_log == want_log)

# arguments that are not lists / have odd types fail the same way
for bad in (None, (), "", 5):
    outcomes = []
    for f_make in (T.make_transcoder, original_make_transcoder):
        try:
            f_make(bad, StreamEncoding())
            outcomes.append("ok")
        except Exception as e:  # noqa
            outcomes.append((type(e).__name__, str(e)))
    if outcomes[0] != outcomes[1]:
        failures.append(("bad", bad))
        print("MISMATCH on bad argument", repr(bad), outcomes)

print(f"cases: {len(cases)}, outcomes: {kinds}, mismatches: {len(failures)}")
sys.exit(1 if failures else 0)
