"""Equivalence demo for r21: PerformanceEntry.patch_entries
(smpl_extract/roland/s7xx/performance_entry.py).

The live `patch_entries` property is compared with an inline copy of the
ORIGINAL implementation (installed on a subclass).  The same random scenario
(what the scripted `_f_patch_entries` returns on each call: lists, empty
lists, None, tuples, generators, 0, numpy arrays whose truth value raises,
objects with a counting / raising __bool__ or __len__, exceptions; whether the
callee scribbles into the context it is handed; whether `_routines`, `_fat` or
the cache are swapped between accesses) is replayed on a live entry and on a
reference entry.  Complete event logs (every context handed out: type, key
order, identity of the three values), returned values, cache states and
exceptions must agree.
"""
import random
import sys

import numpy as np

from smpl_extract.roland.s7xx.performance_entry import PerformanceEntry


class Boom(Exception):
    pass


# --------------------------------------------------------------------------
# inline copy of the ORIGINAL implementation
# --------------------------------------------------------------------------
class OrigPerformanceEntry(PerformanceEntry):

    @property
    def patch_entries(self):
        if not self._patch_entries:
            added_context = {
                "_elem_parent": self,
                "_elem_routines": self._routines,
                "fat": self._fat
            }
            self._patch_entries = self._f_patch_entries(added_context)
        return self._patch_entries


# --------------------------------------------------------------------------
# scripted values
# --------------------------------------------------------------------------
class Item:
    def __init__(self, tag):
        self.tag = tag


class Truthy:
    """Object whose truth value is scripted and logged."""

    def __init__(self, world, tag, answers, use_len):
        self.world = world
        self.tag = tag
        self.answers = list(answers)
        self.use_len = use_len

    def _next(self, how):
        answer = self.answers.pop(0) if self.answers else True
        self.world.log.append(("truth", self.tag, how, answer))
        if answer == "raise":
            raise Boom("truth " + self.tag)
        return answer


class TruthyBool(Truthy):
    def __bool__(self):
        return bool(self._next("bool"))


class TruthyLen(Truthy):
    def __len__(self):
        return int(bool(self._next("len")))


RESULT_KINDS = [
    "list", "list", "list", "empty-list", "none", "tuple", "empty-tuple",
    "generator", "zero", "string", "empty-string", "np-many", "np-one",
    "np-empty", "truthy-bool", "truthy-len", "raise", "dict", "empty-dict",
]
TRUTH_ANSWERS = [True, True, False, "raise"]


class World:
    def __init__(self, scenario, cls):
        self.scenario = scenario
        self.log = []
        self.calls = 0
        self.keep = []          # keeps handed-out contexts alive
        self.fats = [Item("fat0"), Item("fat1"), None]
        self.routine_dicts = [
            {}, {"a": lambda x: x}, {"a": lambda x: x, "b": lambda x: list(x)}
        ]
        self.results = []
        self.entry = cls(
            directory_name="dir", parameter_name="param",
            _fat=self.fats[scenario["fat0"]],
            _f_patch_entries=self.realize,
            _routines=self.routine_dicts[scenario["routines0"]],
        )

    # ---- stable naming of objects across the two worlds ----
    def tag(self, obj):
        if obj is None or isinstance(obj, (bool, int, str)):
            return repr(obj)
        if obj is self.entry:
            return "<entry>"
        if isinstance(obj, (Item, Truthy)):
            return "<%s %s>" % (type(obj).__name__, obj.tag)
        for i, d in enumerate(self.routine_dicts):
            if obj is d:
                return "<routines %d %r>" % (i, tuple(d.keys()))
        for i, r in enumerate(self.results):
            if obj is r:
                return "<result %d %s>" % (i, type(r).__name__)
        if isinstance(obj, np.ndarray):
            return ("ndarray", obj.tolist())
        if isinstance(obj, (list, tuple)):
            return (type(obj).__name__, tuple(self.tag(x) for x in obj))
        if isinstance(obj, dict):
            return ("dict", tuple((k, self.tag(v)) for k, v in obj.items()))
        return "<%s>" % type(obj).__name__

    # ---- the scripted _f_patch_entries ----
    def realize(self, context):
        n = self.calls
        self.calls += 1
        self.keep.append(context)
        self.log.append((
            "realize", n,
            type(context) is dict,
            tuple(context.keys()),
            self.tag(context.get("_elem_parent")),
            self.tag(context.get("_elem_routines")),
            self.tag(context.get("fat")),
            len(context),
            all(context is not c for c in self.keep[:-1]),
        ))
        kinds = self.scenario["results"]
        kind = kinds[n] if n < len(kinds) else "list"
        if self.scenario["scribble"]:
            # the callee may mark / extend the dict it was given
            context["scribble"] = n
            context["fat"] = "overwritten"
        result = self.make_result(kind, n)
        self.results.append(result)
        return result

    def make_result(self, kind, n):
        rng = random.Random(self.scenario["seed"] * 1000 + n)
        if kind == "list":
            return [Item("p%d_%d" % (n, i)) for i in range(rng.randrange(1, 4))]
        if kind == "empty-list":
            return []
        if kind == "none":
            return None
        if kind == "tuple":
            return (Item("t%d" % n),)
        if kind == "empty-tuple":
            return ()
        if kind == "generator":
            def gen():
                yield Item("g%d" % n)
            return gen()
        if kind == "zero":
            return 0
        if kind == "string":
            return "xy"
        if kind == "empty-string":
            return ""
        if kind == "np-many":
            return np.arange(3)
        if kind == "np-one":
            return np.array([rng.choice([0, 5])])
        if kind == "np-empty":
            return np.array([])
        if kind == "truthy-bool":
            answers = [rng.choice(TRUTH_ANSWERS) for _ in range(4)]
            return TruthyBool(self, "tb%d" % n, answers, False)
        if kind == "truthy-len":
            answers = [rng.choice(TRUTH_ANSWERS) for _ in range(4)]
            return TruthyLen(self, "tl%d" % n, answers, True)
        if kind == "dict":
            return {"k": n}
        if kind == "empty-dict":
            return {}
        if kind == "raise":
            raise Boom("realize %d" % n)
        raise AssertionError(kind)


def make_scenario(rng, seed):
    script = []
    for _ in range(rng.randrange(1, 9)):
        script.append(rng.choice([
            "get", "get", "get", "get", "peek", "swap-fat", "swap-routines",
            "clear-cache", "plant-cache", "replace-f",
        ]))
    return {
        "seed": seed,
        "results": [rng.choice(RESULT_KINDS) for _ in range(8)],
        "scribble": rng.random() < 0.4,
        "fat0": rng.randrange(3),
        "routines0": rng.randrange(3),
        "script": script,
        "plants": [rng.choice(["list", "empty-list", "none", "np-many",
                               "truthy-bool", "zero"]) for _ in range(8)],
    }


def run_world(scenario, cls):
    world = World(scenario, cls)
    entry = world.entry
    out = []
    # the cache must start out as None
    out.append(("initial", entry._patch_entries is None, entry._files is None))
    plant_no = 0
    for step_no, step in enumerate(scenario["script"]):
        if step == "get":
            try:
                value = entry.patch_entries
                out.append(("value", world.tag(value)))
            except Exception as e:  # noqa: BLE001 - compare whatever comes
                out.append(("error", type(e).__name__, str(e)))
        elif step == "peek":
            pass
        elif step == "swap-fat":
            entry._fat = world.fats[(step_no + scenario["fat0"] + 1) % 3]
        elif step == "swap-routines":
            entry._routines = world.routine_dicts[
                (step_no + scenario["routines0"] + 1) % 3
            ]
        elif step == "clear-cache":
            entry._patch_entries = None
        elif step == "plant-cache":
            kind = scenario["plants"][plant_no % 8]
            plant_no += 1
            planted = world.make_result(kind, 100 + plant_no)
            world.results.append(planted)
            entry._patch_entries = planted
        elif step == "replace-f":
            def other(context, world=world):
                world.log.append(("other-f", tuple(context.keys()),
                                  world.tag(context["_elem_parent"]),
                                  world.tag(context["fat"])))
                return [Item("other")]
            entry._f_patch_entries = other
        out.append((
            "state", step,
            world.tag(entry.__dict__.get("_patch_entries")),
            entry._files is None,
            world.calls,
            sorted(k for k in entry.__dict__ if k.startswith("_")),
        ))
    return out, world.log


def main():
    rng = random.Random(20260928)
    failures = 0
    n_cases = 4000
    for case in range(n_cases):
        scenario = make_scenario(rng, case)
        live = run_world(scenario, PerformanceEntry)
        ref = run_world(scenario, OrigPerformanceEntry)
        if live != ref:
            failures += 1
            if failures <= 5:
                print("MISMATCH in case", case, scenario)
                print("  live:", live)
                print("  ref :", ref)

    # a few fixed edge cases on top of the random ones
    fixed = [
        dict(seed=1, results=["empty-list"] * 8, scribble=False, fat0=2,
             routines0=0, script=["get"] * 5, plants=["none"] * 8),
        dict(seed=2, results=["raise", "list"], scribble=True, fat0=0,
             routines0=1, script=["get", "get", "get"], plants=["none"] * 8),
        dict(seed=3, results=["np-many"], scribble=False, fat0=1,
             routines0=2, script=["get", "get"], plants=["none"] * 8),
        dict(seed=4, results=["truthy-bool"] * 3, scribble=True, fat0=1,
             routines0=2, script=["get"] * 6, plants=["none"] * 8),
        dict(seed=5, results=["generator"], scribble=False, fat0=0,
             routines0=0, script=["get", "swap-fat", "get", "clear-cache",
                                  "get"], plants=["none"] * 8),
    ]
    for scenario in fixed:
        live = run_world(scenario, PerformanceEntry)
        ref = run_world(scenario, OrigPerformanceEntry)
        if live != ref:
            failures += 1
            print("MISMATCH in fixed case", scenario)
            print("  live:", live)
            print("  ref :", ref)

    # the property must still be a plain read-only property on the class
    prop = PerformanceEntry.__dict__.get("patch_entries")
    if not isinstance(prop, property) or prop.fset is not None \
            or prop.fdel is not None:
        failures += 1
        print("patch_entries is no longer a read-only property")

    if failures:
        print("FAILED: %d mismatching cases" % failures)
        return 1
    print("OK: %d random + %d fixed cases agree" % (n_cases, len(fixed)))
    return 0


if __name__ == "__main__":
    sys.exit(main())
