"""Equivalence demo for r10 (AKAI image root: AkaiImageParser._load_partitions).

`_load_partitions` as currently in the tree is compared with an inline copy
of the ORIGINAL implementation:
  * on synthetic AKAI disc images (0..5 valid partitions, with and without
    active volumes, followed by nothing / garbage / a truncated partition /
    a partition with a bad name or zero size), read through a recording
    stream so that the exact sequence of tell / seek / read calls on the
    shared stream is compared, together with the resulting partition names,
    paths, parents, routines, volume listings and the stdout of ls_action for
    many paths (found and not found, colon forms, case changes);
  * with the partition parser replaced by a scripted fake, to compare the
    keyword arguments handed to it (names, order, values, identity), the
    lettering for up to 40 partitions, the handling of InvalidPartition /
    ConstructError (and subclasses) versus other exceptions (StopIteration,
    ValueError, KeyboardInterrupt) at the n-th partition, odd tell() values
    (floats, NaN, equal to the size), missing `_routines`, routines that
    raise or return None, and the state left on the object afterwards.
Exit 0 when all agree, else 1.
"""
import contextlib
import io
import random
import sys
from typing import List, cast

import struct
from construct.core import ConstructError
from construct.core import StreamError

import smpl_extract.akai.image as image_module
from smpl_extract.actions import ls_action
from smpl_extract.akai.data_types import AKAI_PARTITION_MAGIC
from smpl_extract.akai.data_types import AKAI_SAT_ENTRY_CNT
from smpl_extract.akai.data_types import AKAI_SECTOR_SIZE
from smpl_extract.akai.data_types import AKAI_VOLUME_ENTRY_CNT
from smpl_extract.akai.data_types import FILE_TABLE_END_FLAG
from smpl_extract.akai.image import AkaiImageParser
from smpl_extract.akai.partition import InvalidPartition
from smpl_extract.akai.partition import Partition
from smpl_extract.akai.partition import PartitionParser as RealPartitionParser


# The name the original code refers to; swapped together with the one in
# smpl_extract.akai.image when a fake parser is installed.
PartitionParser = RealPartitionParser


# ---- ORIGINAL implementation (verbatim) -----------------------------------
def orig_load_partitions(self):
    partition_cnt = 0
    partitions = []
    while self.file.tell() < self.file_size:
        name = chr(ord("A") + partition_cnt)
        try:
            partition = PartitionParser.parse_stream(
                self.file,  # type: ignore
                _elem_name=name,
                _elem_parent=self,
                _elem_routines=self._routines
            )
        except (InvalidPartition, ConstructError, struct.error) as e:  # as in the tree after the struct.error fix
            break
        partitions.append(partition)
        partition_cnt += 1

    for routine in self._routines.values():
        partitions = routine(partitions)
    self._partitions = cast(List[Partition], partitions)
    self._partitions_loaded_flag = True


class OrigAkai(AkaiImageParser):
    _load_partitions = orig_load_partitions


class NewAkai(AkaiImageParser):
    pass


# error messages mention the class name; make it the same in both worlds
OrigAkai.__name__ = OrigAkai.__qualname__ = "Akai"
NewAkai.__name__ = NewAkai.__qualname__ = "Akai"


@contextlib.contextmanager
def installed_parser(parser):
    global PartitionParser
    saved = (PartitionParser, image_module.PartitionParser)
    PartitionParser = parser
    image_module.PartitionParser = parser
    try:
        yield
    finally:
        PartitionParser, image_module.PartitionParser = saved


# ---- synthetic disc images ------------------------------------------------
AKAI_SPACE = 0x0A


def akai_name(text):
    out = []
    for ch in text.ljust(12)[:12]:
        if ch.isdigit():
            out.append(ord(ch) - ord("0"))
        elif "A" <= ch <= "Z":
            out.append(0x0B + ord(ch) - ord("A"))
        else:
            out.append({" ": 0x0A, "#": 0x25, "+": 0x26, "-": 0x27,
                        ".": 0x28}[ch])
    return bytes(out)


def make_partition(sectors, volumes=(), bad_magic=False, bad_name=False,
                   declared=None):
    declared = sectors if declared is None else declared
    magic = AKAI_PARTITION_MAGIC
    if bad_magic:
        magic = b"\x01" + magic[1:]
    header = (
        declared.to_bytes(2, "little") + b"\x00\x00" + magic
        + bytes([0x55, 0xBA]) + b"\x2f\x00"
    )
    sat = [0] * AKAI_SAT_ENTRY_CNT
    entries = b""
    bodies = {}
    next_sector = 4
    for n in range(AKAI_VOLUME_ENTRY_CNT):
        if n < len(volumes):
            name, vtype = volumes[n]
            raw_name = akai_name(name)
            if bad_name and n == 0:
                raw_name = b"\xff" + raw_name[1:]
            entries += (
                raw_name + vtype.to_bytes(2, "little")
                + next_sector.to_bytes(2, "little")
            )
            sat[next_sector] = 0xC000
            body = bytearray(AKAI_SECTOR_SIZE)
            body[8:10] = FILE_TABLE_END_FLAG.to_bytes(2, "little")
            bodies[next_sector] = bytes(body)
            next_sector += 1
        else:
            entries += bytes([AKAI_SPACE] * 12) + b"\x00\x00\x00\x00"
    for s in range(4):
        sat[s] = 0x4000
    sat_bytes = b"".join(v.to_bytes(2, "little") for v in sat)
    blob = bytearray(sectors * AKAI_SECTOR_SIZE)
    head = header + entries + sat_bytes
    blob[:len(head)] = head
    for sector, body in bodies.items():
        blob[sector * AKAI_SECTOR_SIZE:(sector + 1) * AKAI_SECTOR_SIZE] = body
    return bytes(blob)


class RecordingStream(io.BytesIO):
    def __init__(self, data, log):
        super().__init__(data)
        self._log = log

    def tell(self):
        value = super().tell()
        self._log.append(("tell", value))
        return value

    def seek(self, *args):
        value = super().seek(*args)
        self._log.append(("seek", args, value))
        return value

    def read(self, *args):
        value = super().read(*args)
        self._log.append(("read", args, len(value), hash(value)))
        return value


def disc_images():
    vols_a = (("VOLUME 001", 1), ("VOLUME 002", 3), ("VOLUME 001", 1))
    vols_b = (("DRUMS", 3), ("A", 1), ("B.", 1), ("#+-", 3))
    p_empty = make_partition(4)
    p_a = make_partition(8, vols_a)
    p_b = make_partition(9, vols_b)
    images = {
        "nothing": b"",
        "one byte": b"\x00",
        "garbage": bytes(range(256)) * 40,
        "one empty": p_empty,
        "one with volumes": p_a,
        "two": p_a + p_b,
        "three": p_a + p_empty + p_b,
        "five": p_empty * 5,
        "two then garbage": p_a + p_b + b"\x07" * 5000,
        "two then truncated": p_a + p_b + p_a[:150],
        "two then truncated in table": p_a + p_b + p_a[:1000],
        "two then one byte": p_a + p_b + b"\x00",
        "bad magic first": make_partition(4, bad_magic=True) + p_a,
        "bad magic second": p_a + make_partition(4, bad_magic=True) + p_b,
        "zero size second": p_a + make_partition(4, declared=0) + p_b,
        "bad name second": p_a + make_partition(8, vols_a, bad_name=True),
        "declared larger than file": make_partition(4, declared=40),
        "declared smaller": make_partition(8, vols_a, declared=6) + p_b,
    }
    return images


DISC_PATHS = [
    "", "/", "A", "A:", "a", "a:", " a: ", "A/", "A:/", "B", "B:", "b:/",
    "C", "C:", "F", "A::", "A:B", "A/VOLUME 001", "a/volume 001",
    "A:/VOLUME 001 (2)", "A/VOLUME 002/", "A/VOLUME 003", "B:/DRUMS",
    "B/A", "B/B", "B/B.", "B:/#+-", "b\\drums\\x", "A/VOLUME 001/x",
    "Z", "\u2603:", ":", " ", "AKAI Image",
]


def describe_partitions(image):
    out = []
    for part in image._partitions or []:
        out.append((
            type(part).__name__, part.name, tuple(part.path),
            part.parent is image, part._routines is image._routines,
            part.safe_name, part.export_name,
        ))
    return tuple(out)


def run_disc(cls, data, with_routines):
    log: List[tuple] = []
    stream = RecordingStream(data, log)
    image = cls(stream)
    outcome = []
    if with_routines == "real":
        image.set_routines({
            "make_safe_names": image.make_safe_names_routine,
            "make_export_names": image.make_export_names_routine,
        })
    elif with_routines == "empty":
        image.set_routines({})
    # "unset": leave `_routines` missing, as after a bare constructor call
    for attempt in range(2):
        try:
            kids = image.children
            outcome.append(("children", len(kids), kids is image._partitions))
        except BaseException as exc:  # noqa: B902
            outcome.append(("exc", type(exc).__name__, str(exc)))
        outcome.append((
            "state", image._partitions_loaded_flag,
            describe_partitions(image), stream.tell.__self__ is stream,
            io.BytesIO.tell(stream),
        ))
    if with_routines == "real":
        for path in DISC_PATHS:
            buf = io.StringIO()
            try:
                with contextlib.redirect_stdout(buf):
                    ls_action(image, path)
                outcome.append(("ls", path, buf.getvalue()))
            except BaseException as exc:  # noqa: B902
                outcome.append((
                    "ls-exc", path, type(exc).__name__, str(exc),
                    buf.getvalue()
                ))
    return outcome, log


# ---- scripted fake parser -------------------------------------------------
class MyInvalidPartition(InvalidPartition):
    pass


class Boom(Exception):
    pass


EXC_KINDS = {
    "invalid": InvalidPartition,
    "invalid_sub": MyInvalidPartition,
    "construct": ConstructError,
    "stream": StreamError,  # a ConstructError subclass
    "stop": StopIteration,
    "value": ValueError,
    "boom": Boom,
    "kbd": KeyboardInterrupt,
    "attr": AttributeError,
}


class FakePartition:
    def __init__(self, name):
        self.name = name

    def __repr__(self):
        return f"FakePartition({self.name!r})"


class FakeFile:
    """tell() follows a script; seek() is what the constructor needs."""
    def __init__(self, tells, log):
        self._tells = list(tells)
        self._log = log
        self._n = 0

    def seek(self, offset, whence=0):
        self._log.append(("seek", offset, whence))
        return 100 if whence == 2 else 0

    def tell(self):
        if self._n < len(self._tells):
            value = self._tells[self._n]
        else:
            value = 10 ** 9
        self._n += 1
        self._log.append(("tell", self._n, repr(value)))
        if isinstance(value, type) and issubclass(value, BaseException):
            raise value("tell")
        return value


class FakeParser:
    def __init__(self, log, fail_at, fail_kind, result_kind):
        self.log = log
        self.fail_at = fail_at
        self.fail_kind = fail_kind
        self.result_kind = result_kind
        self.calls = 0
        self.image = None

    def parse_stream(self, *args, **kwargs):
        self.calls += 1
        image = self.image
        self.log.append((
            "parse", self.calls, len(args), args[0] is image.file,
            tuple(kwargs.keys()), kwargs.get("_elem_name"),
            kwargs.get("_elem_parent") is image,
            kwargs.get("_elem_routines") is image._routines,
        ))
        if self.calls == self.fail_at:
            raise EXC_KINDS[self.fail_kind]("scripted")
        if self.result_kind == "none":
            return None
        if self.result_kind == "falsy":
            return ""
        return FakePartition(kwargs.get("_elem_name"))


def make_fake_routines(spec, log):
    table = {}
    for tag, kind in spec:
        def routine(items, tag=tag, kind=kind):
            log.append(("routine", tag, repr(items)))
            if kind == "raise":
                raise Boom(tag)
            if kind == "none":
                return None
            if kind == "tuple":
                return tuple(items or ())
            if kind == "reverse":
                return list(reversed(items or []))
            return items
        table[tag] = routine
    return table


def run_fake(cls, script):
    log: List[tuple] = []
    parser = FakeParser(
        log, script["fail_at"], script["fail_kind"], script["result_kind"]
    )
    with installed_parser(parser):
        image = cls(FakeFile(script["tells"], log))
        parser.image = image
        if "file_size" in script:
            image.file_size = script["file_size"]
        if script["routines"] is not None:
            image.set_routines(make_fake_routines(script["routines"], log))
        for _ in range(script["gets"]):
            try:
                value = image.partitions
                log.append(("got", repr(value), value is image._partitions))
            except BaseException as exc:  # noqa: B902
                log.append(("exc", type(exc).__name__, str(exc)))
            log.append((
                "state", repr(image._partitions),
                image._partitions_loaded_flag, parser.calls
            ))
    return log


NAN = float("nan")
TELL_SCRIPTS = [
    [], [0], [0, 50], [0, 50, 99], [0, 50, 100], [0, 50, 101], [100],
    [101], [0] * 40, [0, 99.5, 100.0], [0, NAN, 0], [NAN], [0, -5, 0, 100],
    [True, False, 100], [0, Boom, 0], [Boom],
]
ROUTINE_SCRIPTS = [
    None, (), (("r1", "same"),), (("r1", "reverse"), ("r2", "tuple")),
    (("r1", "none"),), (("r1", "none"), ("r2", "same")),
    (("r1", "raise"), ("r2", "same")), (("r1", "same"), ("r2", "raise")),
]


def fake_scripts():
    for tells in TELL_SCRIPTS:
        for routines in ROUTINE_SCRIPTS:
            for fail_at in (0, 1, 2, 3, 27):
                kinds = list(EXC_KINDS) if fail_at else ["invalid"]
                for fail_kind in kinds:
                    for result_kind in ("obj", "none", "falsy"):
                        yield {
                            "tells": tells, "routines": routines,
                            "fail_at": fail_at, "fail_kind": fail_kind,
                            "result_kind": result_kind, "gets": 2,
                        }


def random_fake_scripts(rng, count):
    for _ in range(count):
        n = rng.randint(0, 45)
        tells = [rng.choice([0, 1, 50, 99, 99.9, 100, 100.0, 101, NAN, -1])
                 for _ in range(n)]
        script = {
            "tells": tells,
            "routines": rng.choice(ROUTINE_SCRIPTS),
            "fail_at": rng.choice([0, 0, 1, 2, 3, 5, 26, 27, 28, 40]),
            "fail_kind": rng.choice(list(EXC_KINDS)),
            "result_kind": rng.choice(["obj", "obj", "none", "falsy"]),
            "gets": rng.randint(1, 3),
        }
        if rng.random() < 0.3:
            script["file_size"] = rng.choice([0, 1, 50, 100, 100.5, NAN, -3])
        yield script


def main():
    failures = 0
    checked = 0

    def report(label, expected, actual):
        nonlocal failures
        failures += 1
        if failures > 5:
            return
        print("MISMATCH", label)
        if isinstance(expected, tuple):
            pairs = zip(expected, actual)
        else:
            pairs = [(expected, actual)]
        for exp_part, act_part in pairs:
            if exp_part == act_part:
                continue
            if isinstance(exp_part, list):
                for a, b in zip(exp_part, act_part):
                    if a != b:
                        print("  expected", a)
                        print("  actual  ", b)
                        break
                else:
                    print("  lengths", len(exp_part), len(act_part))
            else:
                print("  expected", exp_part)
                print("  actual  ", act_part)

    for label, data in disc_images().items():
        for with_routines in ("real", "empty", "unset"):
            expected = run_disc(OrigAkai, data, with_routines)
            actual = run_disc(NewAkai, data, with_routines)
            checked += 1
            if expected != actual:
                report((label, with_routines), expected, actual)

    # sanity: the synthetic discs really exercise the parser
    sample, _ = run_disc(NewAkai, disc_images()["three"], "real")
    names = [row[1] for row in sample[1][2]]
    if names != ["A:", "B:", "C:"]:
        print("UNEXPECTED partition names", names)
        failures += 1
    listing = dict((e[1], e[2]) for e in sample if e[0] == "ls")
    if "VOLUME 001 (2)" not in listing.get("A:", ""):
        print("UNEXPECTED listing for A:", listing.get("A:"))
        failures += 1
    if "was not found" not in listing.get("Z", ""):
        print("UNEXPECTED listing for Z", listing.get("Z"))
        failures += 1

    scripts = list(fake_scripts())
    scripts.extend(random_fake_scripts(random.Random(1010), 3000))
    for script in scripts:
        expected = run_fake(OrigAkai, script)
        actual = run_fake(NewAkai, script)
        checked += 1
        if expected != actual:
            report(script, expected, actual)

    print(f"checked {checked} cases, {failures} mismatches")
    return 1 if failures else 0


if __name__ == "__main__":
    sys.exit(main())
