"""Equivalence demo for r13: smpl_extract.data_streams.DataStream.__post_init__.

The frame size computed at construction time is compared with an inline copy
of the ORIGINAL DataStream on many encodings: real StreamEncoding objects
(usual, zero, negative, bool and numpy-integer fields) and duck-typed
encodings that log the order of their attribute reads, return non-integers or
raise.  Then complete transcodings are run once with the live DataStream and
once with the original copy, for many stream layouts, byte orders, lengths
and block sizes; the produced bytes must be identical, and for equal-length
sources they are also checked against an independent numpy expectation.
Exit 0 when everything agrees, 1 otherwise.
"""
from dataclasses import dataclass
from io import BytesIO
from io import IOBase
import itertools
import sys
from unittest.mock import patch
import warnings

import numpy as np

import smpl_extract.transcoder as T
from smpl_extract.data_streams import DataStream
from smpl_extract.data_streams import Endianess
from smpl_extract.data_streams import StreamEncoding


@dataclass
class DataStream_ORIG:
    stream:     IOBase
    encoding:   StreamEncoding = StreamEncoding()

    def __post_init__(self):
        enc = self.encoding
        self.frame_size = enc.num_interleaved_channels * enc.sample_width


class Duck:
    """Encoding look-alike that records which attributes are read, in order."""

    def __init__(self, log, chans, width, fail=None):
        self._log = log
        self._chans = chans
        self._width = width
        self._fail = fail

    @property
    def num_interleaved_channels(self):
        self._log.append("num_interleaved_channels")
        if self._fail == "chans":
            raise KeyError("chans")
        return self._chans

    @property
    def sample_width(self):
        self._log.append("sample_width")
        if self._fail == "width":
            raise OSError("width")
        return self._width


def outcome(cls, stream, enc):
    try:
        ds = cls(stream, enc)
    except BaseException as e:  # noqa
        return ("exc", type(e), str(e))
    fs = ds.frame_size
    return ("ok", type(fs), repr(fs), ds.stream is stream, ds.encoding is enc,
            sorted(vars(ds)))


def transcode(cls, specs, dest, block):
    def gnfp(stream, target_size=block):
        return max(1, target_size // stream.frame_size)

    with patch.object(T, "get_num_frames_possible", gnfp):
        try:
            streams = [cls(BytesIO(data), enc) for data, enc in specs]
            tr = T.make_transcoder(streams, dest)
            return (type(tr).__name__, [bytes(b) for b in tr],
                    [s.stream.tell() for s in streams])
        except BaseException as e:  # noqa
            return ("exc", type(e), str(e))


def main():
    warnings.simplefilter("ignore")  # numpy scalar overflow on odd fields
    bad = 0
    n = 0

    # 1. frame_size for real encodings
    values = [0, 1, 2, 3, 4, 8, 16, -1, -3, True, False,
              np.int8(3), np.int64(7), np.uint8(200)]
    for chans, width in itertools.product(values, repeat=2):
        for order in (Endianess.LITTLE, Endianess.BIG):
            for signed in (True, False):
                enc = StreamEncoding(order, width, chans, signed)
                st = BytesIO(b"")
                a = outcome(DataStream_ORIG, st, enc)
                b = outcome(DataStream, st, enc)
                n += 1
                if a != b:
                    bad += 1
                    print("MISMATCH", enc, a, b)

    # default encoding argument
    st = BytesIO(b"abc")
    a = DataStream_ORIG(st)
    b = DataStream(st)
    n += 1
    if (a.frame_size, a.encoding) != (b.frame_size, b.encoding):
        bad += 1
        print("MISMATCH default encoding")

    # 2. duck-typed encodings: order of reads, odd values, failures
    odd = [1, 2, 2.5, "ab", [1, 2], (3,), None, 1 + 2j, b"xy"]
    for chans, width in itertools.product(odd, repeat=2):
        for fail in (None, "chans", "width"):
            la, lb = [], []
            a = outcome(DataStream_ORIG, None, Duck(la, chans, width, fail))
            b = outcome(DataStream, None, Duck(lb, chans, width, fail))
            n += 1
            if a[:4] != b[:4] or la != lb:
                bad += 1
                print("MISMATCH duck", chans, width, fail, a, b, la, lb)
    for enc in (None, 5, object()):
        a = outcome(DataStream_ORIG, None, enc)
        b = outcome(DataStream, None, enc)
        n += 1
        if a != b:
            bad += 1
            print("MISMATCH non-encoding", enc, a, b)

    # 3. end to end
    rng = np.random.default_rng(13)
    orders = [Endianess.LITTLE, Endianess.BIG]
    for host in orders:
        with patch.object(T, "system_byte_order", host):
            for width in (1, 2, 4):
                for chans in ([1], [2], [3], [1, 1], [2, 1], [1, 2, 3],
                              [0], [0, 1]):
                    total = sum(max(1, c) for c in chans)
                    for ords in itertools.islice(
                            itertools.product(orders, repeat=len(chans)), 4):
                        for lens in ([7] * len(chans),
                                     [0] * len(chans),
                                     [5 + 3 * i for i in range(len(chans))],
                                     [300] * len(chans)):
                            for extra in (0, 1):
                                specs = []
                                for c, o, ln in zip(chans, ords, lens):
                                    nb = ln * max(1, c) * width + extra
                                    data = rng.integers(
                                        0, 256, nb, dtype=np.uint8).tobytes()
                                    specs.append((data, StreamEncoding(
                                        o, width, c, True)))
                                dest = StreamEncoding(
                                    Endianess.LITTLE, width, total, True)
                                for block in (1, width, 64, 4096):
                                    a = transcode(
                                        DataStream_ORIG, specs, dest, block)
                                    b = transcode(
                                        DataStream, specs, dest, block)
                                    n += 1
                                    if a != b:
                                        bad += 1
                                        print("E2E MISMATCH", width, chans,
                                              ords, lens, extra, block)
                                        continue
                                    if 0 in chans or a[0] == "exc":
                                        continue
                                    # whole frames actually present
                                    lens_true = [
                                        len(data) // (c * width)
                                        for (data, _), c in zip(specs, chans)
                                    ]
                                    if len(set(lens_true)) != 1:
                                        continue
                                    # independent expectation
                                    cols = []
                                    for (data, enc), c, ln in zip(
                                            specs, chans, lens_true):
                                        dt = np.dtype("int%d" % (8 * width))
                                        bo = "<" if enc.endianess == \
                                            Endianess.LITTLE else ">"
                                        arr = np.frombuffer(
                                            data[:ln * c * width],
                                            dt.newbyteorder(bo))
                                        arr = arr.reshape((-1, c))
                                        cols += [arr[:, k] for k in range(c)]
                                    want = np.stack(cols, axis=1).astype(
                                        np.dtype("int%d" % (8 * width))
                                        .newbyteorder("<")).tobytes()
                                    if b"".join(b[1]) != want:
                                        bad += 1
                                        print("PROPERTY MISMATCH", width,
                                              chans, ords, lens, extra, block)

    print(f"{n} comparisons, {bad} mismatches")
    return 1 if bad else 0


if __name__ == "__main__":
    sys.exit(main())
