"""Equivalence demo for r7: SegmentAllocationTableAdapter._decode (smpl_extract/akai/sat.py).

Compares the module's _decode against an inline copy of the ORIGINAL
implementation: exhaustively for all raw SAT word tables over up to 5 sectors
(every entry drawn from free / end / both reserved flags / each in-range link /
out-of-range values), and randomly for larger tables up to the real SAT size.
Compared: exception (type + message) or the resulting table (size, parent
stream, every SectorLink).
"""
import io
import itertools
import random
import sys

from construct.core import Int16ul

from smpl_extract.akai.data_types import AKAI_SAT_EOF_FLAG
from smpl_extract.akai.data_types import AKAI_SAT_FREE_FLAG
from smpl_extract.akai.data_types import AKAI_SAT_RESERVED_FLAG_STD
from smpl_extract.akai.data_types import AKAI_SAT_RESERVED_FLAG_V2
from smpl_extract.akai.sat import SegmentAllocationTable
from smpl_extract.akai.sat import SegmentAllocationTableAdapter
from smpl_extract.util.fat import SectorLink
from smpl_extract.util.fat import add_to_sector_links


def original_decode(self, obj, context, path):

    del path  # Unused 
    block = obj
    if callable(self.partition_stream):
        partition_stream = self.partition_stream(context)  
    else:
        partition_stream = self.partition_stream

    size = len(block)
    sector_links = [SectorLink()] * size
    dirty_flags = [False] * size

    previous_sector_was_directory = True
    for i in range(size):
        if not dirty_flags[i]:

            links = []
            subpath_index = i
            
            continue_flag = True 
            while continue_flag:
                if subpath_index >= size:
                    continue_flag = False
                    break

                value_current = block[subpath_index]
                current_sector_is_directory = value_current in (
                        AKAI_SAT_RESERVED_FLAG_STD, 
                        AKAI_SAT_RESERVED_FLAG_V2
                )

                if not current_sector_is_directory and previous_sector_was_directory and len(links) > 0:
                    add_to_sector_links(links, sector_links)
                    previous_sector_was_directory = False
                    continue_flag = False
                    break
                elif value_current == AKAI_SAT_FREE_FLAG or \
                        (value_current < size and dirty_flags[value_current]):

                    continue_flag = False
                    dirty_flags[subpath_index] = True
                    previous_sector_was_directory = False
                    break 
                elif value_current == AKAI_SAT_EOF_FLAG:
                    links.append(subpath_index)
                    add_to_sector_links(links, sector_links)
                    dirty_flags[subpath_index] = True
                    previous_sector_was_directory = current_sector_is_directory
                    continue_flag = False
                    break
                
                dirty_flags[subpath_index] = True
                links.append(subpath_index)
                if not current_sector_is_directory:
                    subpath_index = value_current
                else:
                    subpath_index += 1
                previous_sector_was_directory = current_sector_is_directory
                
        else:
            pass

    result = SegmentAllocationTable(partition_stream, size, sector_links)
    return result


def observe(fn):
    try:
        table = fn()
    except BaseException as exc:  # noqa
        return ("exc", type(exc).__name__, str(exc))
    return (
        "ret",
        type(table).__name__,
        table.size,
        id(table.parent_stream),
        tuple((type(x).__name__, x.next, x.end) for x in table.sector_links),
    )


def main():
    stream = io.BytesIO(b"")
    adapter = SegmentAllocationTableAdapter(stream, Int16ul[4])
    ctx_calls = []

    def stream_factory(context):
        ctx_calls.append(context)
        return stream

    lazy_adapter = SegmentAllocationTableAdapter(stream_factory, Int16ul[4])

    checked = 0
    bad = 0

    def check(block, which=adapter):
        nonlocal checked, bad
        block_a = list(block)
        block_b = list(block)
        a = observe(lambda: original_decode(which, block_a, {"k": 1}, "p"))
        b = observe(lambda: which._decode(block_b, {"k": 1}, "p"))
        checked += 1
        if a != b or block_a != list(block) or block_b != list(block):
            bad += 1
            if bad < 10:
                print("MISMATCH", list(block), a, b)

    flags = [
        AKAI_SAT_FREE_FLAG,
        AKAI_SAT_EOF_FLAG,
        AKAI_SAT_RESERVED_FLAG_STD,
        AKAI_SAT_RESERVED_FLAG_V2,
    ]
    # exhaustive, n = 0..5 sectors
    for n in range(0, 6):
        alphabet = flags + list(range(1, n)) + [n, n + 1, 0xFFFF]
        for block in itertools.product(alphabet, repeat=n):
            check(block)

    # the lazily resolved partition stream spelling
    for block in ([], [AKAI_SAT_EOF_FLAG], [0x4000, 0x4000, 2, 0xC000]):
        check(block, lazy_adapter)
    if len(ctx_calls) != 6:
        print("stream factory call count", len(ctx_calls))
        bad += 1

    # negative words cannot come from Int16ul but are legal list content
    for block in ([-1, 0xC000], [1, -1], [-2, 0x4000, 0xC000], [-5, 0xC000],
                  [1, -3, 0xC000]):
        check(block)

    # random: mid-size and real-size tables with chains, directory runs,
    # injected cycles, cross-links and merges
    rng = random.Random(70707)
    for _ in range(1500):
        n = rng.choice([6, 7, 8, 12, 40, 300])
        alphabet = flags + flags[1:] + list(range(1, n)) + [n, n + 7, 0xFFFF]
        check([rng.choice(alphabet) for _ in range(n)])
    for _ in range(30):
        n = 11386
        block = [AKAI_SAT_FREE_FLAG] * n
        dir_len = rng.randint(0, 6)
        for k in range(dir_len):
            block[k] = rng.choice(flags[2:])
        order = list(range(dir_len, n))
        rng.shuffle(order)
        pos = 0
        while pos < len(order) - 40:
            run = order[pos:pos + rng.randint(1, 40)]
            for a_, b_ in zip(run, run[1:]):
                block[a_] = b_
            block[run[-1]] = AKAI_SAT_EOF_FLAG
            pos += len(run) + rng.randint(0, 3)
        for _ in range(rng.randint(0, 25)):
            victim = rng.randrange(n)
            block[victim] = rng.choice(
                [victim, rng.randrange(n), n, 0xFFFF] + flags
            )
        check(block)

    print(f"checked {checked} cases, {bad} mismatches")
    return 1 if bad else 0


if __name__ == "__main__":
    sys.exit(main())
