"""Equivalence demo for r18: smpl_extract/util/stream.py StreamWrapper.seek - the
seek of the StreamOffset window that MdxStream returns (every parser seek on an
MDX-wrapped image goes through it; SectorStream/MdfStream and StreamReversed
inherit it too).

The refactoring replaces the `starting_position = 0; if whence == SEEK_CUR: ...
elif whence == SEEK_END: ...` ladder by a `match whence:` statement with the
value patterns io.SEEK_CUR / io.SEEK_END and a `case _:` default.  The clamp and
the state updates below it are untouched.

The ORIGINAL method is pasted below.  Twin stream stacks (one driven through
the live method, one through the original) are compared after every call:
  * return value or exception (type and message);
  * wrapper state (position, true_size, end_of_file);
  * the exact sequence of calls made on the underlying stream;
for StreamWrapper, StreamOffset (the MDX window), StreamReversed, SectorStream
and MdfStream; whence in {0, 1, 2, omitted, 3, -1, True, False, 1.0, 2.0, None,
"1", an object whose __eq__ is logged}; offsets far outside the window, sizes
that are zero / negative / None, interleaved with reads.
End to end: generated minimal Roland images (sizes that are and are not
multiples of 2048) raw / 2352-byte sectors / MDX / cue->raw / cue->2352 in a
fresh temp directory are recognised the same and list the same, and reads
through MdxStream at random seeks return the bytes of the raw image.
"""
import contextlib
import io
import os
import random
import shutil
import struct
import sys
import tempfile
from io import SEEK_CUR
from io import SEEK_END
from io import SEEK_SET

from smpl_extract import actions
from smpl_extract.alcohol.mdf import MdfStream
from smpl_extract.alcohol.mdx import MdxHeaderConstruct
from smpl_extract.alcohol.mdx import MdxStream
from smpl_extract.alcohol.mdx import is_mdx_image
from smpl_extract.roland.s7xx.data_types import FAT_AREA_ID
from smpl_extract.roland.s7xx.data_types import FAT_AREA_OFFSET
from smpl_extract.roland.s7xx.data_types import FAT_AREA_SIZE
from smpl_extract.roland.s7xx.image import IdAreaStruct
from smpl_extract.util.sector import SectorStream
from smpl_extract.util.stream import StreamOffset
from smpl_extract.util.stream import StreamReversed
from smpl_extract.util.stream import StreamWrapper


# ---- the ORIGINAL method, verbatim ---------------------------------------------
def original_seek(self, offset: int, whence: int = SEEK_CUR):
    starting_position = 0
    if whence == SEEK_CUR:
        starting_position = self.position
    elif whence == SEEK_END:
        starting_position = self.end_of_file

    new_position = starting_position + offset
    if new_position > self.end_of_file:
        new_position = self.end_of_file
    elif new_position < 0:
        new_position = 0

    self.true_size = 0
    self._seek(new_position)
    self.position = new_position
    return new_position
# --------------------------------------------------------------------------------


failures = []
checks = 0


def check(label, a, b):
    global checks
    checks += 1
    if a != b:
        failures.append((label, a, b))


def outcome(fn):
    try:
        return ("ok", fn())
    except Exception as e:  # noqa: BLE001 - compared, not hidden
        return ("exc", type(e).__name__, str(e))


class LoggedStream(io.BytesIO):
    def __init__(self, data, log):
        super().__init__(data)
        self.log = log

    def tell(self):
        r = super().tell()
        self.log.append(("tell", r))
        return r

    def seek(self, *a):
        r = super().seek(*a)
        self.log.append(("seek", a, r))
        return r

    def read(self, *a):
        r = super().read(*a)
        self.log.append(("read", a, len(r)))
        return r


class EqSpy:
    """whence stand-in: logs what it is compared with, equal to `equal_to`."""
    __hash__ = None  # unhashable on purpose

    def __init__(self, equal_to, log):
        self.equal_to = equal_to
        self.log = log

    def __eq__(self, other):
        self.log.append(("eq", other))
        return other == self.equal_to


def header(sector_id):
    return b"\x00" + b"\xFF" * 10 + b"\x00" + struct.pack(">I", sector_id)[1:] + b"\x01"


def mdf_wrap(payload):
    out = bytearray()
    for i in range(0, len(payload), 2048):
        out += header(i // 2048) + payload[i:i + 2048].ljust(2048, b"\0") + bytes(288)
    return bytes(out)


def mdx_wrap(payload):
    return MdxHeaderConstruct.build(dict(
        copyright=b"\xA9" + b" " * 25,
        eof=MdxHeaderConstruct.sizeof() + len(payload),
    )) + payload


FACTORIES = {
    "wrapper": lambda sub, data, size: StreamWrapper(sub, size),
    "wrapper-pos": lambda sub, data, size: StreamWrapper(sub, size, position=7, buffer_length=16),
    "offset": lambda sub, data, size: StreamOffset(sub, size, 64),
    "reversed-1": lambda sub, data, size: StreamReversed(sub, size, 1),
    "reversed-2": lambda sub, data, size: StreamReversed(sub, size, 2),
    "sector": lambda sub, data, size: SectorStream(sub, size, 512),
    "mdf": lambda sub, data, size: MdfStream(sub),
    "mdx": lambda sub, data, size: MdxStream(sub),
    "mdx-over-nothing": lambda sub, data, size: StreamOffset(sub, size, 64, position=3),
}


def make_pair(kind, rng):
    if kind == "mdf":
        data = mdf_wrap(bytes(rng.randrange(256) for _ in range(rng.choice([2048, 5000, 3 * 2048]))))
    elif kind == "mdx":
        data = mdx_wrap(bytes(rng.randrange(256) for _ in range(rng.choice([0, 1, 700, 4096]))))
    else:
        data = bytes(rng.randrange(256) for _ in range(rng.choice([0, 1, 64, 65, 700, 4096])))
    size = rng.choice([len(data), max(0, len(data) - 64), 0, 10, len(data) + 50, -5, 300])
    pair = []
    for _ in range(2):
        log = []
        sub = LoggedStream(data, log)
        pair.append((FACTORIES[kind](sub, data, size), log))
    return pair


def state(stream):
    return (stream.position, stream.true_size, stream.end_of_file)


def scenario(kind, n, rng):
    (live, live_log), (orig, orig_log) = make_pair(kind, rng)
    check((kind, n, "initial"), (state(live), live_log), (state(orig), orig_log))
    span = abs(live.end_of_file) + 40
    for step in range(25):
        action = rng.random()
        if action < 0.7:
            offset = rng.choice([0, 1, -1, 2, -2, span, -span, rng.randint(-span, span),
                                 rng.randint(0, span), 2048, 2047, 2049])
            if kind.startswith("reversed"):
                offset = rng.choice([offset, offset * 2])
            pick = rng.randrange(14)
            spy_logs = ([], [])
            if pick == 0:
                args = [(offset,), (offset,)]                      # default whence (SEEK_CUR)
            elif pick == 1:
                target = rng.choice([0, 1, 2, 5])
                args = [(offset, EqSpy(target, spy_logs[0])), (offset, EqSpy(target, spy_logs[1]))]
            else:
                whence = [SEEK_SET, SEEK_CUR, SEEK_END, SEEK_SET, SEEK_END, 3, -1, True, False,
                          1.0, 2.0, None, "1", [1]][pick]
                args = [(offset, whence), (offset, whence)]
            if rng.random() < 0.05:
                args = [("12",) + args[0][1:], ("12",) + args[1][1:]]   # bad offset type
            got = outcome(lambda: live.seek(*args[0]))
            want = outcome(lambda: original_seek(orig, *args[1]))
            check((kind, n, step, "seek result", repr(args[1])[:60]), got, want)
            check((kind, n, step, "whence comparisons"), spy_logs[0], spy_logs[1])
        elif action < 0.95:
            size = rng.choice([0, 1, 2, 4, 16, 100, 2048, 2050, 5000, None, -1])
            if kind.startswith("reversed") and isinstance(size, int) and size > 0:
                size -= size % 2
            check((kind, n, step, "read", size), outcome(lambda: live.read(size)), outcome(lambda: orig.read(size)))
        else:
            check((kind, n, step, "tell"), live.tell(), orig.tell())
        check((kind, n, step, "state"), state(live), state(orig))
        check((kind, n, step, "substream calls"), live_log, orig_log)


def make_roland_image(rng, extra):
    values = dict(
        revision=rng.randint(0, 2**32 - 1),
        s7xx_str="S770 MR25A",
        empty_str="",
        version_str=rng.choice(["S-770 Hard Disk Ver. 2.25", "S-750 MO Disk Ver 1.02a"]),
        copyright_str="Copyright Roland",
        disk_name=rng.choice(["MYDISK", "", "A B C", "0123456789ABCDEF"]),
        disk_capacity=rng.randint(0, 2**32 - 1),
        num_volumes=0,
        num_performances=0,
        num_patches=rng.randint(0, 0xFFFF),
        num_partials=rng.randint(0, 0xFFFF),
        num_samples=rng.randint(0, 0xFFFF),
    )
    img = bytearray(0x110000 + extra)
    for k in range(0, len(img), 997):
        img[k] = rng.randint(0, 255)
    ida = IdAreaStruct.build(values)
    img[:len(ida)] = ida
    fat = bytearray(FAT_AREA_SIZE)
    struct.pack_into("<HH", fat, 0, FAT_AREA_ID, 77)
    struct.pack_into("<HH", fat, FAT_AREA_SIZE - 4, 0xFFFF, 0xFFFF)
    img[FAT_AREA_OFFSET:FAT_AREA_OFFSET + FAT_AREA_SIZE] = fat
    return bytes(img)


def ls_text(image, path=""):
    buf = io.StringIO()
    with contextlib.redirect_stdout(buf):
        actions.ls_action(image, path)
    return buf.getvalue()


def main():
    rng = random.Random(0x518)

    for kind in FACTORIES:
        for n in range(120):
            scenario(kind, n, rng)

    # a few exact expectations, independent of the pasted original
    window = MdxStream(io.BytesIO(mdx_wrap(bytes(range(200)))))
    expectations = [
        ((0, SEEK_SET), 0), ((10, SEEK_SET), 10), ((5,), 15), ((-20, SEEK_CUR), 0), ((-1, SEEK_END), 199),
        ((0, SEEK_END), 200), ((7, SEEK_END), 200), ((-500, SEEK_END), 0), ((50, 99), 50), ((3, True), 53),
        ((1000, SEEK_SET), 200), ((-3, 2.0), 197),
    ]
    for args, want in expectations:
        check(("window seek", args), (window.seek(*args), window.tell(), window.true_size), (want, want, 0))
    window.seek(190, SEEK_SET)
    check("window read after seek", window.read(50), bytes(range(190, 200)))

    # -- end to end --------------------------------------------------------------
    workdir = tempfile.mkdtemp(prefix="r18_demo_")
    try:
        for n in range(5):
            extra = [0, 1, 777, 2048, 4095][n]
            payload = make_roland_image(rng, extra)
            wrapped = mdx_wrap(payload)
            check(("e2e is_mdx", n), (is_mdx_image(io.BytesIO(payload)), is_mdx_image(io.BytesIO(wrapped))), (False, True))

            window = MdxStream(io.BytesIO(wrapped))
            check(("e2e window size", n), window.seek(0, SEEK_END), len(payload))
            for _ in range(60):
                pos = rng.choice([0, 2047, 2048, 2049, rng.randrange(len(payload)), len(payload) - 5])
                size = rng.choice([1, 2, 16, 2047, 2048, 2049, 5000])
                how = rng.randrange(3)
                if how == 0:
                    window.seek(pos, SEEK_SET)
                elif how == 1:
                    window.seek(pos - window.tell())
                else:
                    window.seek(pos - len(payload), SEEK_END)
                check(("e2e read", n, pos, size, how), window.read(size), payload[pos:pos + size])

            blobs = {"raw": payload, "mdf": mdf_wrap(payload), "mdx": wrapped}
            paths = {}
            for kind, blob in blobs.items():
                paths[kind] = os.path.join(workdir, f"img{n}.{kind}")
                with open(paths[kind], "wb") as f:
                    f.write(blob)
            for kind in ("raw", "mdf"):
                cue = os.path.join(workdir, f"img{n}.{kind}.cue")
                with open(cue, "w", encoding="ascii") as f:
                    f.write(f"FILE \"img{n}.{kind}\" BINARY\n  TRACK 01 MODE1/2352\n    INDEX 01 00:00:00\n")
                paths["cue->" + kind] = cue

            listings = {}
            for kind, path in paths.items():
                image = actions.determine_image_type(path)
                check(("e2e type", n, kind), type(image).__name__, "RolandS7xxImage")
                listings[kind] = (image.disk_name, image.model_version, image.num_samples, ls_text(image))
            check(("e2e same everywhere", n), len(set(listings.values())), 1)
    finally:
        shutil.rmtree(workdir, ignore_errors=True)

    print(f"{checks} checks, {len(failures)} disagreements")
    for f in failures[:10]:
        print("  MISMATCH", repr(f)[:400])
    return 1 if failures else 0


if __name__ == "__main__":
    sys.exit(main())
