"""Equivalence demo for r5: WavSampleAdapter._encode (smpl_extract/generalized/wav.py).

An inline copy of the ORIGINAL _encode is compared with the one in the tree on
many samples: structure of the returned Container, bytes built through
RiffStruct, exceptions raised and the order of operations on the data streams.
Exit 0 when everything agrees, 1 otherwise.
"""
import io
import itertools
import sys

from construct import Adapter
from construct import Container

from smpl_extract.data_streams import DataStream
from smpl_extract.data_streams import Endianess
from smpl_extract.data_streams import NoDataStream
from smpl_extract.data_streams import StreamEncoding
from smpl_extract.formats.wav import RiffStruct
from smpl_extract.formats.wav import WavRiffChunkType
from smpl_extract.generalized import wav as gwav
from smpl_extract.generalized.sample import LoopRegion
from smpl_extract.generalized.sample import LoopType
from smpl_extract.generalized.sample import Sample
from smpl_extract.midi import MidiNote


class OrigWavSampleAdapter(Adapter):
    # verbatim copy of the original implementation
    def _encode(self, obj, context, path):
        del context, path  # Unused
        sample = obj

        if len(sample.data_streams) < 1:
            raise NoDataStream("Sample has no data stream")

        dest_encoding = StreamEncoding(
            endianess=Endianess.LITTLE,  # WAV Specification
            sample_width=sample.data_streams[0].encoding.sample_width,
            num_interleaved_channels=sample.num_channels
        )

        riff_chunks = []

        # fmt chunk
        riff_chunks.append(Container({
            "riff_id":  WavRiffChunkType.FMT,
            "data":     gwav.get_fmt_chunk_data(sample, dest_encoding)
        }))

        # smpl chunk
        requires_smpl_chunk = any((x is not None for x in (
                sample.midi_note,
                sample.pitch_offset_cents,
                sample.pitch_offset_semi
            ))) or len(sample.loop_regions) > 0

        if requires_smpl_chunk:
            riff_chunks.append(Container({
                "riff_id":  WavRiffChunkType.SMPL,
                "data":     gwav.get_smpl_chunk_data(sample)
            }))

        # data chunk
        data_generator = gwav.make_transcoder(sample.data_streams, dest_encoding)
        riff_chunks.append(Container({
            "riff_id":  WavRiffChunkType.DATA,
            "data":     data_generator
        }))

        result = Container({
            "data": Container({
                "chunks": riff_chunks
            })
        })
        return result

    def _decode(self, obj, context, path):
        raise NotImplementedError


OrigBuilder = OrigWavSampleAdapter(RiffStruct)


class LoggingStream(io.BytesIO):
    """BytesIO that records every seek/read so the order can be compared."""

    def __init__(self, data, log, tag):
        super().__init__(data)
        self._log = log
        self._tag = tag

    def seek(self, *args):
        self._log.append((self._tag, "seek", args))
        return super().seek(*args)

    def read(self, *args):
        self._log.append((self._tag, "read", args))
        return super().read(*args)


def pcm(n_bytes, salt):
    return bytes((i * 7 + salt * 13) & 0xFF for i in range(n_bytes))


def make_sample(spec, log):
    (stream_specs, num_channels, rate, note, semi, cents, loops) = spec
    streams = []
    for k, (endian, width, nch, n_bytes) in enumerate(stream_specs):
        enc = StreamEncoding(
            endianess=endian, sample_width=width, num_interleaved_channels=nch
        )
        streams.append(DataStream(LoggingStream(pcm(n_bytes, k), log, k), enc))
    return Sample(
        name="x",
        sample_rate=rate,
        num_channels=num_channels,
        data_streams=streams,
        loop_regions=list(loops),
        midi_note=note,
        pitch_offset_semi=semi,
        pitch_offset_cents=cents,
    )


def summarize_container(result):
    """Comparable summary of what _encode returned (drains the generator)."""
    assert list(result.keys()) == ["data"], list(result.keys())
    assert list(result["data"].keys()) == ["chunks"]
    out = []
    for chunk in result["data"]["chunks"]:
        assert type(chunk) is Container
        assert list(chunk.keys()) == ["riff_id", "data"], list(chunk.keys())
        rid = chunk["riff_id"]
        data = chunk["data"]
        if rid == WavRiffChunkType.DATA:
            out.append((str(rid), type(data).__name__, list(data)))
        else:
            out.append((str(rid), type(data).__name__, repr(data), dict(data)))
    return out


def run(fn):
    try:
        return ("ok", fn())
    except Exception as e:  # noqa: BLE001 - exceptions are part of behaviour
        return ("exc", type(e).__name__, str(e))


def specs():
    L, B = Endianess.LITTLE, Endianess.BIG
    stream_sets = [
        [],
        [(L, 2, 1, 0)],
        [(L, 2, 1, 1)],
        [(L, 2, 1, 10)],
        [(L, 2, 1, 11)],
        [(L, 2, 1, 0x1000)],
        [(L, 2, 1, 0x1003)],
        [(L, 2, 1, 9001)],
        [(B, 2, 1, 9001)],
        [(L, 1, 1, 333)],
        [(L, 2, 2, 4000)],
        [(L, 2, 2, 4003)],
        [(B, 2, 2, 4003)],
        [(L, 2, 1, 9000), (L, 2, 1, 9000)],
        [(L, 2, 1, 9000), (L, 2, 1, 8001)],
        [(B, 2, 1, 9000), (L, 2, 1, 8001)],
        [(B, 2, 1, 500), (B, 2, 1, 500)],
        [(L, 2, 1, 100), (L, 2, 1, 100), (L, 2, 1, 100)],
        [(L, 2, 0, 100)],
    ]
    loop_sets = [
        (),
        (LoopRegion(0, 100),),
        (LoopRegion(5, 5, LoopType.REVERSE, repeat_forever=False, duration=1.0),),
        (
            LoopRegion(1, 2000, LoopType.ALTERNATING, play_cnt=7),
            LoopRegion(3, 4000, LoopType.FORWARD, repeat_forever=False, duration=0.25),
        ),
    ]
    pitch_sets = [
        (None, None, None),
        (MidiNote.from_string("C4"), None, None),
        (None, 0, None),
        (None, None, 0),
        (MidiNote.from_string("A#2"), 3, -17),
        (None, -40, 49),
    ]
    for streams in stream_sets:
        for num_channels in (1, 2):
            for rate in (0, 22050, 44100):
                for (note, semi, cents), loops in itertools.product(
                        pitch_sets, loop_sets):
                    yield (streams, num_channels, rate, note, semi, cents, loops)


def main():
    n = 0
    bad = 0
    n_ok = 0
    n_smpl = 0
    new_adapter = gwav.WavSampleAdapter(RiffStruct)
    for spec in specs():
        # 1. _encode result compared structurally
        log_a, log_b = [], []
        ra = run(lambda: summarize_container(
            OrigBuilder._encode(make_sample(spec, log_a), None, None)))
        rb = run(lambda: summarize_container(
            new_adapter._encode(make_sample(spec, log_b), None, None)))
        # 2. bytes through the module-level builder
        log_c, log_d = [], []
        rc = run(lambda: OrigBuilder.build(make_sample(spec, log_c)))
        rd = run(lambda: gwav.WavSampleBuilder.build(make_sample(spec, log_d)))
        n += 1
        if rc[0] == "ok":
            n_ok += 1
            n_smpl += b"smpl" in rc[1][:64]
        if ra != rb or log_a != log_b or rc != rd or log_c != log_d:
            bad += 1
            if bad < 5:
                print("MISMATCH", spec)
                print("  ", ra[:2] if ra[0] == "exc" else "ok", rb[:2] if rb[0] == "exc" else "ok")
    print(f"{n} cases ({n_ok} built, {n_smpl} with smpl chunk), {bad} mismatches")
    if n_ok < 100 or n_smpl < 100 or n_ok == n or n_smpl == n_ok:
        print("demo lost its coverage")
        return 1
    return 1 if bad else 0


if __name__ == "__main__":
    sys.exit(main())
