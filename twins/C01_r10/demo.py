"""Equivalence demo for r10 (smpl_extract/structural.py,
Traversable.export_samples).  An inline copy of the ORIGINAL method is grafted
onto a subclass of Traversable; identical random element trees are built once
from the live class and once from that subclass and walked with
  (a) a recording export manager (every set_level / add_sample / finish_level,
      every path / children / type_id / to_generalized access is logged, some
      of them raise), and
  (b) the real ExportManager writing real WAV files into a temp directory.
Event logs, return values, exceptions, stdout, directory trees and file bytes
have to be identical.  Exit 0 = all agree."""
import contextlib
import io
import os
import random
import shutil
import sys
import tempfile
from typing import cast

from smpl_extract.base import ElementTypes
from smpl_extract.data_streams import DataStream, Endianess, StreamEncoding
from smpl_extract.generalized.sample import Sample
from smpl_extract.structural import ExportManager
from smpl_extract.structural import SampleElement
from smpl_extract.structural import Traversable


# ---- inline copy of the ORIGINAL implementation -------------------------
class OrigTraversable(Traversable):

    def export_samples(
            self,
            export_manager: ExportManager
    ):
        export_manager.set_level(tuple(self.path))
        children = self.children

        for child in children:
            if child.type_id == ElementTypes.SampleEntry:
                child = cast(SampleElement, child)
                sample = child.to_generalized()
                export_manager.add_sample(sample)
            elif isinstance(child, Traversable):
                child.export_samples(export_manager)

        export_manager.finish_level()
        return
# -------------------------------------------------------------------------


failures = 0
checks = 0


def check(label, a, b):
    global failures, checks
    checks += 1
    if a != b:
        failures += 1
        if failures <= 10:
            print("MISMATCH", label, "\n   live:", a, "\n   orig:", b)


# ---------------------------------------------------------------- part (a)
class Boom(Exception):
    pass


def make_dir_class(base):
    class Dir(base):
        """Directory whose path/children accesses are logged."""
        def __init__(self, name, log, child_factory, path, parent, type_id=None):
            super().__init__(
                f_realize_children=self._realize, path=path, parent=parent)
            self.name = name
            self.log = log
            self._child_factory = child_factory
            if type_id is not None:
                self.type_id = type_id

        def _realize(self, context_additions):
            self.log.append(("realize", self.name, sorted(context_additions)))
            return self._child_factory(self)

        @property
        def path(self):
            self.log.append(("path", self.name))
            return self._path

        def to_generalized(self):
            self.log.append(("to_generalized(dir)", self.name))
            return ("generalized-dir", self.name)
    return Dir


class Leaf:
    def __init__(self, name, log, type_id, fail=False):
        self.name = name
        self.log = log
        self._type_id = type_id
        self.fail = fail

    @property
    def type_id(self):
        self.log.append(("type_id", self.name))
        if self._type_id == "RAISE":
            raise Boom("type_id of " + self.name)
        if self._type_id == "MISSING":
            raise AttributeError("type_id")
        return self._type_id

    def to_generalized(self):
        self.log.append(("to_generalized", self.name))
        if self.fail:
            raise Boom("to_generalized of " + self.name)
        return ("generalized", self.name)

    def export_samples(self, export_manager):  # must never be called
        self.log.append(("UNEXPECTED export_samples", self.name))


class RecordingManager:
    def __init__(self, log, fail_on=None):
        self.log = log
        self.fail_on = fail_on
        self.n = 0

    def _tick(self, what):
        self.n += 1
        if self.fail_on is not None and self.n == self.fail_on:
            self.log.append(("manager raises at", what))
            raise Boom("manager call %d" % self.n)

    def set_level(self, level):
        self.log.append(("set_level", level, type(level).__name__))
        self._tick("set_level")

    def add_sample(self, sample):
        self.log.append(("add_sample", sample))
        self._tick("add_sample")

    def finish_level(self):
        self.log.append(("finish_level",))
        self._tick("finish_level")


def random_spec(rnd, depth=0):
    """spec := list of child specs"""
    out = []
    for n in range(rnd.randrange(0, 6)):
        r = rnd.random()
        name = "n%d_%d_%d" % (depth, n, rnd.randrange(1000))
        if r < 0.30:
            out.append(("sample", name))
        elif r < 0.40:
            out.append(("program", name))
        elif r < 0.45:
            out.append(("fakedir", name))       # DirectoryEntry id, not Traversable
        elif r < 0.50:
            out.append(("generalized", name))   # some other ElementTypes member
        elif r < 0.53:
            out.append(("badsample", name))
        elif r < 0.55:
            out.append(("badtype", name))
        elif r < 0.57:
            out.append(("notype", name))
        elif r < 0.60:
            out.append(("inttype", name))       # plain int 2 == SampleEntry
        elif r < 0.66 and depth < 3:
            out.append(("dirsample", name, random_spec(rnd, depth + 1)))
        elif depth < 3:
            out.append(("dir", name, random_spec(rnd, depth + 1)))
        else:
            out.append(("sample", name))
    return out


def build(spec, Dir, log, name="root", path=(), parent=None, type_id=None):
    def factory(me):
        kids = []
        for item in spec:
            kind, kname = item[0], item[1]
            if kind == "sample":
                kids.append(Leaf(kname, log, ElementTypes.SampleEntry))
            elif kind == "program":
                kids.append(Leaf(kname, log, ElementTypes.ProgramEntry))
            elif kind == "fakedir":
                kids.append(Leaf(kname, log, ElementTypes.DirectoryEntry))
            elif kind == "generalized":
                kids.append(Leaf(kname, log, ElementTypes.SampleGeneralized))
            elif kind == "badsample":
                kids.append(Leaf(kname, log, ElementTypes.SampleEntry, fail=True))
            elif kind == "badtype":
                kids.append(Leaf(kname, log, "RAISE"))
            elif kind == "notype":
                kids.append(Leaf(kname, log, "MISSING"))
            elif kind == "inttype":
                kids.append(Leaf(kname, log, 2))
            elif kind == "dirsample":
                kids.append(build(item[2], Dir, log, kname, tuple(path) + (kname,),
                                  me, ElementTypes.SampleEntry))
            elif kind == "dir":
                kids.append(build(item[2], Dir, log, kname, tuple(path) + (kname,), me))
        return kids
    return Dir(name, log, factory, list(path), parent, type_id)


def walk(Dir, spec, fail_on):
    log = []
    root = build(spec, Dir, log)
    manager = RecordingManager(log, fail_on)
    try:
        result = ("OK", root.export_samples(manager))
    except Exception as e:  # noqa: BLE001
        result = ("EXC", type(e).__name__, str(e))
    # a second walk re-uses the realised children
    try:
        result2 = ("OK", root.export_samples(export_manager=RecordingManager(log)))
    except Exception as e:  # noqa: BLE001
        result2 = ("EXC", type(e).__name__, str(e))
    return result, result2, log


def part_a():
    LiveDir = make_dir_class(Traversable)
    OrigDir = make_dir_class(OrigTraversable)
    rnd = random.Random(10)
    specs = [[], [("sample", "only")], [("program", "p")], [("dir", "d", [])]]
    specs += [random_spec(rnd) for _ in range(600)]
    for n, spec in enumerate(specs):
        for fail_on in (None, 1, 2, 3, 5, 8):
            check(("walk", n, fail_on),
                  walk(LiveDir, spec, fail_on), walk(OrigDir, spec, fail_on))


# ---------------------------------------------------------------- part (b)
class RealSampleLeaf:
    type_id = ElementTypes.SampleEntry

    def __init__(self, name, path, parent, payload, rate, width):
        self.name = name
        self.path = path
        self.parent = parent
        self.payload = payload
        self.rate = rate
        self.width = width

    def to_generalized(self):
        enc = StreamEncoding(endianess=Endianess.LITTLE, sample_width=self.width,
                             num_interleaved_channels=1)
        return Sample(
            name=self.name, sample_rate=self.rate, num_channels=1,
            data_streams=[DataStream(stream=io.BytesIO(self.payload), encoding=enc)],
            _parent=self.parent, _path=self.path)


class ProgramLeaf:
    type_id = ElementTypes.ProgramEntry
    name = "PROGRAM"


def make_real_dir_class(base):
    class RealDir(base):
        def __init__(self, name, path, parent, spec):
            super().__init__(f_realize_children=self._realize, path=path, parent=parent)
            self.name = name
            self.spec = spec

        def _realize(self, _ctx):
            kids = []
            for item in self.spec:
                if item[0] == "dir":
                    kids.append(type(self)(item[1], self.path + [item[1]], self, item[2]))
                elif item[0] == "sample":
                    kids.append(RealSampleLeaf(item[1], self.path + [item[1]], self,
                                               item[2], item[3], item[4]))
                else:
                    kids.append(ProgramLeaf())
            return kids
    return RealDir


def snapshot_tree(root):
    out = []
    for base, dirs, files in os.walk(root):
        dirs.sort()
        rel = os.path.relpath(base, root)
        out.append(("d", rel))
        for f in sorted(files):
            with open(os.path.join(base, f), "rb") as fh:
                out.append(("f", os.path.join(rel, f), fh.read()))
    return out


def real_spec(rnd, depth=0):
    out = []
    for n in range(rnd.randrange(1, 5)):
        r = rnd.random()
        if r < 0.55 or depth >= 2:
            width = rnd.choice((1, 2))
            frames = rnd.choice((0, 1, 2, 100, 2048, 4096, 4097, 8192 - 70))
            payload = bytes(rnd.randrange(256) for _ in range(frames * width))
            out.append(("sample", "S%d_%d" % (depth, n), payload,
                        rnd.choice((8000, 22050, 44100)), width))
        elif r < 0.65:
            out.append(("program",))
        else:
            out.append(("dir", "D%d_%d" % (depth, n), real_spec(rnd, depth + 1)))
    return out


def real_walk(Dir, spec):
    tmp = tempfile.mkdtemp(prefix="r10demo")
    try:
        root = Dir("image", [], None, spec)
        manager = ExportManager(output_directory=tmp)
        buf = io.StringIO()
        with contextlib.redirect_stdout(buf):
            try:
                result = ("OK", root.export_samples(manager))
            except Exception as e:  # noqa: BLE001
                result = ("EXC", type(e).__name__, str(e))
        return result, buf.getvalue(), snapshot_tree(tmp), manager.level, list(manager.samples)
    finally:
        shutil.rmtree(tmp, ignore_errors=True)


def part_b():
    LiveDir = make_real_dir_class(Traversable)
    OrigDir = make_real_dir_class(OrigTraversable)
    rnd = random.Random(1010)
    for n in range(40):
        spec = real_spec(rnd)
        a = real_walk(LiveDir, spec)
        b = real_walk(OrigDir, spec)
        check(("real", n), a, b)
        if n == 0 and not any(x[0] == "f" for x in a[2]) and not a[1]:
            pass
    # make sure part (b) really exported something
    spec = [("dir", "A", [("sample", "ONE", b"\x01\x02\x03\x04", 44100, 2)])]
    a = real_walk(LiveDir, spec)
    check("real export happened", [x[:2] for x in a[2] if x[0] == "f"],
          [("f", os.path.join("A", "ONE.wav"))])
    check("real stdout", a[1], "Exported A/ONE.wav\n")


def main():
    part_a()
    part_b()
    print("checks:", checks, "failures:", failures)
    return 1 if failures else 0


if __name__ == "__main__":
    sys.exit(main())
