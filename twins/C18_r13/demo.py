"""r13 evidence: AkaiString._decode / _encode (smpl_extract/akai/akai_string.py)
behave exactly like the original implementation (pasted below, self-contained)
for every byte value, for sampled AKAI-alphabet strings up to length 12, for
malformed input, and when used through AkaiPaddedString(n).parse / .build.
Exit 0 = everything agrees, 1 = some difference.
"""
import random
import sys

from construct.core import Adapter
from construct.core import Bytes
from construct.core import ConstructError
from construct.core import FixedSized
from construct.core import GreedyBytes
from construct.core import NullStripped
from construct.core import Padded

import smpl_extract.akai.akai_string as live
from smpl_extract.akai.data_types import InvalidCharacter


# ---------------------------------------------------------------- ORIGINAL --
O_ASCII, O_AKAI = "ascii", "akai"
O_ZERO = {O_ASCII: ord("0"), O_AKAI: 0x00}
O_NINE = {O_ASCII: ord("9"), O_AKAI: 0x09}
O_SPACE = {O_ASCII: ord(" "), O_AKAI: 0x0A}
O_A = {O_ASCII: ord("A"), O_AKAI: 0x0B}
O_Z = {O_ASCII: ord("Z"), O_AKAI: 0x24}
O_POUND = {O_ASCII: ord("#"), O_AKAI: 0x25}
O_PLUS = {O_ASCII: ord("+"), O_AKAI: 0x26}
O_MINUS = {O_ASCII: ord("-"), O_AKAI: 0x27}
O_PERIOD = {O_ASCII: ord("."), O_AKAI: 0x28}


def orig_convert_byte(byte_in, src_fmt, dst_fmt):
    src_zero = O_ZERO[src_fmt]
    src_nine = O_NINE[src_fmt]
    dst_zero = O_ZERO[dst_fmt]
    src_A = O_A[src_fmt]
    src_Z = O_Z[src_fmt]
    dst_A = O_A[dst_fmt]
    if src_zero <= byte_in <= src_nine:
        return dst_zero + byte_in - src_zero
    elif src_A <= byte_in <= src_Z:
        return dst_A + byte_in - src_A
    symbol_map = {
        O_SPACE[src_fmt]: O_SPACE[dst_fmt],
        O_POUND[src_fmt]: O_POUND[dst_fmt],
        O_PLUS[src_fmt]: O_PLUS[dst_fmt],
        O_MINUS[src_fmt]: O_MINUS[dst_fmt],
        O_PERIOD[src_fmt]: O_PERIOD[dst_fmt],
    }
    resulting_symbol = symbol_map.get(byte_in)
    if resulting_symbol is None:
        raise InvalidCharacter
    return resulting_symbol


def orig_char_ascii_to_akai(str_in):
    if isinstance(str_in, str):
        bytes_in = str_in.upper().encode("ascii")
    else:
        bytes_in = str_in
    result = list(map(lambda x: orig_convert_byte(x, O_ASCII, O_AKAI), bytes_in))
    return bytes(result)


def orig_fast_akai_to_ascii_byte(byte_in):
    if O_ZERO[O_AKAI] <= byte_in <= O_NINE[O_AKAI]:
        return byte_in + O_ZERO[O_ASCII] - O_ZERO[O_AKAI]
    if O_A[O_AKAI] <= byte_in <= O_Z[O_AKAI]:
        return byte_in + O_A[O_ASCII] - O_A[O_AKAI]
    symbol_map = {
        O_SPACE[O_AKAI]: O_SPACE[O_ASCII],
        O_POUND[O_AKAI]: O_POUND[O_ASCII],
        O_PLUS[O_AKAI]: O_PLUS[O_ASCII],
        O_MINUS[O_AKAI]: O_MINUS[O_ASCII],
        O_PERIOD[O_AKAI]: O_PERIOD[O_ASCII],
    }
    resulting_symbol = symbol_map.get(byte_in)
    if resulting_symbol is None:
        raise InvalidCharacter
    return resulting_symbol


def orig_char_akai_to_ascii(bytes_in):
    out_str = list()
    for byte in bytes_in:
        out_str.append(chr(orig_fast_akai_to_ascii_byte(byte)))
    return "".join(out_str)


class OrigAkaiString(Adapter):

    def _decode(self, obj, context, path):
        del context, path  # Unused
        try:
            result = orig_char_akai_to_ascii(obj)
        except (InvalidCharacter):
            raise ConstructError
        return result

    def _encode(self, obj, context, path):
        del context, path  # Unused
        result = orig_char_ascii_to_akai(obj)
        return result


def OrigAkaiPaddedString(length):
    result = OrigAkaiString(FixedSized(length, Padded(
        length,
        NullStripped(
            GreedyBytes,
            pad=O_SPACE[O_AKAI].to_bytes(1, 'little')
        ),
        pattern=O_SPACE[O_AKAI].to_bytes(1, 'little')
    )))
    return result
# ------------------------------------------------------------ END ORIGINAL --


def outcome(fn, *args):
    try:
        value = fn(*args)
    except BaseException as exc:  # noqa: B902 - we compare every failure too
        ctx = exc.__context__
        return ("exc", type(exc), str(exc), type(ctx), exc.__suppress_context__)
    return ("ok", type(value), value)


failures = []
checked = 0


def compare(label, new_fn, old_fn, *args):
    global checked
    checked += 1
    got = outcome(new_fn, *args)
    want = outcome(old_fn, *args)
    if got != want:
        failures.append((label, args, got, want))


def main():
    rng = random.Random(1813)
    new_bare = live.AkaiString(Bytes(1))
    old_bare = OrigAkaiString(Bytes(1))

    # 1. _decode / _encode called directly, every byte, bytes and list inputs
    for b in range(256):
        compare("decode bytes", lambda o: new_bare._decode(o, None, None),
                lambda o: old_bare._decode(o, None, None), bytes([b]))
        compare("decode list", lambda o: new_bare._decode(o, None, None),
                lambda o: old_bare._decode(o, None, None), [b])
        compare("decode mid", lambda o: new_bare._decode(o, None, None),
                lambda o: old_bare._decode(o, None, None), bytes([0x0B, b, 0x28]))
        compare("encode bytes", lambda o: new_bare._encode(o, None, None),
                lambda o: old_bare._encode(o, None, None), bytes([b]))
        compare("encode chr", lambda o: new_bare._encode(o, None, None),
                lambda o: old_bare._encode(o, None, None), chr(b))

    # 2. out-of-range / odd inputs
    odd_inputs = [b"", [], [-1], [256], [1000], [0x0B, "A"], ["A"], None, 5,
                  [None], [1.0], [True, False], (1, 2, 3), bytearray(b"\x0b\x0c"),
                  "A", "\x0b", [[1]], {1: 2}, memoryview(b"\x01\x02")]
    for item in odd_inputs:
        compare("decode odd", lambda o: new_bare._decode(o, None, None),
                lambda o: old_bare._decode(o, None, None), item)
    odd_text = ["", "abc", "AbC 12#+-.", "é", "A_B", "a" * 40, None, 7,
                [65, 66], [300], b"AB", b"ab", ("A",), 1.5, "~", "[", "@", "/", ":"]
    for item in odd_text:
        compare("encode odd", lambda o: new_bare._encode(o, None, None),
                lambda o: old_bare._encode(o, None, None), item)

    # 3. sampled strings over the AKAI alphabet (and over all bytes), len 0..12,
    #    through the padded-string construct exactly as the structs use it
    alphabet = list(range(0x29))
    ascii_alphabet = "0123456789 ABCDEFGHIJKLMNOPQRSTUVWXYZ#+-.abcxyz"
    for length in (1, 2, 5, 12):
        new_con = live.AkaiString(FixedSized(length, Padded(
            length, NullStripped(GreedyBytes, pad=b"\x0a"), pattern=b"\x0a")))
        new_padded = live.AkaiPaddedString(length)
        old_padded = OrigAkaiPaddedString(length)
        for _ in range(1500):
            raw = bytes(rng.choice(alphabet) for _ in range(length))
            for con in (new_con, new_padded):
                compare("parse valid", con.parse, old_padded.parse, raw)
            noisy = bytearray(raw)
            noisy[rng.randrange(length)] = rng.randrange(256)
            compare("parse noisy", new_padded.parse, old_padded.parse, bytes(noisy))
            compare("parse short", new_padded.parse, old_padded.parse,
                    raw[:rng.randrange(length + 1)])
            text = "".join(rng.choice(ascii_alphabet)
                           for _ in range(rng.randrange(length + 3)))
            compare("build text", new_padded.build, old_padded.build, text)
            compare("build text2", new_con.build, old_padded.build, text)
        for b in range(256):
            raw = bytes([b]) * length
            compare("parse rep", new_padded.parse, old_padded.parse, raw)
            raw = bytes([0x0B] * (length - 1) + [b])
            compare("parse last", new_padded.parse, old_padded.parse, raw)

    # 4. round trip over the 41 valid characters
    for b in range(0x29):
        text = new_bare._decode(bytes([b]), None, None)
        if new_bare._encode(text, None, None) != bytes([b]):
            failures.append(("roundtrip", b, text, None))

    # 5. the exception raised for a bad byte is a bare ConstructError chained
    #    from InvalidCharacter, as before
    try:
        new_bare._decode(b"\xff", None, None)
    except ConstructError as exc:
        if type(exc) is not ConstructError or \
                not isinstance(exc.__context__, InvalidCharacter) or \
                exc.__cause__ is not None:
            failures.append(("chain", repr(exc), repr(exc.__context__), None))
    else:
        failures.append(("chain", "no exception", None, None))

    print(f"r13: {checked} comparisons, {len(failures)} differences")
    for failure in failures[:10]:
        print("DIFF", failure)
    return 1 if failures else 0


if __name__ == "__main__":
    sys.exit(main())
