"""Equivalence demo for r24: info.InfoTree.print_tree, nested function
build_inner (the part that flattens the itemized fields of a leaf into the
rows `ls` prints for it; reached through LeafElement.get_info ->
InfoTree.to_string from ls_action).

Compared with an inline copy of the ORIGINAL print_tree:
  1. hand-written item structures: str / dict / tuple / list at top level,
     empty containers at every position, str subclasses with their own
     __str__, nested sequences inside sequences (the "[i]" keys that are
     chained), non-str keys (the chained key then fails in "".join), values
     without len() (int, None, generator), values that are sized but neither
     Sequence nor Mapping (set, frozenset), bytes / range / deque /
     memoryview / custom Sequence and Mapping classes, a Mapping whose
     items() is a one-shot generator, a value whose __len__ raises;
  2. ~3000 randomly generated structures (fixed seed) mixing all of the
     above, each rendered with several (total_width, delimiter, max_rows)
     settings, including max_rows smaller than the row count and widths
     smaller than a row;
     -> same string, or the same exception type and message;
  3. order of side effects: a recording Mapping / Sequence logs every
     items() / __iter__ / __len__ / __str__ call - same log;
  4. end to end: stdout of ls_action for leaves of a synthetic image tree
     whose dataclass fields hold nested dataclasses, lists, dicts, empty
     values and streams, and for the tracks of a CDDA bin/cue pair written to
     a fresh temporary directory, with the original print_tree patched onto
     InfoTree versus the tree as it is.
Exit 0 when all agree, else 1.
"""
import collections
from collections.abc import Mapping as AbcMapping
from collections.abc import Sequence as AbcSequence
import contextlib
from dataclasses import dataclass
from dataclasses import field
import io
import os
import random
import shutil
import sys
import tempfile
from io import StringIO
from typing import Any
from typing import Dict
from typing import List
from typing import Mapping
from typing import Sequence
from typing import Tuple

import smpl_extract.actions as actions
from smpl_extract.base import ElementTypes
from smpl_extract.elements import LeafElement
from smpl_extract.info import InfoTree
from smpl_extract.structural import Image
from smpl_extract.structural import Traversable


# ---- ORIGINAL implementation (verbatim) ------------------------------------
def orig_print_tree(self):


    @dataclass
    class RowEntry:
        content: Tuple[str, ...] = ("", )
        depth: int = 0
        is_divider: bool = False


    row_entries: Sequence[RowEntry] = []


    def build_inner(item, depth=0, prev_key="", row_entries=row_entries):

        if isinstance(item, Sequence) or isinstance(item, Mapping):

            if isinstance(item, Sequence):
                kv_pair = (
                    ("".join((prev_key, f"[{str(i)}]")), value)
                    for i,value in enumerate(item)
                )
            else:
                kv_pair = item.items()

            for key, value in kv_pair:
                    content = [f"{key}:"]
                    if isinstance(value, str):
                        content.append(str(value))
                    elif len(value) == 0:
                        content.append("None")
                    row_entries.append(RowEntry(tuple(content), depth))
                    # expand value
                    if not isinstance(value, str):
                        build_inner(
                            value,
                            depth=(depth + 1),
                            prev_key=key,
                            row_entries=row_entries
                        )


    row_entries.append(RowEntry(tuple(self.header)))
    row_entries.append(RowEntry(is_divider=True))  # divider
    build_inner(self.items)  # fill row_entries

    str_buffer = StringIO(newline="\n")
    # print tree
    for i, row in enumerate(row_entries):
        if i > self.max_rows:
            str_buffer.write("\n")
            str_buffer.write(f"(...) exceeded {self.max_rows} lines\n")
            break
        if row.is_divider:
            result = "-" * self.total_width
            str_buffer.write(result + "\n")
            continue

        column_values = ((" ", ) * row.depth) + row.content
        result = self.delimiter.join(column_values)
        if len(result) > self.total_width:
            result = result[0:self.total_width-3] + "..."
        str_buffer.write(result + "\n")

    result = str_buffer.getvalue()
    return result


@contextlib.contextmanager
def original_world():
    saved = InfoTree.__dict__["print_tree"]
    InfoTree.print_tree = orig_print_tree
    try:
        yield
    finally:
        InfoTree.print_tree = saved


failures = []


def check(label, got, want):
    if got != want:
        failures.append(label)
        if len(failures) <= 20:
            print("MISMATCH", label, "\n   got ", repr(got)[:400],
                  "\n   want", repr(want)[:400])


def outcome(func, *args):
    try:
        result = func(*args)
        return ("ok", type(result).__name__, result)
    except BaseException as exc:  # noqa: B902
        return ("exc", type(exc).__name__, str(exc))


# ---- special values -----------------------------------------------------------
class LoudStr(str):
    def __str__(self):
        return "LOUD<" + str.__str__(self) + ">"


class MySeq(AbcSequence):
    def __init__(self, *values):
        self._values = values

    def __getitem__(self, index):
        return self._values[index]

    def __len__(self):
        return len(self._values)


class MyMap(AbcMapping):
    def __init__(self, **values):
        self._values = values

    def __getitem__(self, key):
        return self._values[key]

    def __iter__(self):
        return iter(self._values)

    def __len__(self):
        return len(self._values)


class OneShotItems(dict):
    def items(self):
        return ((k, v) for k, v in dict.items(self))


class BadLen:
    def __len__(self):
        raise OverflowError("no length today")


class SizedOnly:
    def __len__(self):
        return 3


class EmptySizedOnly:
    def __len__(self):
        return 0


def generator_value():
    return (x for x in "ab")


SETTINGS = [(80, " ", 300), (80, " ", 3), (80, " ", 0), (80, " ", -1),
            (10, " ", 300), (3, " ", 300), (2, " ", 300), (0, "", 5),
            (40, " | ", 7), (12, "", 300), (25, "\t", 2)]


def hand_written():
    return [
        "", "abc", LoudStr("top"), {}, (), [], {"a": "1"}, {"a": ""},
        {"a": LoudStr("x")}, {"a": {}}, {"a": ()}, {"a": []}, {"a": {"b": {}}},
        {"a": ("x", "y")}, {"a": ("x", ("y", ("z",)))}, {"a": ((), {}, "")},
        (("a", "b"), ("c",)), ((("a",),),), ["x", ["y", ["z", []]]],
        {"k": [{"n": "1"}, {"n": "2", "m": ()}]},
        {1: "int key"}, {1: ("seq under int key",)}, {None: {"x": ("y",)}},
        {("t", 1): "tuple key"}, {("t", 1): ["z"]}, {"a": {2: ["q"]}},
        {LoudStr("loudkey"): ("v",)}, {"": ("v",)}, {"a:b": "c"},
        {"a": 5}, {"a": None}, {"a": 2.5}, {"a": generator_value()},
        ("x", 5), [None], {"a": "ok", "b": 7, "c": "never"},
        {"a": {1, 2}}, {"a": set()}, {"a": frozenset(("q",))},
        {"a": SizedOnly()}, {"a": EmptySizedOnly()}, {"a": BadLen()},
        {"a": b"bytes"}, {"a": b""}, b"top bytes", bytearray(b"ba"),
        {"a": range(3)}, {"a": range(0)}, range(2),
        {"a": collections.deque(["d", "e"])}, {"a": collections.deque()},
        {"a": memoryview(b"mv")}, {"a": MySeq("p", ("q",))}, MySeq(),
        {"a": MyMap(x="1", y=("2",))}, MyMap(), MyMap(z=MySeq("w")),
        OneShotItems(a="1", b=("2", {"c": "3"})),
        {"a": OneShotItems(n=OneShotItems())},
        collections.OrderedDict([("o", "1"), ("p", ("2",))]),
        {"wide": "x" * 200}, {"k" * 100: ("v" * 100,)},
        {"a": {"b": {"c": {"d": {"e": {"f": ("g", {"h": "i"})}}}}}},
        {"n%d" % n: str(n) for n in range(400)},
        tuple(str(n) for n in range(350)),
        {"line\nbreak": "va\nlue"}, {"☃": ("☃", "名前")},
        5, None, 2.5, {1, 2}, generator_value(), object(),
    ]


def random_structure(rng, depth=0):
    roll = rng.random()
    if depth > 4 or roll < 0.30:
        return rng.choice(["", "v", "value %d" % rng.randrange(100),
                           LoudStr("s"), "x" * rng.randrange(0, 120)])
    if roll < 0.36:
        return rng.choice([5, None, set(), {1}, b"", b"xy", range(2),
                           SizedOnly(), EmptySizedOnly(), BadLen()])
    size = rng.choice([0, 0, 1, 1, 2, 3, 5])
    if roll < 0.60:
        keys = rng.sample(["a", "b", "name", "", "k:1", 3, None, ("t",),
                           LoudStr("lk"), "long key " * 4], size)
        builder = rng.choice([dict, dict, dict, OneShotItems])
        made = builder()
        for key in keys:
            made[key] = random_structure(rng, depth + 1)
        if rng.random() < 0.1 and all(isinstance(k, str) for k in made):
            return MyMap(**made)
        return made
    values = [random_structure(rng, depth + 1) for _ in range(size)]
    kind = rng.choice([tuple, tuple, list, collections.deque, MySeq])
    if kind is MySeq:
        return MySeq(*values)
    return kind(values)


def render(print_tree, header, items, setting):
    width, delimiter, max_rows = setting
    tree = InfoTree(header, items, width, delimiter, max_rows)
    return outcome(print_tree, tree)


def check_structures():
    live = InfoTree.print_tree
    count = 0
    kinds = set()
    headers = [("NAME", "  ", "Type"), (), ("only",), ["list", "header"],
               ("x" * 100, "y")]
    for n, items in enumerate(hand_written()):
        for setting in SETTINGS:
            header = headers[(n + len(setting[1])) % len(headers)]
            # rebuild one-shot values for each side
            got = render(live, header, hand_written()[n], setting)
            want = render(orig_print_tree, header, hand_written()[n], setting)
            check("hand %d %r" % (n, setting), got, want)
            kinds.add(want[:2])
            count += 1
    for seed in range(3000):
        setting = SETTINGS[seed % len(SETTINGS)]
        got = render(live, headers[0],
                     random_structure(random.Random(seed)), setting)
        want = render(orig_print_tree, headers[0],
                      random_structure(random.Random(seed)), setting)
        check("random %d" % seed, got, want)
        kinds.add(want[:2])
        count += 1
    # bad headers: same exception
    for header in (None, 5, ("a", 1), "plain string"):
        check("header %r" % (header,),
              render(live, header, {"a": "b"}, SETTINGS[0]),
              render(orig_print_tree, header, {"a": "b"}, SETTINGS[0]))
    # to_string goes through print_tree
    tree = InfoTree(("h",), {"a": ("b", {"c": ""})})
    check("to_string", tree.to_string(), orig_print_tree(tree))
    if len(kinds) < 3:
        failures.append("outcomes too uniform")
        print("outcomes too uniform", sorted(kinds))
    return count


# ---- 3: order of side effects ---------------------------------------------------
def recording_classes(log):
    class RecMap(AbcMapping):
        def __init__(self, label, values):
            self._label, self._values = label, values

        def __getitem__(self, key):
            log.append(("getitem", self._label, key))
            return self._values[key]

        def __iter__(self):
            log.append(("iter", self._label))
            return iter(self._values)

        def __len__(self):
            log.append(("len", self._label))
            return len(self._values)

        def items(self):
            log.append(("items", self._label))
            for key, value in self._values.items():
                log.append(("yield", self._label, key))
                yield key, value

    class RecSeq(AbcSequence):
        def __init__(self, label, values):
            self._label, self._values = label, values

        def __getitem__(self, index):
            log.append(("getitem", self._label, index))
            return self._values[index]

        def __len__(self):
            log.append(("len", self._label))
            return len(self._values)

    class RecStr(str):
        def __str__(self):
            log.append(("str", str.__str__(self)))
            return str.__str__(self)

    return RecMap, RecSeq, RecStr


def recorded_run(print_tree, variant):
    log = []
    RecMap, RecSeq, RecStr = recording_classes(log)
    inner = RecMap("inner", {"x": RecStr("1"), "y": RecSeq("deep", [])})
    items = {
        0: RecMap("root", {
            "a": RecStr("first"),
            "b": RecSeq("seq", [RecStr("s0"), inner, RecSeq("empty", [])]),
            "c": RecMap("none", {}),
            "d": RecStr("last"),
        }),
        1: RecSeq("rootseq", [RecStr("r0"), RecMap("m", {"k": RecStr("v")})]),
        2: RecMap("bad", {"ok": RecStr("fine"), "boom": 5,
                          "after": RecStr("unreached")}),
        3: RecMap("badkey", {7: RecSeq("under int", [RecStr("q")])}),
    }[variant]
    tree = InfoTree(("H",), items)
    result = outcome(print_tree, tree)
    return result, log


def check_side_effects():
    for variant in range(4):
        got = recorded_run(InfoTree.print_tree, variant)
        want = recorded_run(orig_print_tree, variant)
        check("recorded %d" % variant, got, want)
        if len(want[1]) < 4:
            failures.append("log too short")


# ---- 4: end to end ---------------------------------------------------------------
@dataclass
class Envelope:
    attack: int = 1
    levels: Tuple[int, ...] = (1, 2, 3)
    nothing: Tuple = ()
    label: str = ""


@dataclass
class FakeLeaf(LeafElement):
    name: str = ""
    type_name: str = "Leaf"
    size: int = 7
    envelope: Envelope = field(default_factory=Envelope)
    zones: List[Any] = field(default_factory=list)
    extra: Dict[str, Any] = field(default_factory=dict)
    stream: Any = None
    _hidden: int = 3
    type_id = ElementTypes.SampleEntry


class QuietStream(io.BytesIO):
    """An IOBase whose repr does not carry its address."""
    def __repr__(self):
        return "<QuietStream>"


class FakeImage(Image):
    name = "Fake Image"
    type_name = "Fake Image"
    type_id = ElementTypes.DirectoryEntry

    def __init__(self):
        Traversable.__init__(self, lambda ctx: self._make())

    @staticmethod
    def _make():
        return [
            FakeLeaf(name="plain"),
            FakeLeaf(name="zones", zones=[Envelope(), Envelope(2, (), (), "z"),
                                          [], "text", ("a", ("b",))]),
            FakeLeaf(name="extra", extra={"k": "v", "n": {}, "deep": {
                "deeper": [{"deepest": ("x" * 90,)}]}}),
            FakeLeaf(name="stream", stream=QuietStream(b"abc")),
            FakeLeaf(name="many", zones=[Envelope() for _ in range(80)]),
            FakeLeaf(name="plain"),
            FakeLeaf(name="wide " + "w" * 90, extra={"k" * 90: "v"}),
        ]


def ls_text(target, path):
    buf = io.StringIO()
    try:
        with contextlib.redirect_stdout(buf):
            actions.ls_action(target, path)
        return ("ok", buf.getvalue())
    except BaseException as exc:  # noqa: B902
        return ("exc", type(exc).__name__, str(exc), buf.getvalue())


def check_end_to_end():
    paths = ["", "plain", "plain (2)", "zones", " zones/", "extra", "stream",
             "many", "wide " + "w" * 90, "nope", "plain/x", "PLAIN"]
    trees = 0
    for path in paths:
        got = ls_text(FakeImage(), path)
        with original_world():
            want = ls_text(FakeImage(), path)
        check("ls %r" % path, got, want)
        if want[0] == "ok" and "----" in want[1] and "Item" not in want[1]:
            trees += 1
    root_dir = tempfile.mkdtemp()
    try:
        with open(os.path.join(root_dir, "audio.bin"), "wb") as handle:
            handle.write(bytes(2352 * 75 * 3))
        with open(os.path.join(root_dir, "audio.cue"), "wb") as handle:
            handle.write(
                b"FILE \"audio.bin\" BINARY\n  TRACK 01 AUDIO\n"
                b"    TITLE \"First\"\n    INDEX 01 00:00:00\n"
                b"  TRACK 02 AUDIO\n    INDEX 01 00:01:00\n"
                b"  TRACK 03 AUDIO\n    TITLE \"First\"\n"
                b"    INDEX 01 00:02:00\n")
        target = os.path.join(root_dir, "audio.cue")
        for path in ["", "First", "First (2)/", "Untitled Track 2", "nope",
                     "First/x"]:
            got = ls_text(target, path)
            with original_world():
                want = ls_text(target, path)
            check("cue ls %r" % path, got, want)
            if want[0] == "ok" and "CDDA Track" in want[1] \
                    and "Item" not in want[1]:
                trees += 1
    finally:
        shutil.rmtree(root_dir, ignore_errors=True)
    if trees < 8:
        failures.append("too few info trees rendered: %d" % trees)
        print("too few info trees rendered:", trees)
    return trees


def main():
    count = check_structures()
    check_side_effects()
    trees = check_end_to_end()
    if failures:
        print("FAILED: %d mismatches" % len(failures))
        return 1
    print("OK: %d renderings, %d info trees through ls, all agree"
          % (count, trees))
    return 0


if __name__ == "__main__":
    sys.exit(main())
