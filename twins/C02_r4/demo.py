"""r4 demo: orphan-performance pseudo-volume
(smpl_extract/roland/s7xx/volume_entry.py:
 VolumeEntriesList._parse_orphan_performances and its caller ._parse).

The ORIGINAL bodies of both methods are pasted below into a subclass.  Many
generated S-7xx images (no volume at all, all performances referenced, some
orphaned, performances shared by two volumes, non-performance junk in the
performance directory, id-area performance counts below/equal/above the number
of referenced performances) are parsed twice - once through the live class
and once through the original copy - and the resulting volume lists, the
performance/file trees, the exported files and the 'Exported' lines are
compared.  `_parse_orphan_performances` is also called directly with crafted
arguments.  Finally an end-to-end export of generated images is compared with
independently computed PCM.
Exit status 0 = everything agrees, 1 = some disagreement.
"""
import io as _io
import sys
import random as _random
from typing import List, cast

import numpy as np
from construct.core import Computed
from construct.core import FixedSized
from construct.core import Lazy
from construct.core import Pointer
from construct.core import Seek
from construct.core import Struct
from construct.core import evaluate
from construct.lib.containers import Container

from smpl_extract.roland.s7xx.data_types import FAT_AREA_OFFSET
from smpl_extract.roland.s7xx.data_types import ID_AREA_SIZE
from smpl_extract.roland.s7xx.data_types import MAX_NUM_PERFORMANCE
from smpl_extract.roland.s7xx.data_types import MAX_NUM_VOLUME
from smpl_extract.roland.s7xx.data_types import PERFORMANCE_DIRECTORY_AREA_OFFSET
from smpl_extract.roland.s7xx.data_types import RolandFileType
from smpl_extract.roland.s7xx.directory_area import DirectoryEntryContainer
from smpl_extract.roland.s7xx.directory_area import DirectoryEntryParser
from smpl_extract.roland.s7xx.fat import FatAreaParser
from smpl_extract.roland.s7xx.image import IdAreaAdapterParser
from smpl_extract.roland.s7xx.image import RolandS7xxImageAdapter
from smpl_extract.roland.s7xx.image import RolandS7xxImageStruct
from smpl_extract.roland.s7xx.performance_entry import PerformanceEntryAdapter
from smpl_extract.roland.s7xx.performance_entry import PerformanceEntryConstruct
from smpl_extract.roland.s7xx.volume_entry import VolumeEntriesList
from smpl_extract.roland.s7xx.volume_entry import VolumeEntry
from smpl_extract.util.constructs import ElementAdapter
from smpl_extract.util.constructs import SafeListConstruct
from smpl_extract.util.constructs import UnsizedConstruct


# ----- inline copy of the ORIGINAL methods ----------------------------------
class OriginalVolumeEntriesList(VolumeEntriesList):

    def _parse_orphan_performances(
            self,
            volume_entries: List[VolumeEntry],
            volume_performance_ptrs: np.ndarray,
            stream,
            context,
            path) -> List[VolumeEntry]:

        # parse the entire performance directory
        performances_construct = Pointer(PERFORMANCE_DIRECTORY_AREA_OFFSET,
            SafeListConstruct(
                MAX_NUM_PERFORMANCE,
                DirectoryEntryParser,
            )
        )
        performances = performances_construct._parsereport(stream, context, path)  # type: ignore
        performances = cast(List[DirectoryEntryContainer], performances)
        performances = list(p for p in performances if p.file_type == RolandFileType.PERFORMANCE)

        performance_ptrs = np.array(list(p.index for p in performances))
        if np.size(volume_performance_ptrs, 0) > 0:
            mask = np.isin(performance_ptrs, np.array(volume_performance_ptrs), invert=True)
            orphan_ptrs = performance_ptrs[mask].tolist()
        else:
            orphan_ptrs = performance_ptrs.tolist()

        # create a new pseudo-volume containing the orphans
        if len(volume_entries) == 0:
            volume_name = "All Performances"
        else:
            volume_name = "_Orphan_perf"  # hopefully no name collisions

        constr = UnsizedConstruct(Struct("performance_entries" / Lazy(SafeListConstruct(
            lambda this: len(orphan_ptrs),
            PerformanceEntryAdapter(PerformanceEntryConstruct(
                lambda this: orphan_ptrs[this._index]
            )))
        )))._parsereport(stream, context, path)  # type: ignore
        new_volume = VolumeEntry(
            MAX_NUM_VOLUME,
            volume_name,
            volume_name,
            orphan_ptrs,
            _f_realize_children=ElementAdapter.wrap_child_realization(  # type: ignore
                constr.performance_entries,
                context
            )
        )
        volume_entries.append(new_volume)

        return volume_entries

    def _parse(self, stream, context, path):
        num_performances = evaluate(self.num_performances, context)

        volume_entries = cast(
            List[VolumeEntry],
            self.subcon._parsereport(stream, context, path)  # type: ignore
        )
        volume_performance_ptrs = list((entry.performance_ptrs) for entry in volume_entries)
        if len(volume_performance_ptrs) > 0:
            volume_performance_ptrs = np.concatenate(volume_performance_ptrs)
        else:
            volume_performance_ptrs = np.array([])
        volume_performance_ptrs = np.unique(volume_performance_ptrs)

        # Check for the existance of orphan performances
        if np.size(volume_performance_ptrs, 0) < num_performances:
            volume_entries = self._parse_orphan_performances(
                volume_entries,
                volume_performance_ptrs,
                stream,
                context,
                path
            )

        return volume_entries
# ---------------------------------------------------------------------------


# same field list as smpl_extract.roland.s7xx.image.RolandS7xxImageStruct,
# with the volume list parsed by the ORIGINAL methods
OriginalImageStruct = Struct(
    "id_area" / FixedSized(ID_AREA_SIZE, IdAreaAdapterParser),
    Seek(FAT_AREA_OFFSET),
    "fat_area" / FatAreaParser,
    "fat" / Computed(lambda this: this.fat_area.fat),
    "_dir_version" / Computed(lambda this: this.fat_area.version),
    "volumes" / OriginalVolumeEntriesList(
        lambda this: this.id_area.num_volumes,
        lambda this: this.id_area.num_performances
    )  # type: ignore
)


class SpyStream(_io.BytesIO):
    """BytesIO that records every seek/read so the order of accesses on the
    shared image stream can be compared."""

    def __init__(self, data):
        super().__init__(data)
        self.log = []

    def seek(self, pos, whence=0):
        self.log.append(("seek", pos, whence))
        return super().seek(pos, whence)

    def read(self, size=-1):
        self.log.append(("read", size))
        return super().read(size)


def snapshot(struct, image_bytes):
    """Parse + walk + export; returns everything observable."""
    import contextlib
    import os
    import shutil
    import tempfile
    from smpl_extract.actions import export_samples_to_wav

    stream = SpyStream(image_bytes)
    try:
        image = RolandS7xxImageAdapter(struct).parse_stream(stream)
    except Exception as e:  # noqa
        return ("raise", type(e), str(e))
    parse_log = list(stream.log)
    vols = []
    for v in image.volumes:
        vols.append((v.index, v.directory_name, v.parameter_name,
                     list(v.performance_ptrs), type(v.performance_ptrs),
                     [type(x) for x in v.performance_ptrs]))
    tmp = tempfile.mkdtemp(prefix="s7r4_")
    try:
        out = _io.StringIO()
        with contextlib.redirect_stdout(out):
            export_samples_to_wav(image, tmp)
        files = {}
        for root, _, names in os.walk(tmp):
            for fn in names:
                full = os.path.join(root, fn)
                with open(full, "rb") as f:
                    files[os.path.relpath(full, tmp)] = f.read()
    finally:
        shutil.rmtree(tmp, ignore_errors=True)
    tree = []
    for v in image.volumes:
        for perf in v.children:
            tree.append((v.name, perf.name, perf.path,
                         [(c.name, c.type_name) for c in perf.children]))
    return ("ok", vols, tree, files, out.getvalue(), parse_log,
            list(stream.log))


def make_orphan_case(seed):
    """Images focused on the volume/performance relation."""
    rng = _random.Random(seed)
    img = S7Image(fat_version=rng.choice([1, 2]))
    words = [rng.randint(-32768, 32767) for _ in range(rng.randint(20, 200))]
    n = len(words)
    img.sample(0, "SMPA", words, (0, 1, n - 1, 2, n - 2), seed % 7, seed % 6,
               cluster_top=rng.choice([0, 1]), rng=rng)
    img.sample(1, "SMPB", words[::-1], (2, 3, n - 3, 3, n - 1),
               (seed + 3) % 7, (seed + 1) % 6, rng=rng)
    img.partial(0, "PRTA", [0])
    img.partial(1, "PRTB", [1, 0])
    img.patch(0, "PATA", [0])
    img.patch(1, "PATB", [1])
    n_perf = rng.randint(0, 6)
    pidx = sorted(rng.sample(range(0, 12), n_perf))
    for i in pidx:
        img.performance(i, "PRF%02d" % i, rng.sample([0, 1], rng.randint(1, 2)))
    # junk: a non-performance entry inside the performance directory
    if rng.random() < 0.5:
        j = rng.choice([x for x in range(12, 16)])
        img._dir("perf", j, "JUNK", 0, 0)
        img.counts["perf"] -= 1
        off = DIR_OFF["perf"] + 0x20 * j + 16
        img.buf[off] = rng.choice([0x40, 0x42, 0x00, 0x7f])
    n_vol = rng.randint(0, 3)
    for v in range(n_vol):
        refs = rng.sample(pidx, rng.randint(0, len(pidx))) if pidx else []
        if rng.random() < 0.2:
            refs = refs + [rng.choice([20, 300])]      # dangling pointer
        img.volume(v, "VOL%02d" % v, refs)
    # id-area performance count: exact, too small or too large
    img.counts["perf"] = max(0, img.counts["perf"] + rng.choice([0, 0, -1, 1, -2, 5]))
    return img.tobytes()


DIRECT_STATS = {}


def direct_calls(image_bytes, rng):
    """Call _parse_orphan_performances directly on both classes."""
    bad = 0
    arg_sets = [
        np.array([]), np.array([0]), np.array([0, 1, 2, 3]),
        np.array([0.0, 4.0]), np.array([11, 300]), [], [1, 5],
        np.unique(np.array(rng.sample(range(12), 4))),
    ]
    for ptrs in arg_sets:
        for n_existing in (0, 1):
            results = []
            for cls in (VolumeEntriesList, OriginalVolumeEntriesList):
                stream = SpyStream(image_bytes)
                ctx = Container(_parsing=True, _building=False,
                                _sizing=False, _params=Container(),
                                _dir_version=1)
                existing = []
                if n_existing:
                    existing.append(VolumeEntry(
                        0, "EXIST", "EXIST", [0],
                        _f_realize_children=lambda additions: []))
                inst = cls(0, 0)
                try:
                    res = inst._parse_orphan_performances(
                        existing, ptrs, stream, ctx, "demo")
                    new = res[-1]
                    parse_log = list(stream.log)
                    kids = [(k.name, k.path, k.parameter_name)
                            for k in new.children]
                    results.append((
                        "ok", res is existing, len(res), new.index,
                        new.directory_name, new.parameter_name,
                        new.performance_ptrs,
                        [type(x) for x in new.performance_ptrs],
                        kids, parse_log, list(stream.log)))
                except Exception as e:  # noqa
                    results.append(("raise", type(e), str(e)))
            DIRECT_STATS[results[1][0]] = DIRECT_STATS.get(results[1][0], 0) + 1
            if results[0] != results[1]:
                bad += 1
                print("MISMATCH direct", ptrs, n_existing,
                      results[0][:7], results[1][:7])
    return bad


def differential():
    bad = 0
    n = 0
    kinds = {}
    rng = _random.Random(4)
    for seed in range(120):
        image_bytes = make_orphan_case(seed)
        want = snapshot(OriginalImageStruct, image_bytes)
        got = snapshot(RolandS7xxImageStruct, image_bytes)
        n += 1
        if want[0] == "ok":
            names = tuple(v[1] for v in want[1] if v[0] == MAX_NUM_VOLUME)
            kinds[names] = kinds.get(names, 0) + 1
        else:
            kinds[want[1].__name__] = kinds.get(want[1].__name__, 0) + 1
        if want != got:
            bad += 1
            print("MISMATCH image seed", seed, want[:2], got[:2])
        if seed % 10 == 0:
            bad += direct_calls(image_bytes, rng)
            n += 16
    for seed in range(12):
        image_bytes, _ = make_case(seed)
        want = snapshot(OriginalImageStruct, image_bytes)
        got = snapshot(RolandS7xxImageStruct, image_bytes)
        n += 1
        if want != got:
            bad += 1
            print("MISMATCH general image seed", seed)
    print("differential cases:", n, "mismatches:", bad)
    print("   direct calls by outcome:", DIRECT_STATS)
    for k, v in sorted(kinds.items(), key=str):
        print("   %4d  pseudo-volume: %s" % (v, k if k else "(none)"))
    return bad

# ---------------------------------------------------------------------------
# Independent Roland S-7xx image writer + end-to-end export check
# (shared verbatim by the four demos; uses only the documented disk layout)
# ---------------------------------------------------------------------------
import contextlib
import io
import os
import random
import shutil
import struct
import tempfile
import wave

CLUSTER = 0x2400
FAT_OFF = 0x80800
DATA_FAT_OFF = 0x2b1000
DIR_OFF = {"vol": 0xa0800, "perf": 0xa1800, "patch": 0xa5800,
           "partial": 0xad800, "sample": 0xcd800}
PAR_OFF = {"vol": 0x10d800, "perf": 0x115800, "patch": 0x155800,
           "partial": 0x1d5800, "sample": 0x255800}
PAR_SIZE = {"vol": 0x100, "perf": 0x200, "patch": 0x200,
            "partial": 0x80, "sample": 0x30}
FTYPE = {"vol": 0x40, "perf": 0x41, "patch": 0x42, "partial": 0x43,
         "sample": 0x44}
FREQS = [48000, 44100, 24000, 22050, 30000, 15000]


def _name(s):
    return s.encode("ascii").ljust(16, b"\x00")


def _ptrs(lst, n):
    lst = list(lst) + [-1] * (n - len(lst))
    return struct.pack("<%dh" % n, *lst)


class S7Image:
    def __init__(self, fat_version=1, max_cluster=48):
        self.size = DATA_FAT_OFF + (max_cluster + 1) * CLUSTER
        self.buf = bytearray(self.size)
        self.fat = [0] * 0x10000
        self.fat[0] = 0xfffa
        self.fat[1] = 0x1234
        flag = 0xffff if fat_version == 1 else 0xfffe
        self.fat[0xfffe] = 0xffff
        self.fat[0xffff] = flag
        self.fat_version = fat_version
        self.counts = dict(vol=0, perf=0, patch=0, partial=0, sample=0)
        self.free = list(range(2, max_cluster + 1))

    def _put(self, off, data):
        self.buf[off:off + len(data)] = data

    def _dir(self, kind, idx, name, fat_entry=0, nclus=0):
        link = 0x8000 if self.fat_version == 2 else 0
        rec = _name(name) + struct.pack(
            "<BBHHHIHH", FTYPE[kind], 0, link, link, 0, 0, fat_entry, nclus)
        assert len(rec) == 0x20
        self._put(DIR_OFF[kind] + 0x20 * idx, rec)
        self.counts[kind] += 1

    def _par(self, kind, idx, rec):
        assert len(rec) == PAR_SIZE[kind], (kind, len(rec))
        self._put(PAR_OFF[kind] + PAR_SIZE[kind] * idx, rec)

    def volume(self, idx, name, perfs):
        self._dir("vol", idx, name)
        self._par("vol", idx, _name(name) + bytes(16) + _ptrs(perfs, 64)
                  + bytes(0x60))

    def performance(self, idx, name, patches):
        self._dir("perf", idx, name)
        rec = (_name(name) + bytes(208) + bytes(16) + bytes(16)
               + _ptrs(patches, 32) + bytes(0xC0))
        self._par("perf", idx, rec)

    def patch(self, idx, name, partials):
        self._dir("patch", idx, name)
        rec = (_name(name) + bytes(16) + bytes(96) + bytes(96) + bytes(32)
               + _ptrs(partials, 88) + bytes(0x50))
        self._par("patch", idx, rec)

    def partial(self, idx, name, samples):
        assert len(samples) <= 4
        sel = list(samples) + [-1] * (4 - len(samples))
        sec = [struct.pack("<h", s) + bytes(9) for s in sel]
        rec = (_name(name) + sec[0] + bytes(5) + sec[1] + bytes(5) + sec[2]
               + bytes(5) + sec[3] + bytes(21 + 16 + 9 + 7))
        self._dir("partial", idx, name)
        self._par("partial", idx, rec)

    def sample(self, idx, name, words, points, loop_mode, freq_code,
               cluster_top=0, chain=None, rng=None):
        """words: list of int16 making up the sample's file AFTER the
        cluster_top leading clusters.  points: 5 word addresses."""
        data = struct.pack("<%dh" % len(words), *words)
        nclus = max(1, -(-len(data) // CLUSTER))
        total = nclus + cluster_top
        if chain is None:
            pool = self.free[:]
            if rng is not None:
                rng.shuffle(pool)
            chain = pool[:total]
        assert len(chain) == total
        for c in chain:
            self.free.remove(c)
        for a, b in zip(chain, chain[1:]):
            self.fat[a] = b
        self.fat[chain[-1]] = 0xfff8 + (idx % 8)
        filler = random.Random(idx)
        for c in chain[:cluster_top]:
            self._put(DATA_FAT_OFF + c * CLUSTER,
                      bytes(filler.randrange(256) for _ in range(64)))
        data = data.ljust(nclus * CLUSTER, b"\xEE")
        for k, c in enumerate(chain[cluster_top:]):
            self._put(DATA_FAT_OFF + c * CLUSTER,
                      data[k * CLUSTER:(k + 1) * CLUSTER])
        self._dir("sample", idx, name, chain[0], total)
        pts = b"".join(struct.pack("<I", (p << 8) | (7 * k + 1))
                       for k, p in enumerate(points))
        rec = (_name(name) + pts + struct.pack(
            "<BBBBHHBBH", loop_mode, 1, 0, 0, cluster_top, total,
            freq_code, 60, 0))
        self._par("sample", idx, rec)

    def tobytes(self):
        ida = struct.pack("<I", 1) + b"S770 MR25A" + bytes(2)
        ida += bytes(15) + bytes(1)
        ida += b"S-770 Hard Disk Ver. 1.00".ljust(31, b"\x00") + bytes(1)
        ida += b"Copyright Roland".ljust(31, b"\x00") + bytes(1)
        ida += bytes(160) + _name("DEMO DISK") + struct.pack(
            "<IHHHHH", 0, self.counts["vol"], self.counts["perf"],
            self.counts["patch"], self.counts["partial"],
            self.counts["sample"])
        self._put(0, ida.ljust(0x200, b"\x00"))
        self._put(FAT_OFF, struct.pack("<65536H", *self.fat))
        return bytes(self.buf)


def expected_pcm(words, points, loop_mode):
    start, s_start, s_end, r_start, r_end = points
    end = r_end if loop_mode in (1, 3) else s_end
    pcm = words[start:end + 1]
    if loop_mode in (5, 6):
        pcm = pcm[::-1]
    return struct.pack("<%dh" % len(pcm), *pcm)


def make_case(seed):
    """Random well-formed image + the set of (relative wav path -> pcm, rate)
    that `export` must produce."""
    rng = random.Random(seed)
    img = S7Image(fat_version=rng.choice([1, 2]))
    n_samples = rng.randint(3, 6)
    sample_info = {}
    for s in range(n_samples):
        sidx = s * 3 + rng.randint(0, 2)
        kind = rng.randrange(4)
        if kind == 0:
            n_words = (CLUSTER // 2) * rng.randint(1, 3)  # fills last cluster
        elif kind == 1:
            n_words = rng.randint(8, 64)
        else:
            n_words = rng.randint(64, CLUSTER + 500)
        words = [rng.randint(-32768, 32767) for _ in range(n_words)]
        start = rng.randint(0, min(5, n_words - 4))
        if kind == 0:
            start = rng.choice([0, start])
        pts = sorted(rng.randint(start, n_words - 1) for _ in range(4))
        s_start, s_end, r_start, r_end = pts
        if kind == 0 or rng.random() < 0.3:
            s_end = r_end = n_words - 1      # window ends on last word
            s_start = min(s_start, s_end)
            r_start = min(r_start, r_end)
        points = (start, s_start, s_end, r_start, r_end)
        mode = (seed + s) % 7
        fcode = (seed // 7 + s) % 6
        top = rng.choice([0, 0, 1, 2])
        name = "SMP%02d" % sidx
        img.sample(sidx, name, words, points, mode, fcode, cluster_top=top,
                   rng=rng)
        sample_info[sidx] = (name, expected_pcm(words, points, mode),
                             FREQS[fcode])
    sidxs = sorted(sample_info)
    # partials
    n_partials = rng.randint(2, 4)
    partials = {}
    for p in range(n_partials):
        pidx = 5 * p + rng.randint(0, 4)
        refs = rng.sample(sidxs, rng.randint(1, min(4, len(sidxs))))
        partials[pidx] = refs
        img.partial(pidx, "PRT%02d" % pidx, refs)
    pidxs = sorted(partials)
    n_patches = rng.randint(2, 3)
    patches = {}
    for q in range(n_patches):
        qidx = 4 * q + rng.randint(0, 3)
        refs = rng.sample(pidxs, rng.randint(1, len(pidxs)))
        patches[qidx] = refs
        img.patch(qidx, "PAT%02d" % qidx, refs)
    qidxs = sorted(patches)
    n_perfs = rng.randint(1, 3)
    perfs = {}
    for r in range(n_perfs):
        ridx = 3 * r + rng.randint(0, 2)
        refs = rng.sample(qidxs, rng.randint(1, len(qidxs)))
        perfs[ridx] = refs
        img.performance(ridx, "PRF%02d" % ridx, refs)
    ridxs = sorted(perfs)
    layout = seed % 3           # 0: all in volumes, 1: some orphan, 2: no vol
    vols = {}
    if layout == 0:
        vols[0] = ridxs
        if len(ridxs) > 1:
            vols[1] = ridxs[:1]                      # shared performance
    elif layout == 1 and len(ridxs) > 1:
        vols[0] = ridxs[:-1]
    elif layout == 1:
        vols[0] = ridxs
    for vidx, refs in vols.items():
        img.volume(vidx, "VOL%02d" % vidx, refs)
    in_vol = set(x for refs in vols.values() for x in refs)
    orphans = [r for r in ridxs if r not in in_vol]
    vol_map = {"VOL%02d" % v: refs for v, refs in vols.items()}
    if orphans:
        vol_map["_Orphan_perf" if vols else "All Performances"] = orphans
    expected = {}
    for vname, refs in vol_map.items():
        for ridx in refs:
            # the exporter lists a sample once per patch that uses it and
            # disambiguates the repeats as "NAME (2)", "NAME (3)", ...
            used = {}
            for qidx in perfs[ridx]:
                in_patch = set()
                for pidx in patches[qidx]:
                    in_patch.update(partials[pidx])
                for sidx in in_patch:
                    used[sidx] = used.get(sidx, 0) + 1
            for sidx, count in used.items():
                name, pcm, rate = sample_info[sidx]
                for k in range(1, count + 1):
                    suffix = "" if k == 1 else " (%d)" % k
                    rel = "%s/PRF%02d/%s%s.wav" % (vname, ridx, name, suffix)
                    expected[rel] = (pcm, rate)
    return img.tobytes(), expected


def run_export(image_bytes):
    """Run the real `export` on the image; return ({relpath: (pcm, rate)},
    sorted stdout lines)."""
    from smpl_extract.actions import export_samples_to_wav
    tmp = tempfile.mkdtemp(prefix="s7demo_")
    try:
        img_path = os.path.join(tmp, "disk.img")
        with open(img_path, "wb") as f:
            f.write(image_bytes)
        dest = os.path.join(tmp, "out")
        os.mkdir(dest)
        out = io.StringIO()
        with contextlib.redirect_stdout(out):
            export_samples_to_wav(img_path, dest)
        got = {}
        for root, _, files in os.walk(dest):
            for fn in files:
                full = os.path.join(root, fn)
                rel = os.path.relpath(full, dest).replace(os.sep, "/")
                with wave.open(full, "rb") as w:
                    assert w.getnchannels() == 1 and w.getsampwidth() == 2
                    got[rel] = (w.readframes(w.getnframes()),
                                w.getframerate())
        return got, sorted(out.getvalue().splitlines())
    finally:
        shutil.rmtree(tmp, ignore_errors=True)


def end_to_end_check(seeds):
    """Returns number of mismatching images."""
    bad = 0
    for seed in seeds:
        image_bytes, expected = make_case(seed)
        got, lines = run_export(image_bytes)
        want_lines = sorted("Exported " + k for k in expected)
        if got != expected or lines != want_lines:
            bad += 1
            print("END-TO-END MISMATCH seed", seed)
            print("  missing:", sorted(set(expected) - set(got)))
            print("  extra  :", sorted(set(got) - set(expected)))
            print("  differ :", sorted(k for k in expected
                                      if k in got and got[k] != expected[k]))
    return bad
# ---------------------------------------------------------------------------


def main():
    bad = differential()
    bad += end_to_end_check(range(42))
    print("end-to-end images checked: 42")
    if bad:
        print("FAIL")
        return 1
    print("OK")
    return 0


if __name__ == "__main__":
    sys.exit(main())
