"""Equivalence demo for r24 (smpl_extract/roland/s7xx/sample_entry.py, the
SampleParamEntryStruct declaration).

SampleParamEntryStruct is the 48 byte parameter record of one Roland sample.
SampleEntryConstruct(index) reads it through a Pointer, and
SampleEntryReferenceAdapter._parse builds such a construct for each of the four
sample slots of a partial inside the tolerant loop of
PartialEntryAdapter._parse (smpl_extract/roland/s7xx/partial_entry.py:357-364),
which drops exactly the samples whose record does not parse (for example a
sampling frequency nibble above 5, for which the mapping has no entry).

The refactoring (three idioms combined)
  * replaces the two dict literals that spell out an IntEnum member by member
    (loop_mode: RolandLoopMode, sample_mode: RolandSampleMode) by dict
    comprehensions over the enum (`{mode: mode.value for mode in ...}`),
  * hoists the six sampling rates into a module-level tuple
    _SAMPLING_FREQUENCIES and
  * builds the rate -> code dict with dict(zip(TUPLE, range(len(TUPLE)))).

The ORIGINAL declaration is rebuilt inline and compared with the live one.

 A. structure: names and types of all subcons; for the three MappingDefault
    fields the encoding and decoding dicts item by item (order, value, type,
    identity of enum members) and the defaults; sizeof.
 B. parsing: every value of every one of the 48 bytes of a record, random
    records, truncated records, different _index values, a missing _index.
    Compared: all fields (value and type) or error type / text, stream
    position.  Encoding of the three mapping fields (_encode) for members,
    ints, rates and unknown values.
 C. end to end: a synthetic Roland image (sample directory + parameter areas,
    partial directory + parameter areas).  Samples are read through
    SampleEntryAdapter(SampleEntryConstruct(i)) and partials through
    PartialEntryAdapter(PartialEntryConstruct(i)) (the tolerant four slot
    loop), once with the original struct patched into the module and once with
    the live one, for the damage of property C14: every value of every byte
    of one sample's parameter record and of the frequency / loop mode bytes of
    its neighbours, damaged directory records, random multi-byte damage.
    Compared: the entries (all fields, names, paths), the calls made to the
    FAT, errors, and the trace of every seek/read/tell on the image stream.

Exit 0 when everything agrees, 1 otherwise.
"""
import dataclasses
import io
import random
import struct
import sys

from construct.core import Bitwise
from construct.core import Computed
from construct.core import Int16ul
from construct.core import Int8ul
from construct.core import Nibble
from construct.core import PaddedString
from construct.core import Padding
from construct.core import Struct
from construct.lib.containers import Container
from construct.lib.containers import ListContainer

import smpl_extract.roland.s7xx.sample_entry as se
from smpl_extract.roland.s7xx.data_types import PARTIAL_DIRECTORY_AREA_OFFSET
from smpl_extract.roland.s7xx.data_types import PARTIAL_DIRECTORY_ENTRY_SIZE
from smpl_extract.roland.s7xx.data_types import PARTIAL_PARAMETER_AREA_OFFSET
from smpl_extract.roland.s7xx.data_types import PARTIAL_PARAMETER_ENTRY_SIZE
from smpl_extract.roland.s7xx.data_types import RolandLoopMode
from smpl_extract.roland.s7xx.data_types import RolandSampleMode
from smpl_extract.roland.s7xx.data_types import SAMPLE_DIRECTORY_AREA_OFFSET
from smpl_extract.roland.s7xx.data_types import SAMPLE_DIRECTORY_ENTRY_SIZE
from smpl_extract.roland.s7xx.data_types import SAMPLE_PARAMETER_AREA_OFFSET
from smpl_extract.roland.s7xx.data_types import SAMPLE_PARAMETER_ENTRY_SIZE
from smpl_extract.roland.s7xx.partial_entry import PartialEntry
from smpl_extract.roland.s7xx.partial_entry import PartialEntryAdapter
from smpl_extract.roland.s7xx.partial_entry import PartialEntryConstruct
from smpl_extract.roland.s7xx.sample_entry import RolandMidiNote
from smpl_extract.roland.s7xx.sample_entry import SampleEntry
from smpl_extract.roland.s7xx.sample_entry import SampleEntryAdapter
from smpl_extract.roland.s7xx.sample_entry import SampleEntryConstruct
from smpl_extract.roland.s7xx.sample_entry import SampleParamLoopPointParser
from smpl_extract.util.constructs import MappingDefault


# ---------------------------------------------------------------- original
ORIG = Struct(
    "name"                  / PaddedString(16, encoding="ascii"),
    "index"                 / Computed(lambda this: this._index),
    "start_sample"          / SampleParamLoopPointParser,
    "sustain_loop_start"    / SampleParamLoopPointParser,
    "sustain_loop_end"      / SampleParamLoopPointParser,
    "release_loop_start"    / SampleParamLoopPointParser,
    "release_loop_end"      / SampleParamLoopPointParser,
    "loop_mode"             / MappingDefault(
        Int8ul,
        {
            RolandLoopMode.FORWARD_END:         0,
            RolandLoopMode.FORWARD_RELEASE:     1,
            RolandLoopMode.ONESHOT:             2,
            RolandLoopMode.FORWARD_ONESHOT:     3,
            RolandLoopMode.ALTERNATE:           4,
            RolandLoopMode.REVERSE_ONESHOT:     5,
            RolandLoopMode.REVERSE_LOOP:        6
        },
        (RolandLoopMode.FORWARD_END, 0)
    ),
    "sustain_loop_enable"   / Int8ul,
    "sustain_loop_tune"     / Int8ul,
    "release_loop_tune"     / Int8ul,
    "cluster_top"           / Int16ul,
    "num_clusters"          / Int16ul,
    "sample_options"        / Bitwise(Struct(
        "sample_mode"       /\
            MappingDefault(
                Nibble,
                {
                    RolandSampleMode.MONO:      0,
                    RolandSampleMode.STEREO:    1
                },
                (RolandSampleMode.MONO, 0)
            ),
        "sampling_frequency" /\
            MappingDefault(
                Nibble,
                {
                    48000: 0,
                    44100: 1,
                    24000: 2,
                    22050: 3,
                    30000: 4,
                    15000: 5
                }
            )
    )),
    "original_key"          / RolandMidiNote(Int8ul),
    Padding(2)
)

LIVE = se.SampleParamEntryStruct
IMPLS = (ORIG, LIVE)

failures = []
checked = 0


def check(cond, msg):
    global checked
    checked += 1
    if not cond:
        failures.append(msg)


class patched:
    def __init__(self, construct):
        self.construct = construct

    def __enter__(self):
        se.SampleParamEntryStruct = self.construct

    def __exit__(self, *exc):
        se.SampleParamEntryStruct = LIVE
        return False


def both(fn, *args, **kw):
    out = []
    for impl in IMPLS:
        with patched(impl):
            out.append(fn(*args, **kw))
    return out


def outcome(fn, *args, **kw):
    try:
        value = fn(*args, **kw)
    except BaseException as e:  # noqa: B902
        return ("raise", type(e), str(e).split("\n")[0], type(e.__cause__))
    return ("ok", type(value), value)


# ---------------------------------------------------------------- part A
def mapping_shape(m):
    enc = [(type(k).__name__, repr(k), type(v).__name__, v) for k, v in m.encmapping.items()]
    dec = [(type(k).__name__, k, type(v).__name__, repr(v)) for k, v in m.decmapping.items()]
    ident = [v is type(v)(int(v)) for v in m.decmapping.values() if not type(v) is int]
    return (type(m).__name__, type(m.subcon).__name__, repr(m.subcon), enc, dec, ident,
            repr(m.default_decode), repr(m.default_encode), type(m.default_decode).__name__,
            type(m.encmapping).__name__, type(m.decmapping).__name__)


def shape(construct, depth=0):
    out = [type(construct).__name__, construct.name, construct.docs, construct.flagbuildnone]
    if isinstance(construct, MappingDefault):
        out.append(mapping_shape(construct))
    elif hasattr(construct, "subcons"):
        out.append([shape(sc, depth + 1) for sc in construct.subcons])
    elif hasattr(construct, "subcon") and depth < 8:
        out.append(shape(construct.subcon, depth + 1))
    return out


def find(construct, name):
    if getattr(construct, "name", None) == name:
        return construct
    for sc in getattr(construct, "subcons", []) or []:
        hit = find(sc, name)
        if hit is not None:
            return hit
    if hasattr(construct, "subcon"):
        return find(construct.subcon, name)
    return None


def inner_mapping(construct, name):
    hit = find(construct, name)
    while not isinstance(hit, MappingDefault):
        hit = hit.subcon
    return hit


def part_a():
    a, b = shape(ORIG), shape(LIVE)
    check(a == b, f"A shape: {a} != {b}")
    check(outcome(ORIG.sizeof) == outcome(LIVE.sizeof) == ("ok", int, 48), "A sizeof")
    for name in ("loop_mode", "sample_mode", "sampling_frequency"):
        ma, mb = inner_mapping(ORIG, name), inner_mapping(LIVE, name)
        check(mapping_shape(ma) == mapping_shape(mb), f"A mapping {name}")
        check(ma.encmapping == mb.encmapping and ma.decmapping == mb.decmapping
              and list(ma.encmapping) == list(mb.encmapping), f"A dicts {name}")
    m = inner_mapping(LIVE, "loop_mode")
    check([(k, v, type(v)) for k, v in m.encmapping.items()]
          == [(RolandLoopMode(i), i, int) for i in range(7)], f"A loop modes {m.encmapping}")
    check(all(m.decmapping[i] is RolandLoopMode(i) for i in range(7)), "A loop members")
    m = inner_mapping(LIVE, "sample_mode")
    check(list(m.encmapping.items()) == [(RolandSampleMode.MONO, 0), (RolandSampleMode.STEREO, 1)]
          and all(type(v) is int for v in m.encmapping.values()), f"A sample modes {m.encmapping}")
    m = inner_mapping(LIVE, "sampling_frequency")
    check(list(m.encmapping.items()) == [(48000, 0), (44100, 1), (24000, 2), (22050, 3),
                                         (30000, 4), (15000, 5)]
          and all(type(k) is int and type(v) is int for k, v in m.encmapping.items())
          and m.default_decode is None and m.default_encode is None,
          f"A frequencies {m.encmapping}")


# ---------------------------------------------------------------- part B
def plain(value):
    if isinstance(value, Container):
        return ("Container", [(k, plain(v)) for k, v in value.items() if k != "_io"])
    if isinstance(value, (list, ListContainer)):
        return ("list", [plain(v) for v in value])
    if dataclasses.is_dataclass(value):
        return (type(value).__name__, [(f.name, plain(getattr(value, f.name)))
                                       for f in dataclasses.fields(value)])
    return (type(value).__name__, repr(value), str(value))


def parse_record(construct, data, **ctx):
    stream = io.BytesIO(data)
    try:
        value = construct.parse_stream(stream, **ctx)
    except BaseException as e:  # noqa: B902
        return ("raise", type(e), str(e).split("\n")[0], type(e.__cause__), stream.tell())
    return ("ok", plain(value), stream.tell())


def param_record(name, loop_mode, cluster_top, nclusters, options, key):
    rec = name.ljust(16, "\0").encode("ascii")
    for point in (0x100, 0x2000, 0x30FF, 0x4000, 0x5001):
        rec += struct.pack("<I", point)
    rec += bytes([loop_mode, 1, 2, 3]) + struct.pack("<HH", cluster_top, nclusters)
    rec += bytes([options, key, 0, 0])
    assert len(rec) == SAMPLE_PARAMETER_ENTRY_SIZE, len(rec)
    return rec


def part_b():
    rng = random.Random(0x24B)
    base = param_record("PARAM", 2, 1, 3, 0x11, 60)
    n_ok = 0
    for off in range(48):
        for value in range(256):
            d = bytearray(base)
            d[off] = value
            a = parse_record(ORIG, bytes(d) + b"\xEE" * 4, _index=3)
            b = parse_record(LIVE, bytes(d) + b"\xEE" * 4, _index=3)
            check(a == b, f"B [{off}]={value:#x}: {str(a)[:300]} != {str(b)[:300]}")
            n_ok += a[0] == "ok"
    check(0 < n_ok < 48 * 256, f"B both outcomes occur ({n_ok})")
    for _ in range(3000):
        d = bytes(rng.getrandbits(8) for _ in range(48))
        if rng.random() < 0.7:
            d = bytes(rng.choice(b"ABC xyz019") for _ in range(16)) + d[16:]
        idx = rng.choice((0, 1, 77, 0x1FFF, -4, None, "i"))
        a, b = parse_record(ORIG, d, _index=idx), parse_record(LIVE, d, _index=idx)
        check(a == b, f"B random: {str(a)[:300]} != {str(b)[:300]}")
    for cut in range(49):
        a, b = parse_record(ORIG, base[:cut], _index=0), parse_record(LIVE, base[:cut], _index=0)
        check(a == b and (a[0] == "ok") == (cut == 48), f"B cut {cut}: {a} != {b}")
    a, b = parse_record(ORIG, base), parse_record(LIVE, base)
    check(a == b, f"B no _index: {a} != {b}")
    # frequency nibble / mode nibble / loop mode byte, all values
    for value in range(256):
        for off in (36, 44):
            d = bytearray(base)
            d[off] = value
            res = parse_record(LIVE, bytes(d), _index=0)
            if off == 44:
                check((res[0] == "ok") == ((value & 0x0F) < 6), f"B options {value:#x}: {res[:2]}")
            else:
                check(res[0] == "ok", f"B loop mode {value:#x}: {res[:2]}")
    # the encoding direction of the three mappings
    objs = list(RolandLoopMode) + list(RolandSampleMode) + list(range(-2, 10)) + [
        48000, 44100, 24000, 22050, 30000, 15000, 11025, 48000.0, "48000", None, True, (), []]
    for name in ("loop_mode", "sample_mode", "sampling_frequency"):
        ma, mb = inner_mapping(ORIG, name), inner_mapping(LIVE, name)
        for obj in objs:
            a = outcome(ma._encode, obj, {}, "p")
            b = outcome(mb._encode, obj, {}, "p")
            check(a == b, f"B encode {name} {obj!r}: {a} != {b}")
            a = outcome(ma._decode, obj, {}, "p")
            b = outcome(mb._decode, obj, {}, "p")
            check(a == b and (a[0] == "raise" or a[2] is b[2] or type(a[2]) is int),
                  f"B decode {name} {obj!r}: {a} != {b}")


# ---------------------------------------------------------------- part C
class TracingFile(io.BytesIO):

    def __init__(self, data):
        super().__init__(data)
        self.trace = []

    def tell(self):
        pos = super().tell()
        self.trace.append(("tell", pos))
        return pos

    def seek(self, *args):
        pos = super().seek(*args)
        self.trace.append(("seek", args, pos))
        return pos

    def read(self, *args):
        data = super().read(*args)
        self.trace.append(("read", args, len(data)))
        return data


class FakeFat:
    def __init__(self, log, bad=()):
        self.log = log
        self.bad = set(bad)

    def get_file(self, *args, **kwargs):
        self.log.append(("get_file", args, sorted(kwargs.items())))
        if args and args[0] in self.bad:
            raise IndexError("no such chain %r" % (args[0],))
        return ("file", args, tuple(sorted(kwargs.items())))


class Parent:
    path = ["IMG", "PERF", "PATCH"]


def parse_context(stream, **items):
    """a context container carrying what Construct.parse_stream / Struct._parse
    put into theirs"""
    c = Container(**items)
    c._params = items.get("_", c).get("_params", c) if isinstance(items.get("_"), Container) else c
    c._root = c._params
    c._parsing = True
    c._building = False
    c._sizing = False
    c._subcons = None
    c._io = stream
    return c


def describe_sample(entry, parent=None):
    if not isinstance(entry, SampleEntry):
        return ("not-a-sample-entry", type(entry))
    out = []
    for f in dataclasses.fields(entry):
        v = getattr(entry, f.name)
        if f.name == "_parent":
            v = ("parent", v is parent, type(v).__name__)
        out.append((f.name, type(v).__name__, repr(v), str(v)))
    out.append(("name", entry.name))
    out.append(("path", list(entry.path)))
    return out


def dir_record(name, ftype, fat_entry, nclusters, attrs=0, fwd=0, back=0, link=0,
               reserved=0):
    rec = name.ljust(16, "\0").encode("ascii") + bytes([ftype, attrs]) \
        + struct.pack("<HHHIHH", fwd, back, link, reserved, fat_entry, nclusters)
    assert len(rec) == 32
    return rec


def partial_record(name, selections):
    rec = bytearray(PARTIAL_PARAMETER_ENTRY_SIZE)
    rec[:16] = name.ljust(16, "\0").encode("ascii")
    for slot, sel in zip((16, 32, 48, 64), selections):
        rec[slot:slot + 2] = struct.pack("<h", sel)
        rec[slot + 2:slot + 11] = bytes([slot + k for k in range(9)])
    return bytes(rec)


NUM = 6
IMAGE_SIZE = SAMPLE_PARAMETER_AREA_OFFSET + SAMPLE_PARAMETER_ENTRY_SIZE * (NUM + 2)
PARTIALS = [(0, 1, 2, 3), (2, -1, 4, 2), (5, 5, 0x1FFF, -1), (-1, -1, -1, -1), (7, 0x2000, 1, 0)]


def make_image():
    buf = bytearray(IMAGE_SIZE)
    for i in range(NUM):
        d = dir_record("SAMPLE %d" % i, 0x44, 10 + i, 3, fwd=0x8000 + i, back=0x8010 + i)
        off = SAMPLE_DIRECTORY_AREA_OFFSET + i * SAMPLE_DIRECTORY_ENTRY_SIZE
        buf[off:off + len(d)] = d
        p = param_record("PARAM %d" % i, i % 7, i % 3, 3, (i % 6) | ((i % 2) << 4), 60 + i)
        off = SAMPLE_PARAMETER_AREA_OFFSET + i * SAMPLE_PARAMETER_ENTRY_SIZE
        buf[off:off + len(p)] = p
    for i, selections in enumerate(PARTIALS):
        d = dir_record("PARTIAL %d" % i, 0x43, 0, 0)
        off = PARTIAL_DIRECTORY_AREA_OFFSET + i * PARTIAL_DIRECTORY_ENTRY_SIZE
        buf[off:off + len(d)] = d
        p = partial_record("PPARAM %d" % i, selections)
        off = PARTIAL_PARAMETER_AREA_OFFSET + i * PARTIAL_PARAMETER_ENTRY_SIZE
        buf[off:off + len(p)] = p
    return buf


def run_sample(data, index, dir_version=None):
    stream = TracingFile(bytes(data))
    log = []
    fat = FakeFat(log, bad=(0xFFFF,))
    parent = Parent()
    up = parse_context(stream, _elem_parent=parent, _elem_routines={}, fat=fat)
    context = parse_context(stream, _=up, _index=index)
    if dir_version is not None:
        up["_dir_version"] = dir_version
    adapter = SampleEntryAdapter(SampleEntryConstruct(index))
    try:
        entry = adapter._parse(stream, context, "demo")
    except BaseException as e:  # noqa: B902
        return ("raise", type(e), str(e).split("\n")[0], list(log), list(stream.trace))
    return ("ok", describe_sample(entry, parent), list(log), list(stream.trace))


def run_partial(data, index, dir_version=None):
    """the tolerant four slot loop of PartialEntryAdapter._parse"""
    stream = TracingFile(bytes(data))
    log = []
    fat = FakeFat(log, bad=(0xFFFF,))
    parent = Parent()
    up = parse_context(stream, _elem_parent=parent, _elem_routines={}, fat=fat)
    context = parse_context(stream, _=up, _index=index)
    if dir_version is not None:
        up["_dir_version"] = dir_version
    adapter = PartialEntryAdapter(PartialEntryConstruct(index))
    try:
        partial = adapter._parse(stream, context, "demo")
    except BaseException as e:  # noqa: B902
        return ("raise", type(e), str(e).split("\n")[0], list(log), list(stream.trace))
    if not isinstance(partial, PartialEntry):
        return ("not-a-partial", type(partial))
    refs = []
    for ref in partial.sample_entry_references:
        refs.append((describe_sample(ref.sample_entry), ref.pitch_kf, ref.sample_level, ref.pan,
                     ref.coarse_tune, ref.fine_tune, ref.smt_velocity_lower,
                     ref.smt_velocity_upper, ref.smt_fade_with_lower, ref.smt_fade_with_upper))
    children = outcome(lambda: [describe_sample(s, partial) for s in partial.sample_entries])
    return ("ok", partial.name, partial.parameter_name, list(partial.path), refs, children,
            list(log), list(stream.trace))


def part_c():
    rng = random.Random(0x24C)
    good = make_image()
    for index in list(range(NUM + 2)) + [0x1FFF, 0x2000, -1]:
        for dv in (None, 1, 2):
            a, b = both(run_sample, good, index, dv)
            check(a == b, f"C sample good idx={index} {dv}: {str(a)[:300]} != {str(b)[:300]}")
    for index in list(range(len(PARTIALS) + 1)) + [0xFFF, 0x1000, -1]:
        for dv in (None, 2):
            a, b = both(run_partial, good, index, dv)
            check(a == b, f"C partial good idx={index} {dv}: {str(a)[:300]} != {str(b)[:300]}")
    a, b = both(run_sample, good[:SAMPLE_PARAMETER_AREA_OFFSET + 60], 1, 2)
    check(a == b, "C sample truncated")
    a, b = both(run_partial, good[:SAMPLE_PARAMETER_AREA_OFFSET + 60], 0, 2)
    check(a == b, "C partial truncated")

    target = 2
    doff = SAMPLE_DIRECTORY_AREA_OFFSET + target * SAMPLE_DIRECTORY_ENTRY_SIZE
    poff = SAMPLE_PARAMETER_AREA_OFFSET + target * SAMPLE_PARAMETER_ENTRY_SIZE
    few = (0x00, 0x06, 0x44, 0x80, 0xFF)
    # every value of every byte of sample 2's parameter record
    for off in range(SAMPLE_PARAMETER_ENTRY_SIZE):
        for value in range(256):
            d = bytearray(good)
            d[poff + off] = value
            a, b = both(run_sample, d, target, 2)
            check(a == b, f"C sample param+{off}={value:#x}: {str(a)[:300]} != {str(b)[:300]}")
            if off in (0, 36, 44) or value in few:
                for pidx in (0, 1):      # partials 0 and 1 both use sample 2
                    a, b = both(run_partial, d, pidx, 2)
                    check(a == b, f"C partial {pidx} param+{off}={value:#x}: "
                                  f"{str(a)[:300]} != {str(b)[:300]}")
    # the loop mode and options bytes of the neighbours
    for neighbour in (0, 1, 3, 5):
        noff = SAMPLE_PARAMETER_AREA_OFFSET + neighbour * SAMPLE_PARAMETER_ENTRY_SIZE
        for off in (36, 44):
            for value in range(0, 256, 3):
                d = bytearray(good)
                d[noff + off] = value
                a, b = both(run_partial, d, 0, None)
                check(a == b, f"C partial 0 neighbour {neighbour}+{off}={value:#x}")
                a, b = both(run_partial, d, 2, 1)
                check(a == b, f"C partial 2 neighbour {neighbour}+{off}={value:#x}")
    # directory record of the sample
    for off in range(SAMPLE_DIRECTORY_ENTRY_SIZE):
        for value in few:
            d = bytearray(good)
            d[doff + off] = value
            a, b = both(run_sample, d, target, 2)
            check(a == b, f"C sample dir+{off}={value:#x}: {str(a)[:300]} != {str(b)[:300]}")
            a, b = both(run_partial, d, 1, 2)
            check(a == b, f"C partial dir+{off}={value:#x}: {str(a)[:300]} != {str(b)[:300]}")
    for _ in range(300):
        d = bytearray(good)
        base, width = rng.choice([(doff, SAMPLE_DIRECTORY_ENTRY_SIZE),
                                  (poff, SAMPLE_PARAMETER_ENTRY_SIZE)])
        for _ in range(rng.randrange(2, 10)):
            d[base + rng.randrange(width)] = rng.getrandbits(8)
        a, b = both(run_sample, d, target, rng.choice((None, 1, 2)))
        check(a == b, f"C sample random damage: {str(a)[:300]} != {str(b)[:300]}")
        a, b = both(run_partial, d, rng.choice((0, 1)), 2)
        check(a == b, f"C partial random damage: {str(a)[:300]} != {str(b)[:300]}")

    # expectations, independent of the inline copy
    res = run_sample(good, 2, 2)
    check(res[0] == "ok", f"C good sample parses: {str(res)[:300]}")
    if res[0] == "ok":
        d = {x[0]: x[-1] for x in res[1]}
        check(d["directory_name"] == "SAMPLE 2" and d["parameter_name"] == "PARAM 2"
              and d["path"] == Parent.path + ["SAMPLE 2"] and d["sampling_frequency"] == "24000"
              and d["loop_mode"] == "Oneshot" and d["sample_mode"] == "Mono",
              f"C sample 2 fields {d}")
        check(res[2] == [("get_file", (12,), [("cluster_offset", 2)])], f"C fat calls {res[2]}")
    res = run_partial(good, 0, 2)
    check(res[0] == "ok" and [dict((x[0], x[-1]) for x in r[0])["directory_name"] for r in res[4]]
          == ["SAMPLE 0", "SAMPLE 1", "SAMPLE 2", "SAMPLE 3"], f"C partial 0: {str(res)[:300]}")
    d = bytearray(good)
    d[poff + 44] = 0x07            # no such sampling frequency
    res = run_sample(d, 2, 2)
    check(res[0] == "raise", f"C unknown frequency raises for that sample: {res[:3]}")
    res = run_partial(d, 0, 2)
    check(res[0] == "ok" and [dict((x[0], x[-1]) for x in r[0])["directory_name"] for r in res[4]]
          == ["SAMPLE 0", "SAMPLE 1", "SAMPLE 3"], f"C only that sample disappears: {str(res)[:300]}")


def main():
    check(se.SampleParamEntryStruct is LIVE and ORIG is not LIVE, "setup")
    part_a()
    part_b()
    part_c()
    check(se.SampleParamEntryStruct is LIVE, "module restored")
    print(f"{checked} checks, {len(failures)} failures")
    for msg in failures[:15]:
        print("FAIL:", msg[:600])
    return 1 if failures else 0


if __name__ == "__main__":
    sys.exit(main())
