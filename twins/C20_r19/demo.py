"""Equivalence evidence for r19: smpl_extract/akai/keygroup.py, the
KeygroupConstruct declaration (150-byte AKAI keygroup record).

The refactoring replaces the ten context lambdas of the declaration
(`lambda this: this.num_velocity_zones`, `lambda this:
this.num_active_velocity_zones`, `len_(lambda this: this.velocity_zones)`) by
construct expression objects built from `this`, and spells the three
`X[count]` arrays inside the SlicingGeneral fields as `Array(count, X)`.

An inline copy of the ORIGINAL declaration is compared with the live one:
  1. parsing 6000 random keygroup records with 0..6 stored velocity zones
     (blank / valid / invalid zone names): every field with its exact type and
     str(), key order, stream position - or the same exception type, message
     and stream position; also every truncation of a record;
  2. building: the containers of tests/test_akai.py (incl. the too-many-zones
     RangeError), random KeygroupContainers and every parsed container rebuilt
     crosswise; sizeof();
  3. KeygroupAdapter on the parsed containers, and 400 whole programs (1..5
     linked keygroups, 0..4 active zones) through ProgramParser and through a
     ProgramParser assembled around the ORIGINAL declaration: itemised tree
     and the text `ls` prints.
Exit 0 = all agree, 1 = a difference was found.
"""
import io
import random
import struct
import sys

from construct.core import Computed
from construct.core import Default
from construct.core import FocusedSeq
from construct.core import If
from construct.core import Int16sl
from construct.core import Int16ul
from construct.core import Int8sl
from construct.core import Int8ul
from construct.core import Padding
from construct.core import Seek
from construct.core import Struct
from construct.expr import len_
from construct.expr import this

from smpl_extract.akai.data_types import AkaiMidiNote
from smpl_extract.akai.data_types import AkaiTuneCents
from smpl_extract.akai.keygroup import KeygroupAdapter
from smpl_extract.akai.keygroup import KeygroupConstruct
from smpl_extract.akai.keygroup import KeygroupContainer
from smpl_extract.akai.keygroup import VelocityZoneConstruct
from smpl_extract.akai.keygroup import VelocityZoneContainer
from smpl_extract.akai.keygroup import _next_keygroup_address
from smpl_extract.akai.program import ProgramAdapter
from smpl_extract.akai.program import ProgramHeaderConstruct
from smpl_extract.akai.program import ProgramParser
from smpl_extract.akai.program import _has_next_keygroup
from smpl_extract.akai.program import _has_valid_first_keygroup
from smpl_extract.util.constructs import BoolConstruct
from smpl_extract.util.constructs import PaddedGeneral
from smpl_extract.util.constructs import SlicingGeneral


# --------------------------------------------------------------------------
# inline copy of the ORIGINAL declaration
# --------------------------------------------------------------------------
OrigKeygroupConstruct = Struct(
    "block_id"                          / Int8ul,
    "next_keygroup_address"             / Default(Int16ul, 
                                            _next_keygroup_address
                                        ),
    "low_key"                           / AkaiMidiNote(Int8ul),
    "high_key"                          / AkaiMidiNote(Int8ul),
    "tune_cents"                        / AkaiTuneCents(Int8sl),
    "tune_semitones"                    / Int8sl,
    "filter_cutoff"                     / Int8ul,
    "key_to_filter_cutoff"              / Int8ul,
    "velocity_to_filter_cutoff"         / Int8sl,
    "pressure_to_filter_cutoff"         / Int8sl,
    "env2_to_filter_cutoff"             / Int8sl,
    "env1_attack"                       / Int8ul,
    "env1_decay"                        / Int8ul,
    "env1_sustain"                      / Int8ul,
    "env1_release"                      / Int8ul,
    "env1_velocity_to_attack"           / Int8sl,
    "env1_velocity_to_release"          / Int8sl,
    "env1_off_velocity_to_release"      / Int8sl,
    "env1_key_to_decay_and_release"     / Int8sl,
    "env2_attack"                       / Int8ul,
    "env2_decay"                        / Int8ul,
    "env2_sustain"                      / Int8ul,
    "env2_release"                      / Int8ul,
    "env2_velocity_to_attack"           / Int8sl,
    "env2_velocity_to_release"          / Int8sl,
    "env2_off_velocity_to_release"      / Int8sl,
    "env2_key_to_decay_and_release"     / Int8sl,
    "velocity_to_env2_to_filter_cutoff" / Int8sl,
    "env2_to_pitch"                     / Int8sl,
    "velocity_zone_crossfade"           / BoolConstruct(Int8ul),
    "num_velocity_zones"                / Default(Int8ul, 4),
    Padding(2, pattern=b"\xFF"),
    "velocity_zones"                    / PaddedGeneral(
                                            lambda this:
                                            this.num_velocity_zones,
                                            VelocityZoneConstruct,
                                            VelocityZoneContainer(),
                                            lambda x,y: len(x.sample_name) > 0  # type: ignore
                                        ),
    "num_active_velocity_zones"         / Computed(len_(lambda this: this.velocity_zones)),
    "beat_detune"                       / Int8sl,
    "hold_attack_until_loop"            / BoolConstruct(Int8ul),
    "enable_key_tracking"               / SlicingGeneral(
                                            BoolConstruct(Int8ul)[lambda this: this.num_velocity_zones],
                                            lambda this: this.num_velocity_zones,
                                            0,
                                            lambda this: this.num_active_velocity_zones,
                                            pattern=False
                                        ),
    "aux_out_offset"                    / SlicingGeneral(
                                            Int8ul[lambda this: this.num_velocity_zones],
                                            lambda this: this.num_velocity_zones,
                                            0,
                                            lambda this: this.num_active_velocity_zones,
                                            pattern=0
                                        ),
    "velocity_to_sample_start"          / SlicingGeneral(
                                            Int16sl[lambda this: this.num_velocity_zones],
                                            lambda this: this.num_velocity_zones,
                                            0,
                                            lambda this: this.num_active_velocity_zones,
                                            pattern=0
                                        ),
    "velocity_to_volume_offset"         / Int8sl,
    Padding(1)
)

# the program parser exactly as in smpl_extract/akai/program.py, around the
# ORIGINAL keygroup declaration
OrigKeygroupLinkConstruct = FocusedSeq(
    "keygroup",
    "keygroup_raw"  / OrigKeygroupConstruct,
    "keygroup"      / KeygroupAdapter(Computed(this.keygroup_raw)),
    If(_has_next_keygroup,
        Seek(this.keygroup_raw.next_keygroup_address)
    )
)

OrigProgramParser = ProgramAdapter(Struct(
    "header" / ProgramHeaderConstruct,
    If(_has_valid_first_keygroup,
        Seek(this.header.first_keygroup_address)
    ),
    "keygroups" / OrigKeygroupLinkConstruct[this.header.number_of_keygroups]
))


# --------------------------------------------------------------------------
failures = 0
checked = 0


def fail(*msg):
    global failures
    failures += 1
    if failures <= 5:
        print("MISMATCH", *[repr(m)[:500] for m in msg])


def same(tag, a, b, *extra):
    global checked
    checked += 1
    if a != b:
        fail(tag, a, b, *extra)
        return False
    return True


def freeze(value):
    """value with its exact type, str() and (for containers) key order"""
    if isinstance(value, dict):
        return ("dict", type(value).__name__,
                [(k, freeze(v)) for k, v in value.items() if k != "_io"])
    if isinstance(value, (list, tuple)):
        return (type(value).__name__, [freeze(v) for v in value])
    return (type(value).__module__, type(value).__name__, repr(value), str(value))


def observe_parse(con, blob, **kw):
    stream = io.BytesIO(blob)
    try:
        parsed = con.parse_stream(stream, **kw)
    except Exception as e:  # noqa
        return ("exc", type(e).__name__, str(e), stream.tell()), None
    return ("ok", freeze(parsed), stream.tell()), parsed


def observe_build(con, obj):
    try:
        return ("ok", con.build(obj))
    except Exception as e:  # noqa
        return ("exc", type(e).__name__, str(e))


def observe_call(func, *args):
    try:
        return ("ok", freeze(func(*args)))
    except Exception as e:  # noqa
        return ("exc", type(e).__name__, str(e))


def akai_name(rng, wild=False):
    roll = rng.random()
    if roll < 0.3:
        return bytes([0x0A] * 12)
    if wild and roll < 0.4:
        return bytes(rng.randrange(256) for _ in range(12))
    n = rng.randrange(1, 13)
    return bytes(rng.randrange(0, 0x29) for _ in range(n)) + bytes([0x0A] * (12 - n))


def make_keygroup(rng, zones=4, wild=False, next_address=None):
    """record of 38 + 28 * zones bytes in which every field is random"""
    kg = bytearray(rng.randrange(256) for _ in range(34))
    if next_address is not None:
        kg[1:3] = struct.pack("<H", next_address)
    if not wild:
        kg[3] = rng.randrange(21, 128)
        kg[4] = rng.randrange(21, 128)
    kg[31] = zones
    for z in range(zones):
        kg += akai_name(rng, wild)
        kg += bytes(rng.randrange(256) for _ in range(12))
    kg += bytes(rng.randrange(256) for _ in range(2 + zones + zones + 2 * zones + 2))
    assert len(kg) == 38 + 28 * zones
    return bytes(kg)


def compare_keygroup(tag, blob):
    a, parsed_a = observe_parse(KeygroupConstruct, blob)
    b, parsed_b = observe_parse(OrigKeygroupConstruct, blob)
    if not same(tag, a, b, blob.hex()):
        return a
    if parsed_a is not None:
        ra = observe_build(KeygroupConstruct, parsed_b)
        rb = observe_build(OrigKeygroupConstruct, parsed_a)
        same(tag + " rebuild", ra, rb, blob.hex())
        da = observe_call(lambda: KeygroupAdapter(Computed(parsed_a)).parse(b""))
        db = observe_call(lambda: KeygroupAdapter(Computed(parsed_b)).parse(b""))
        same(tag + " adapter", da, db, blob.hex())
    return a


def tree(t):
    if isinstance(t, dict):
        return ("dict", [(k, tree(v)) for k, v in t.items()])
    if isinstance(t, tuple):
        return ("tuple", [tree(v) for v in t])
    return (type(t).__name__, t)


def observe_program(parser, blob, name):
    stream = io.BytesIO(blob)
    try:
        prog = parser.parse_stream(stream, _elem_name=name)
        info = prog.get_info()
        return ("ok", stream.tell(), tree(prog.itemize()), info.header, info.to_string())
    except Exception as e:  # noqa
        return ("exc", type(e).__name__, str(e), stream.tell())


def make_header(rng, num, first=72):
    hdr = bytearray(rng.randrange(256) for _ in range(72))
    hdr[1:3] = struct.pack("<H", first)
    hdr[3:15] = akai_name(rng)
    hdr[18] = rng.randrange(4)          # priority
    hdr[19] = rng.randrange(21, 128)    # low_key
    hdr[20] = rng.randrange(21, 128)    # high_key
    hdr[42] = num                       # number_of_keygroups
    hdr[61] = rng.randrange(2)          # voice_reassign
    return bytes(hdr)


def make_program_blob(rng):
    num = rng.randrange(1, 6)
    gap = rng.choice((0, 0, 3, 40))
    first = 72 + gap
    out = bytearray(make_header(rng, num, first) + bytes(rng.randrange(256) for _ in range(gap)))
    for i in range(num):
        zones = 4 if rng.random() < 0.8 else rng.randrange(0, 6)
        hop = rng.choice((0, 0, 0, 7, 150))
        here = len(out)
        size = 38 + 28 * zones
        if rng.random() < 0.05:
            next_address = 0            # chain ends early: keeps reading in place
        else:
            next_address = here + size + hop
        out += make_keygroup(rng, zones, next_address=next_address)
        out += bytes(rng.randrange(256) for _ in range(hop))
    return bytes(out)


def main():
    rng = random.Random(0xC20_19)

    live_names = [sc.name for sc in KeygroupConstruct.subcons]
    orig_names = [sc.name for sc in OrigKeygroupConstruct.subcons]
    same("subcons", live_names, orig_names)

    # 1. parsing
    ok = 0
    for n in range(6000):
        zones = 4 if n % 3 else rng.randrange(0, 7)
        blob = make_keygroup(rng, zones, wild=(n % 7 == 0)) + b"tail"
        res = compare_keygroup("parse %d" % n, blob)
        ok += res[0] == "ok"
    if ok < 4000:
        fail("too few keygroups parsed", ok)
    blob = make_keygroup(rng, 4)
    for cut in range(len(blob)):
        compare_keygroup("cut %d" % cut, blob[:cut])
    blob = make_keygroup(rng, 2)
    for cut in range(len(blob)):
        compare_keygroup("cut2 %d" % cut, blob[:cut])
    # context values handed in from outside must not matter
    blob = make_keygroup(rng, 4)
    same("ctx kw",
         observe_parse(KeygroupConstruct, blob, num_velocity_zones=2, velocity_zones=())[0],
         observe_parse(OrigKeygroupConstruct, blob, num_velocity_zones=2, velocity_zones=())[0])

    # 2. building and sizeof
    objs = [
        KeygroupContainer(
            velocity_zones=[VelocityZoneContainer("test")],
            velocity_to_sample_start=[0,0,0,0],
            aux_out_offset=[1,2,3,4],
            enable_key_tracking=[True,True,True,True]
        ),
        KeygroupContainer(
            velocity_zones=(VelocityZoneContainer("test"), VelocityZoneContainer("sec")),
            velocity_to_sample_start=[0,0,0,0],
            aux_out_offset=[1,2,3,4],
            enable_key_tracking=[True,True,True,True],
        ),
        KeygroupContainer(
            velocity_zones=[VelocityZoneContainer("s%d" % i) for i in range(5)],
            velocity_to_sample_start=[0,0,0,0],
            aux_out_offset=[1,2,3,4],
            enable_key_tracking=[True,True,True,True]
        ),
        KeygroupContainer(),
        KeygroupContainer(velocity_zones=()),
    ]
    for n in range(300):
        count = rng.randrange(0, 6)
        width = rng.choice((4, 4, 4, count, rng.randrange(0, 6)))
        objs.append(KeygroupContainer(
            tune_semitones=rng.randrange(-50, 51),
            filter_cutoff=rng.randrange(0, 100),
            beat_detune=rng.randrange(-50, 51),
            velocity_zone_crossfade=rng.random() < 0.5,
            velocity_zones=[
                VelocityZoneContainer("Z%d" % i, rng.randrange(128), rng.randrange(128))
                for i in range(count)
            ],
            velocity_to_sample_start=[rng.randrange(-9999, 9999) for _ in range(width)],
            aux_out_offset=[rng.randrange(256) for _ in range(width)],
            enable_key_tracking=[rng.random() < 0.5 for _ in range(width)],
        ))
    built = 0
    for i, obj in enumerate(objs):
        ra = observe_build(KeygroupConstruct, obj)
        rb = observe_build(OrigKeygroupConstruct, obj)
        same("build %d" % i, ra, rb)
        if ra[0] == "ok":
            built += 1
            compare_keygroup("reparse %d" % i, ra[1])
    if built < 100:
        fail("too few keygroups built", built)
    same("sizeof", observe_call(KeygroupConstruct.sizeof), observe_call(OrigKeygroupConstruct.sizeof))
    same("sizeof kw",
         observe_call(lambda: KeygroupConstruct.sizeof(num_velocity_zones=4)),
         observe_call(lambda: OrigKeygroupConstruct.sizeof(num_velocity_zones=4)))

    # 3. whole programs
    programs_ok = 0
    for n in range(400):
        blob = make_program_blob(rng)
        a = observe_program(ProgramParser, blob, "P%d" % n)
        b = observe_program(OrigProgramParser, blob, "P%d" % n)
        same("program %d" % n, a, b, blob.hex()[:200])
        programs_ok += a[0] == "ok"
    if programs_ok < 250:
        fail("too few programs parsed", programs_ok)

    print("r19 demo: %d comparisons (%d keygroups ok, %d built, %d programs ok), %d failures"
          % (checked, ok, built, programs_ok, failures))
    return 1 if failures else 0


if __name__ == "__main__":
    sys.exit(main())
