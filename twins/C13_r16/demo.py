"""Equivalence demo for parse_cue_sheet (smpl_extract/cuesheet.py), the top of
the cue line consumption.

Compares the parse_cue_sheet of the tree with an inline copy of the ORIGINAL on
every sequence of up to 5 lines from a vocabulary of cue lines (FILE lines good
and bad, TRACK / INDEX / TITLE lines good and bad, blank and white-space lines,
junk), on thousands of longer random sheets, and on realistic multi FILE
sheets.  Compared: the returned CueSheetFile (dataclass equality, i.e. file
name, tracks, indices, titles, unparsed lines), the exception (type and
arguments), what is left in the caller's list afterwards and the sequence of
len()/pop() calls made on it.  Exit 0 when everything agrees, 1 otherwise.
"""
import itertools
import random
import sys

from smpl_extract.cuesheet import BadCueSheet
from smpl_extract.cuesheet import CueSheetFileAdapter
from smpl_extract.cuesheet import _FILE_LINE_REGEX
from smpl_extract.cuesheet import get_nonempty_entry
from smpl_extract.cuesheet import parse_cue_sheet


def original_parse_cue_sheet(lines):
    # verbatim copy of the original function
    cue_sheet_files = []
    while len(lines):
        text, lines = get_nonempty_entry(lines)
        match_result = _FILE_LINE_REGEX.match(text)
        if match_result:
            lines = [text] + lines
            cue_sheet_file, lines = CueSheetFileAdapter.parse(lines)
            cue_sheet_files.append(cue_sheet_file)
    
    if len(cue_sheet_files) <= 0:
        raise BadCueSheet("No FILE entry")
    
    result = cue_sheet_files[0]
    return result


class LoggedLines(list):
    """the caller's list; records how it is consumed"""

    def __init__(self, items):
        super().__init__(items)
        self.log = []

    def __len__(self):
        self.log.append("len")
        return super().__len__()

    def pop(self, *args):
        self.log.append(("pop",) + args)
        return super().pop(*args)


def outcome(function, sheet):
    lines = LoggedLines(sheet)
    try:
        result = function(lines)
    except BaseException as e:  # noqa
        return ("raise", type(e), e.args, type(e.__cause__), list(lines), lines.log)
    return ("ok", type(result), result, repr(result), list(lines), lines.log)


failures = 0
checked = 0


def compare(sheet):
    global failures, checked
    checked += 1
    new = outcome(parse_cue_sheet, sheet)
    old = outcome(original_parse_cue_sheet, sheet)
    if new != old:
        failures += 1
        if failures < 10:
            print("MISMATCH", sheet)
            print("   new", str(new)[:400])
            print("   old", str(old)[:400])


VOCABULARY = [
    'FILE "a.bin" BINARY\n',
    '  file "b c.bin"   binary\r\n',
    'FILE "c.wav" WAVE\n',
    '  TRACK 01 AUDIO\n',
    'TRACK 2 MODE1/2352\n',
    'TRACK xx AUDIO\n',
    '    INDEX 01 00:02:33\n',
    '    TITLE "Song"\n',
    '\n',
    '   \t \n',
    'REM junk\n',
]

EXTRA = [
    'FILE "" BINARY', 'FILE "x.bin" BINARY trailing', 'FILE x.bin BINARY',
    'FILE "q.bin"BINARY', 'xFILE "a.bin" BINARY', '\tFILE\t"t.bin"\tBINARY',
    'TRACK 99 AUDIO', 'track 3 audio', 'TRACK 4', 'TRACK', 'TRACK 007 A/z\\_',
    'INDEX 00 00:00:00', 'INDEX 1 99:59:74', 'INDEX 01 00:00', 'index 2 1:2:3',
    'TITLE "A \\"quoted\\" one"', 'TITLE ""', 'TITLE none', 'title "low"',
    'PERFORMER "x"', 'FLAGS DCP', '', ' ', '\x00', 'FILE "é.bin" BINARY',
    'FILE "a.bin" BINARY FILE "b.bin" BINARY', '"', '1234',
]


def main():
    rng = random.Random(16)

    for length in range(0, 6):
        vocabulary = VOCABULARY if length < 5 else VOCABULARY[:9]
        for sheet in itertools.product(vocabulary, repeat=length):
            compare(list(sheet))

    everything = VOCABULARY + EXTRA
    for _ in range(8000):
        sheet = [rng.choice(everything) for _ in range(rng.randint(0, 40))]
        compare(sheet)

    # realistic sheets: several FILE entries with tracks, then corrupted
    for n in range(1500):
        sheet = []
        for f in range(rng.randint(0, 4)):
            sheet.append('FILE "disc%d.bin" BINARY\n' % f)
            for t in range(rng.randint(0, 6)):
                sheet.append('  TRACK %02d AUDIO\n' % (t + 1))
                if rng.random() < 0.5:
                    sheet.append('    TITLE "Track %d"\n' % t)
                for i in range(rng.randint(0, 2)):
                    sheet.append('    INDEX %02d %02d:%02d:%02d\n' % (
                        i, rng.randrange(80), rng.randrange(60), rng.randrange(75)))
        for _ in range(rng.randint(0, 3)):
            if sheet:
                where = rng.randrange(len(sheet))
                action = rng.random()
                if action < 0.4:
                    sheet[where] = rng.choice(everything)
                elif action < 0.7:
                    del sheet[where]
                else:
                    sheet.insert(where, rng.choice(everything))
        compare(sheet)

    # not-a-string / odd containers behave the same too
    for sheet in ([None], [b'FILE "a.bin" BINARY'], [1], ['FILE "a.bin" BINARY', None],
                  ['FILE "a.bin" BINARY', 'TRACK 1 AUDIO', 5]):
        compare(sheet)

    print("checked", checked, "failures", failures)
    return 1 if failures else 0


if __name__ == "__main__":
    sys.exit(main())
