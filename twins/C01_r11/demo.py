"""Equivalence demo for r11 (smpl_extract/transcoder.py, make_transcoder).
An inline copy of the ORIGINAL function is compared with the live one on a
grid of source stream sets (0..3 streams; 0/1/2/3 interleaved channels; 1/2/4
byte samples; little/big endian; signed/unsigned; payload lengths around the
buffer size, odd lengths, empty) x destination encodings:
  - same exception (type + text) for bad arguments,
  - same transcoder class and configuration (buffer size, stream identity,
    process names in the same order, same process functions where shared),
  - same sequence of operations on every source stream (seek/read/tell log),
  - same chunks yielded, chunk by chunk, until exhaustion.
Finally whole WAV files are built through WavSampleBuilder once with the live
function and once with the original patched in; the bytes must match.
Exit 0 = all agree."""
import io
import itertools
import random
import sys
from io import SEEK_SET
from typing import Callable
from typing import List
from typing import Tuple

import numpy as np

import smpl_extract.generalized.wav as gwav
import smpl_extract.transcoder as transcoder
from smpl_extract.data_streams import DataStream
from smpl_extract.data_streams import Endianess
from smpl_extract.data_streams import IncompatibleNumberOfChannels
from smpl_extract.data_streams import NoDataStream
from smpl_extract.data_streams import StreamEncoding
from smpl_extract.data_streams import system_byte_order
from smpl_extract.generalized.sample import Sample
from smpl_extract.transcoder import PassthroughTranscoder
from smpl_extract.transcoder import PipelineTranscoder
from smpl_extract.transcoder import TranscodePipelineStruct
from smpl_extract.transcoder import decode_frame
from smpl_extract.transcoder import encode_frame
from smpl_extract.transcoder import get_buffer_sizes
from smpl_extract.transcoder import swap_endianess
from smpl_extract.transcoder import swap_endianess_multi


# ---- inline copy of the ORIGINAL implementation -------------------------
def orig_make_transcoder(
        data_streams: List[DataStream],
        dest_encoding: StreamEncoding
    ):

    # check for bad args
    if len(data_streams) <= 0:
        raise NoDataStream("No data streams given")

    total_num_channels = 0
    for data_stream in data_streams:
        num_channels = max(1, data_stream.encoding.num_interleaved_channels)
        total_num_channels += num_channels
    expected_num_channels = dest_encoding.num_interleaved_channels
    if total_num_channels != expected_num_channels:
        raise IncompatibleNumberOfChannels(
            f"Expected {expected_num_channels} fourd {total_num_channels}."
        )

    # begin
    for data_stream in data_streams:
        data_stream.stream.seek(0, SEEK_SET)
    buffer_sizes = get_buffer_sizes(data_streams)

    if len(data_streams) == 1 \
            and data_streams[0].encoding == dest_encoding:
        result = PassthroughTranscoder(
            data_streams[0],
            buffer_size=buffer_sizes[0]
        )
        return result

    processes: List[Tuple[
        str,
        Callable[[List[np.ndarray]], List[np.ndarray]]
    ]]
    processes = []

    # is byteswap needed at input?
    swaps = list(
        x.encoding.endianess != system_byte_order
        for x in data_streams
        for _ in range(max(1, x.encoding.num_interleaved_channels))
    )
    if any(swaps):
        if all(swaps):
            processes.append(("swap_input_endianess", swap_endianess))
        else:
            processes.append((
                "swap_input_endianess_multi",
                lambda x: swap_endianess_multi(x, swaps)
            ))

    # is byte swap needed at output?
    if dest_encoding.endianess != system_byte_order:
        processes.append(("swap_output_endianess", swap_endianess))

    dest_dtype = dest_encoding.dtype

    f_decode_frame = lambda x: decode_frame(x, buffer_sizes=buffer_sizes)
    f_encode_frame = lambda x: encode_frame(x, dest_dtype=dest_dtype)
    pipeline = TranscodePipelineStruct(
        f_decode_frame,
        processes,
        f_encode_frame
    )

    result = PipelineTranscoder(data_streams, pipeline)
    return result
# -------------------------------------------------------------------------


failures = 0
checks = 0


def check(label, a, b):
    global failures, checks
    checks += 1
    if a != b:
        failures += 1
        if failures <= 10:
            print("MISMATCH", label, "\n   live:", repr(a)[:600], "\n   orig:", repr(b)[:600])


class LoggingBytesIO(io.BytesIO):
    def __init__(self, data, log, tag):
        super().__init__(data)
        self.log = log
        self.tag = tag

    def seek(self, *a):
        r = super().seek(*a)
        self.log.append((self.tag, "seek", a, r))
        return r

    def read(self, *a):
        r = super().read(*a)
        self.log.append((self.tag, "read", a, len(r)))
        return r


def run(fn, stream_specs, dest_encoding, as_tuple=False):
    log = []
    streams = [
        DataStream(stream=LoggingBytesIO(payload, log, n), encoding=enc)
        for n, (payload, enc) in enumerate(stream_specs)
    ]
    for ds in streams:           # start from a non-zero cursor: the seek(0) matters
        ds.stream.seek(min(3, len(ds.stream.getvalue())))
    arg = tuple(streams) if as_tuple else streams
    try:
        t = fn(arg, dest_encoding)
    except Exception as e:  # noqa: BLE001
        return ("EXC", type(e).__name__, str(e)), log
    desc = [type(t).__name__]
    if isinstance(t, PassthroughTranscoder):
        desc.append(("passthrough", t.data_stream is streams[0], t.buffer_size))
    elif isinstance(t, PipelineTranscoder):
        desc.append(("pipeline", t.data_streams is arg,
                     [name for name, _ in t.pipeline.processes],
                     [f is swap_endianess for _, f in t.pipeline.processes],
                     type(t.pipeline.processes).__name__))
    chunks = []
    for n, chunk in enumerate(t):
        chunks.append(bytes(chunk))
        if n > 200:
            chunks.append("RUNAWAY")
            break
    desc.append(chunks)
    return ("OK", desc), log


def encodings():
    out = []
    for end, width, ch, signed in itertools.product(
            (Endianess.LITTLE, Endianess.BIG), (1, 2, 4), (0, 1, 2, 3), (True, False)):
        out.append(StreamEncoding(endianess=end, sample_width=width,
                                  num_interleaved_channels=ch, is_signed=signed))
    return out


def payload(rnd, n):
    return bytes(rnd.randrange(256) for _ in range(n))


def grid():
    rnd = random.Random(11)
    encs = encodings()
    lengths = (0, 1, 2, 3, 7, 64, 4095, 4096, 4097, 8192, 8192 - 140, 9001)
    check("system byte order known", system_byte_order in (Endianess.LITTLE, Endianess.BIG), True)

    # no stream at all
    for dest in encs[:6]:
        check(("empty", dest), run(transcoder.make_transcoder, [], dest),
              run(orig_make_transcoder, [], dest))
        check(("empty tuple", dest), run(transcoder.make_transcoder, [], dest, True),
              run(orig_make_transcoder, [], dest, True))

    # one stream, every source encoding x a set of destinations
    dests = [e for e in encs if e.num_interleaved_channels in (1, 2, 3)]
    for src in encs:
        for dest in rnd.sample(dests, 10) + [src]:
            n = rnd.choice(lengths)
            spec = [(payload(rnd, n), src)]
            check(("one", src, dest, n), run(transcoder.make_transcoder, spec, dest),
                  run(orig_make_transcoder, spec, dest))

    # two and three streams (split stereo and friends), mixed endianess
    for case in range(500):
        k = rnd.choice((2, 2, 3))
        spec = [(payload(rnd, rnd.choice(lengths)), rnd.choice(encs)) for _ in range(k)]
        total = sum(max(1, e.num_interleaved_channels) for _, e in spec)
        if rnd.random() < 0.8:
            dest = StreamEncoding(endianess=rnd.choice((Endianess.LITTLE, Endianess.BIG)),
                                  sample_width=rnd.choice((1, 2, 4)),
                                  num_interleaved_channels=total,
                                  is_signed=rnd.random() < 0.8)
        else:
            dest = rnd.choice(encs)
        as_tuple = case % 7 == 0
        check(("multi", case), run(transcoder.make_transcoder, spec, dest, as_tuple),
              run(orig_make_transcoder, spec, dest, as_tuple))

    # the AKAI shape: one little-endian 16-bit mono stream, every length near
    # the sector/buffer boundaries
    akai = StreamEncoding(endianess=Endianess.LITTLE, sample_width=2, num_interleaved_channels=1)
    for n in list(range(0, 12)) + [4094, 4095, 4096, 4097, 4098, 8191, 8192, 8193,
                                   3 * 8192 - 140, 3 * 8192 - 139]:
        spec = [(payload(rnd, n), akai)]
        check(("akai", n), run(transcoder.make_transcoder, spec, akai),
              run(orig_make_transcoder, spec, akai))
        stereo = StreamEncoding(endianess=Endianess.LITTLE, sample_width=2, num_interleaved_channels=2)
        spec2 = [(payload(rnd, n), akai), (payload(rnd, max(0, n - 2)), akai)]
        check(("akai stereo", n), run(transcoder.make_transcoder, spec2, stereo),
              run(orig_make_transcoder, spec2, stereo))


def build_wav(rnd_seed):
    rnd = random.Random(rnd_seed)
    out = []
    enc = StreamEncoding(endianess=Endianess.LITTLE, sample_width=2, num_interleaved_channels=1)
    big = StreamEncoding(endianess=Endianess.BIG, sample_width=2, num_interleaved_channels=1)
    for n in (0, 2, 100, 4096, 8192 - 140, 10000):
        for encs in ([enc], [enc, enc], [big], [enc, big]):
            streams = [DataStream(stream=io.BytesIO(payload(rnd, n)), encoding=e) for e in encs]
            sample = Sample(name="X", sample_rate=rnd.choice((22050, 44100)),
                            num_channels=len(encs), data_streams=streams)
            buf = io.BytesIO()
            try:
                gwav.WavSampleBuilder.build_stream(sample, buf)
                out.append(buf.getvalue())
            except Exception as e:  # noqa: BLE001
                out.append(("EXC", type(e).__name__, str(e)))
    return out


def whole_files():
    live = build_wav(1111)
    saved = gwav.make_transcoder
    gwav.make_transcoder = orig_make_transcoder
    try:
        orig = build_wav(1111)
    finally:
        gwav.make_transcoder = saved
    check("whole wav files", live, orig)
    check("some wav bytes were produced", any(isinstance(x, bytes) and x[:4] == b"RIFF" for x in live), True)


def main():
    grid()
    whole_files()
    print("checks:", checks, "failures:", failures)
    return 1 if failures else 0


if __name__ == "__main__":
    sys.exit(main())
