"""Equivalence demo for MdfStream (smpl_extract/alcohol/mdf.py).

MdfStream is the raw-sector (2352 byte sectors: 16 header + 2048 content + 288
footer) view that actions.py puts on top of the single file handle of an .mdf
image; every other view of such an image reads through it.  Its
_get_address_given_sector_index is what SectorStream._read_sector calls to get
the absolute address it seeks to before every sector read, and its __init__
probes the length of the shared handle (tell / seek end / tell / seek back).

The live class is compared with a verbatim copy of the ORIGINAL class:

 1. construction over handles of many lengths (0, partial sectors, exact
    multiples, +-1) with the cursor parked at different places, and with
    position / buffer_length arguments: seek/tell/read trace of the handle,
    the cursor afterwards, end_of_file, position, sector_length,
    buffer_length, true_size; also handles that fail (closed handle, object
    without seek): exception type and text;
 2. _get_address_given_sector_index for a grid of sector indexes and offsets
    (negative, huge, bool, numpy integers, floats): value and type;
 3. random read/seek programs on one stream, including reads past the end and
    reads over truncated images: results or exceptions, positions, trace;
 4. several windows (StreamOffset, nested StreamOffset) over ONE MdfStream
    over ONE traced handle, block reads interleaved exhaustively (3 streams x
    2 blocks) and randomly with random block sizes: per stream the bytes must
    equal the original's, equal an isolated sequential read, and equal an
    independent oracle (the content areas of the sectors joined together);
    the handle traces must agree as well.
Exit 0 when everything agrees, 1 otherwise.
"""
import io
import itertools
import random
import sys
import warnings
from io import IOBase
from io import SEEK_END
from io import SEEK_SET

import numpy as np

from smpl_extract.alcohol.mdf import MDF_SECTOR_BODY_SIZE
from smpl_extract.alcohol.mdf import MDF_SECTOR_HEADER_SIZE
from smpl_extract.alcohol.mdf import MDF_SECTOR_SIZE
from smpl_extract.alcohol.mdf import MdfStream
from smpl_extract.util.sector import SectorStream
from smpl_extract.util.stream import StreamOffset


class OrigMdfStream(SectorStream):
    """Verbatim copy of the ORIGINAL MdfStream."""

    def __init__(
            self,
            parent_stream:  IOBase,
            position:       int = 0,
            buffer_length:  int = 0x1000
    ) -> None:

        # get parent size
        offset = parent_stream.tell()
        parent_stream.seek(0, SEEK_END)
        parent_size = parent_stream.tell()
        parent_stream.seek(offset, SEEK_SET)

        num_sectors = parent_size // MDF_SECTOR_SIZE
        size = num_sectors * MDF_SECTOR_BODY_SIZE

        super().__init__(
            parent_stream,
            size=size,
            sector_length=MDF_SECTOR_BODY_SIZE,
            position=position,
            buffer_length=buffer_length
        )

    def _get_address_given_sector_index(
            self,
            sector_index: int,
            offset: int
        ):
        sector_address  = sector_index * MDF_SECTOR_SIZE

        mdf_address = sector_address + MDF_SECTOR_HEADER_SIZE + offset
        return mdf_address


CLASSES = (MdfStream, OrigMdfStream)


class TracedBytesIO(io.BytesIO):
    def __init__(self, data):
        super().__init__(data)
        self.trace = []

    def seek(self, offset, whence=0):
        result = super().seek(offset, whence)
        self.trace.append(("seek", offset, whence, result))
        return result

    def tell(self):
        result = super().tell()
        self.trace.append(("tell", result))
        return result

    def read(self, size=-1):
        result = super().read(size)
        self.trace.append(("read", size, len(result), hash(bytes(result))))
        return result


FAILURES = []


def check(condition, label):
    if not condition:
        FAILURES.append(label)
        if len(FAILURES) <= 20:
            print("MISMATCH:", label)


def outcome(f, *args, **kwargs):
    try:
        value = f(*args, **kwargs)
        return ("ok", type(value).__name__, value)
    except Exception as e:  # noqa - every exception is part of the behaviour
        return ("exc", type(e).__name__, str(e))


def make_image(num_sectors, tail=0, seed=1):
    """num_sectors raw sectors with recognisable content, plus `tail` bytes."""
    rng = random.Random(seed)
    out = bytearray()
    for index in range(num_sectors):
        out += bytes([0xAA]) * MDF_SECTOR_HEADER_SIZE
        out += bytes(rng.randrange(256) for _ in range(MDF_SECTOR_BODY_SIZE))
        out += bytes([0x55]) * (MDF_SECTOR_SIZE - MDF_SECTOR_HEADER_SIZE - MDF_SECTOR_BODY_SIZE)
    out += bytes([0x33]) * tail
    return bytes(out)


def content_of(image):
    n = len(image) // MDF_SECTOR_SIZE
    return b"".join(
        image[i * MDF_SECTOR_SIZE + MDF_SECTOR_HEADER_SIZE:
              i * MDF_SECTOR_SIZE + MDF_SECTOR_HEADER_SIZE + MDF_SECTOR_BODY_SIZE]
        for i in range(n)
    )


def describe(view):
    return (
        view.end_of_file, view.position, view.sector_length,
        view.buffer_length, view.true_size, type(view.end_of_file).__name__
    )


# ---------------------------------------------------------------- part 1
def part_construction():
    count = 0
    lengths = [0, 1, 15, 16, 2047, 2048, 2351, 2352, 2353, 4703, 4704, 4705,
               3 * 2352 + 100, 5 * 2352]
    for length in lengths:
        data = bytes(length)
        for start in (0, 1, length // 2, length, length + 10):
            for kwargs in ({}, {"position": 7}, {"buffer_length": 64},
                           {"position": 3000, "buffer_length": 1}):
                results = []
                for cls in CLASSES:
                    handle = TracedBytesIO(data)
                    handle.seek(start)
                    handle.trace.clear()
                    got = outcome(cls, handle, **kwargs)
                    if got[0] == "ok":
                        summary = ("ok", describe(got[2]))
                    else:
                        summary = got
                    results.append((summary, handle.trace, io.BytesIO.tell(handle)))
                check(results[0] == results[1],
                      f"construct len={length} start={start} {kwargs}: "
                      f"{results[0]} != {results[1]}")
                check(results[0][0][0] == "ok" and results[0][2] == start,
                      f"construct len={length} start={start}: cursor not restored")
                count += 1

    # handles on which the probe fails
    class NoSeek:
        def tell(self):
            return 0

    for factory in (lambda: NoSeek(), lambda: None, lambda: 5):
        results = [outcome(cls, factory()) for cls in CLASSES]
        check(results[0][0] == "exc" and results[0] == results[1],
              f"construct on bad handle: {results}")
        count += 1
    results = []
    for cls in CLASSES:
        handle = io.BytesIO(b"abc")
        handle.close()
        results.append(outcome(cls, handle))
    check(results[0][0] == "exc" and results[0] == results[1],
          f"construct on closed handle: {results}")
    count += 1
    return count


# ---------------------------------------------------------------- part 2
def part_addresses():
    count = 0
    indexes = [0, 1, 2, 3, 17, 1000, 2 ** 31, 2 ** 40, -1, -5, True, False,
               np.int16(3), np.int32(70000), np.int64(12), np.uint8(200), 2.0, 1.5]
    offsets = [0, 1, 15, 16, 2047, 2048, 2352, -1, -16, True, np.int64(9),
               np.uint16(65535), 0.5]
    views = [cls(io.BytesIO(bytes(3 * MDF_SECTOR_SIZE))) for cls in CLASSES]
    for index in indexes:
        for offset in offsets:
            a, b = (outcome(v._get_address_given_sector_index, index, offset) for v in views)
            check(a == b, f"address({index!r}, {offset!r}): {a} != {b}")
            if a[0] == "ok":
                check(a[2] == index * 2352 + 16 + offset, f"address oracle {index!r} {offset!r}")
            count += 1
    for bad in ((None, 0), ("1", 0), (0, None), (0, "x")):
        a, b = (outcome(v._get_address_given_sector_index, *bad) for v in views)
        check(a == b, f"address{bad}: {a} != {b}")
        count += 1
    return count


# ---------------------------------------------------------------- part 3
def run_program(cls, image, program):
    handle = TracedBytesIO(image)
    view = cls(handle)
    log = []
    for op, arg, whence in program:
        if op == "read":
            log.append(outcome(view.read, arg))
        else:
            log.append(outcome(view.seek, arg, whence))
        log.append((view.position, view.true_size, view.tell()))
    return log, handle.trace


def part_programs():
    rng = random.Random(77)
    images = [
        make_image(0), make_image(1), make_image(2, seed=2), make_image(4, seed=3),
        make_image(3, tail=1000, seed=4),
        make_image(3, seed=5)[:-300],           # last sector truncated
        make_image(2, seed=6)[:2352 + 1000],    # truncated inside content
    ]
    count = 0
    for _ in range(700):
        image = rng.choice(images)
        program = []
        for _ in range(rng.randrange(1, 8)):
            if rng.random() < 0.65:
                arg = rng.choice((
                    0, 1, 2, 100, 2047, 2048, 2049, 4096, 5000, 10000,
                    rng.randrange(0, 9000), None, -1
                ))
                program.append(("read", arg, None))
            else:
                program.append((
                    "seek",
                    rng.choice((0, 1, 2047, 2048, 2049, 4096, -1, -2048,
                                rng.randrange(-500, 9000))),
                    rng.choice((0, 1, 2))
                ))
        a = run_program(MdfStream, image, program)
        b = run_program(OrigMdfStream, image, program)
        check(a == b, f"program {program} on image of {len(image)} bytes")
        count += 1
    return count


# ---------------------------------------------------------------- part 4
IMAGE = make_image(6, tail=40, seed=11)
CONTENT = content_of(IMAGE)
# (offset in content, size, nested offset or None)
WINDOWS = [
    (100, 5000, None),
    (2000, 7000, None),
    (1500, 9000, 2500),   # window of 9000 at 1500, inner window starts 2500 in
]


def build_views(cls, handle):
    base = cls(handle)
    views = []
    for offset, size, inner in WINDOWS:
        window = StreamOffset(base, size, offset)
        if inner is not None:
            window = StreamOffset(window, size - inner, inner)
        views.append(window)
    return views


def oracle(index, nbytes):
    offset, size, inner = WINDOWS[index]
    window = CONTENT[offset:offset + size]
    if inner is not None:
        window = window[inner:]
    return window[:nbytes]


def run_schedule(cls, schedule, block_sizes):
    handle = TracedBytesIO(IMAGE)
    handle.seek(123)  # cursor parked somewhere before the views are built
    views = build_views(cls, handle)
    got = [b"" for _ in views]
    for index in schedule:
        got[index] += views[index].read(block_sizes[index])
    return got, handle.trace


def isolated(cls, index, block_size, num_blocks):
    handle = TracedBytesIO(IMAGE)
    view = build_views(cls, handle)[index]
    result = b""
    for _ in range(num_blocks):
        result += view.read(block_size)
    return result


def part_schedules():
    count = 0
    block_sizes = [1500, 2048, 3000]
    schedules = sorted(set(itertools.permutations([0, 0, 1, 1, 2, 2])))
    for schedule in schedules:
        a = run_schedule(MdfStream, schedule, block_sizes)
        b = run_schedule(OrigMdfStream, schedule, block_sizes)
        check(a == b, f"schedule {schedule}: live != original")
        for index in range(3):
            alone = isolated(MdfStream, index, block_sizes[index], 2)
            check(a[0][index] == alone, f"schedule {schedule}: stream {index} disturbed")
            check(alone == oracle(index, 2 * block_sizes[index]), f"oracle stream {index}")
        count += 1
    rng = random.Random(8)
    for _ in range(250):
        block_sizes = [rng.randrange(1, 4000) for _ in range(3)]
        blocks = [rng.randrange(0, 5) for _ in range(3)]
        schedule = [i for i in range(3) for _ in range(blocks[i])]
        rng.shuffle(schedule)
        a = run_schedule(MdfStream, schedule, block_sizes)
        b = run_schedule(OrigMdfStream, schedule, block_sizes)
        check(a == b, f"random schedule {schedule} {block_sizes}: live != original")
        for index in range(3):
            alone = isolated(MdfStream, index, block_sizes[index], blocks[index])
            check(a[0][index] == alone, f"random schedule: stream {index} disturbed")
            check(alone == oracle(index, blocks[index] * block_sizes[index]),
                  f"random oracle stream {index}")
        count += 1
    return count


def main():
    # small numpy integers overflow (with a RuntimeWarning) in both versions alike
    warnings.simplefilter("ignore", RuntimeWarning)
    n1 = part_construction()
    n2 = part_addresses()
    n3 = part_programs()
    n4 = part_schedules()
    print(f"constructions: {n1}, addresses: {n2}, programs: {n3}, schedules: {n4}")
    if FAILURES:
        print(f"{len(FAILURES)} mismatches")
        return 1
    print("all agree")
    return 0


if __name__ == "__main__":
    sys.exit(main())
