"""r1 demo: FatAreaAdapter._decode (smpl_extract/roland/s7xx/fat.py).

Differential test of the live `_decode` against an inline copy of the ORIGINAL
implementation on many synthetic FATs (valid chains in any order, chains that
merge, loops, ERROR/RESERVED/FREE words at the head and in the middle of a
chain, bad id, all version-flag combinations), followed by an end-to-end
export of generated S-7xx images compared with independently computed PCM.
Exit status 0 = everything agrees, 1 = some disagreement.
"""
import sys
import random as _random
from types import SimpleNamespace

from construct.core import ConstructError
from smpl_extract.roland.s7xx.fat import FatArea
from smpl_extract.roland.s7xx.fat import FatAreaParser
from smpl_extract.roland.s7xx.fat import RolandFileAllocationTable
from smpl_extract.roland.s7xx.data_types import FAT_AREA_ID
from smpl_extract.roland.s7xx.data_types import FAT_ERROR_FLAG
from smpl_extract.roland.s7xx.data_types import FAT_FREE_FLAG
from smpl_extract.roland.s7xx.data_types import FAT_IS_END_F
from smpl_extract.roland.s7xx.data_types import FAT_NUM_ENTRIES
from smpl_extract.roland.s7xx.data_types import FAT_RESERVED_FLAG
from smpl_extract.roland.s7xx.data_types import FAT_VERSION_1_FLAG
from smpl_extract.roland.s7xx.data_types import FAT_VERSION_2_FLAG
from smpl_extract.util.fat import SectorLink
from smpl_extract.util.fat import add_to_sector_links


# ----- inline copy of the ORIGINAL FatAreaAdapter._decode ------------------
def original_decode(obj):
    container = obj

    fat_id = container.metadata.fat_id
    if fat_id != FAT_AREA_ID:
        raise ConstructError((
            "Bad FAT identifier. "
            f"Expected {FAT_AREA_ID}, found {fat_id}"
        ))

    num_remaining_clusters = container.metadata.num_unused_clusters

    version_flag_1 = container.metadata.version_flag_1
    version_flag_2 = container.metadata.version_flag_2

    version_map = {
        FAT_VERSION_1_FLAG: 1,
        FAT_VERSION_2_FLAG: 2
    }

    version = 1

    for version_flag in (version_flag_1, version_flag_2):
        if version_flag != FAT_VERSION_1_FLAG:
            if version_flag not in version_map.keys():
                raise ConstructError((
                    f"Unknown FAT version {version_flag}."
                ))
            version = version_map[version_flag]
            break

    fat_entries = container.fat_entries

    sector_links = [SectorLink()] * FAT_NUM_ENTRIES
    dirty_flags = [False] * FAT_NUM_ENTRIES
    dirty_flags[0:2] = [True, True]
    for i in range(2, FAT_NUM_ENTRIES - 9):

        if dirty_flags[i]:
            continue

        subpath_links = []
        subpath_visited = set()
        subpath_index = i
        while True:
            if subpath_index >= FAT_NUM_ENTRIES:
                break

            if subpath_index in subpath_visited:
                raise ConstructError("Encountered a loop in FAT.")
            subpath_visited.add(subpath_index)

            value = fat_entries[subpath_index]
            dirty_flags[subpath_index] = True

            if value == FAT_ERROR_FLAG:
                raise ConstructError("Encountered ERROR_FLAG in FAT.")

            if value in (FAT_RESERVED_FLAG, FAT_FREE_FLAG):
                if len(subpath_links) > 0:
                    if value == FAT_RESERVED_FLAG:
                        err_type = "RESERVE_FLAG"
                    else:
                        err_type = "FREE_FLAG"
                    raise ConstructError(f"Unexpected {err_type} in FAT.")
                else:
                    break

            subpath_links.append(subpath_index)

            if FAT_IS_END_F(value):
                add_to_sector_links(subpath_links, sector_links)
                break

            subpath_index = value
            continue

    fat = RolandFileAllocationTable(
        container.fat_data_stream,
        FAT_NUM_ENTRIES,
        sector_links
    )

    result = FatArea(
        version,
        num_remaining_clusters,
        fat
    )
    return result
# ---------------------------------------------------------------------------


def make_container(rng, kind):
    entries = [0] * FAT_NUM_ENTRIES
    n_chains = rng.randint(0, 12)
    regions = [(2, 200), (2, FAT_NUM_ENTRIES - 1),
               (FAT_NUM_ENTRIES - 40, FAT_NUM_ENTRIES - 1)]
    used = set()
    chains = []
    for _ in range(n_chains):
        lo, hi = rng.choice(regions)
        length = rng.randint(1, 9)
        chain = []
        for _attempt in range(200):
            if len(chain) >= length:
                break
            c = rng.randint(lo, hi)
            if c not in used:
                used.add(c)
                chain.append(c)
        if not chain:
            continue
        for a, b in zip(chain, chain[1:]):
            entries[a] = b
        entries[chain[-1]] = rng.randint(0xfff8, 0xffff)
        chains.append(chain)
    # sprinkle reserved words at chain heads (legal: skipped)
    for _ in range(rng.randint(0, 5)):
        c = rng.randint(2, FAT_NUM_ENTRIES - 1)
        if c not in used:
            entries[c] = FAT_RESERVED_FLAG
            used.add(c)
    if chains:
        victim = rng.choice(chains)
        if kind == "free_mid":
            entries[victim[-1]] = FAT_FREE_FLAG  # legal when chain length 1
        elif kind == "reserved_mid":
            entries[victim[-1]] = FAT_RESERVED_FLAG
        elif kind == "error_mid":
            entries[victim[-1]] = FAT_ERROR_FLAG
        elif kind == "error_head":
            entries[victim[0]] = FAT_ERROR_FLAG
        elif kind == "loop":
            entries[victim[-1]] = rng.choice(victim)
        elif kind == "merge" and len(chains) > 1:
            other = rng.choice(chains)
            entries[victim[-1]] = rng.choice(other)
        elif kind == "to_low":
            entries[victim[-1]] = rng.choice([0, 1])
            entries[0] = rng.choice([0xfffa, 0, 1, 5])
            entries[1] = rng.choice([0xfff8, 0, 1, 7, 0xfff7])
        elif kind == "tail_region":
            c = FAT_NUM_ENTRIES - rng.randint(1, 9)
            entries[victim[-1]] = c
            entries[c] = rng.choice([0, 1, 0xfff7, 0xfff8, 0xffff, 2])
    fat_id = FAT_AREA_ID
    if kind == "bad_id":
        fat_id = rng.choice([0, 0xfffb, 0xffff])
    flags = [0xffff, 0xfffe, 0xfffd, 0, 1, 0xfff8]
    if kind == "flags":
        vf1, vf2 = rng.choice(flags), rng.choice(flags)
    else:
        vf1, vf2 = rng.choice([(0xffff, 0xffff), (0xffff, 0xfffe),
                               (0xfffe, 0xfffe), (0xfffe, 0xffff)])
    entries[0] = entries[0] if kind == "to_low" else fat_id
    metadata = SimpleNamespace(
        fat_id=fat_id,
        num_unused_clusters=rng.randint(0, 0xffff),
        version_flag_1=vf1,
        version_flag_2=vf2
    )
    return SimpleNamespace(
        fat_entries=entries,
        metadata=metadata,
        stream_size=0,
        fat_data_stream=object()
    )


def outcome(func, container):
    try:
        res = func(container)
    except Exception as e:  # noqa
        return ("raise", type(e), str(e))
    links = res.fat.sector_links
    return ("ok", res.version, res.num_remaining_clusters, res.fat.size,
            id(res.fat.parent_stream), type(res.fat), len(links),
            [(l.next, l.end) for l in links])


def differential():
    kinds = ["plain", "plain", "free_mid", "reserved_mid", "error_mid",
             "error_head", "loop", "merge", "to_low", "tail_region",
             "bad_id", "flags", "flags"]
    bad = 0
    stats = {}
    n = 0
    for seed in range(12):
        for kind in kinds:
            rng = _random.Random(seed * 1000 + 17 * len(kind) + n)
            container = make_container(rng, kind)
            want = outcome(original_decode, container)
            got = outcome(
                lambda c: FatAreaParser._decode(c, {}, "demo"), container)
            n += 1
            key = want[0] if want[0] == "ok" else want[2]
            stats[key] = stats.get(key, 0) + 1
            if want != got:
                bad += 1
                print("MISMATCH", seed, kind, want[:3], got[:3])
    print("differential cases:", n, "mismatches:", bad)
    for k, v in sorted(stats.items()):
        print("   %4d  %s" % (v, k))
    return bad

# ---------------------------------------------------------------------------
# Independent Roland S-7xx image writer + end-to-end export check
# (shared verbatim by the four demos; uses only the documented disk layout)
# ---------------------------------------------------------------------------
import contextlib
import io
import os
import random
import shutil
import struct
import tempfile
import wave

CLUSTER = 0x2400
FAT_OFF = 0x80800
DATA_FAT_OFF = 0x2b1000
DIR_OFF = {"vol": 0xa0800, "perf": 0xa1800, "patch": 0xa5800,
           "partial": 0xad800, "sample": 0xcd800}
PAR_OFF = {"vol": 0x10d800, "perf": 0x115800, "patch": 0x155800,
           "partial": 0x1d5800, "sample": 0x255800}
PAR_SIZE = {"vol": 0x100, "perf": 0x200, "patch": 0x200,
            "partial": 0x80, "sample": 0x30}
FTYPE = {"vol": 0x40, "perf": 0x41, "patch": 0x42, "partial": 0x43,
         "sample": 0x44}
FREQS = [48000, 44100, 24000, 22050, 30000, 15000]


def _name(s):
    return s.encode("ascii").ljust(16, b"\x00")


def _ptrs(lst, n):
    lst = list(lst) + [-1] * (n - len(lst))
    return struct.pack("<%dh" % n, *lst)


class S7Image:
    def __init__(self, fat_version=1, max_cluster=48):
        self.size = DATA_FAT_OFF + (max_cluster + 1) * CLUSTER
        self.buf = bytearray(self.size)
        self.fat = [0] * 0x10000
        self.fat[0] = 0xfffa
        self.fat[1] = 0x1234
        flag = 0xffff if fat_version == 1 else 0xfffe
        self.fat[0xfffe] = 0xffff
        self.fat[0xffff] = flag
        self.fat_version = fat_version
        self.counts = dict(vol=0, perf=0, patch=0, partial=0, sample=0)
        self.free = list(range(2, max_cluster + 1))

    def _put(self, off, data):
        self.buf[off:off + len(data)] = data

    def _dir(self, kind, idx, name, fat_entry=0, nclus=0):
        link = 0x8000 if self.fat_version == 2 else 0
        rec = _name(name) + struct.pack(
            "<BBHHHIHH", FTYPE[kind], 0, link, link, 0, 0, fat_entry, nclus)
        assert len(rec) == 0x20
        self._put(DIR_OFF[kind] + 0x20 * idx, rec)
        self.counts[kind] += 1

    def _par(self, kind, idx, rec):
        assert len(rec) == PAR_SIZE[kind], (kind, len(rec))
        self._put(PAR_OFF[kind] + PAR_SIZE[kind] * idx, rec)

    def volume(self, idx, name, perfs):
        self._dir("vol", idx, name)
        self._par("vol", idx, _name(name) + bytes(16) + _ptrs(perfs, 64)
                  + bytes(0x60))

    def performance(self, idx, name, patches):
        self._dir("perf", idx, name)
        rec = (_name(name) + bytes(208) + bytes(16) + bytes(16)
               + _ptrs(patches, 32) + bytes(0xC0))
        self._par("perf", idx, rec)

    def patch(self, idx, name, partials):
        self._dir("patch", idx, name)
        rec = (_name(name) + bytes(16) + bytes(96) + bytes(96) + bytes(32)
               + _ptrs(partials, 88) + bytes(0x50))
        self._par("patch", idx, rec)

    def partial(self, idx, name, samples):
        assert len(samples) <= 4
        sel = list(samples) + [-1] * (4 - len(samples))
        sec = [struct.pack("<h", s) + bytes(9) for s in sel]
        rec = (_name(name) + sec[0] + bytes(5) + sec[1] + bytes(5) + sec[2]
               + bytes(5) + sec[3] + bytes(21 + 16 + 9 + 7))
        self._dir("partial", idx, name)
        self._par("partial", idx, rec)

    def sample(self, idx, name, words, points, loop_mode, freq_code,
               cluster_top=0, chain=None, rng=None):
        """words: list of int16 making up the sample's file AFTER the
        cluster_top leading clusters.  points: 5 word addresses."""
        data = struct.pack("<%dh" % len(words), *words)
        nclus = max(1, -(-len(data) // CLUSTER))
        total = nclus + cluster_top
        if chain is None:
            pool = self.free[:]
            if rng is not None:
                rng.shuffle(pool)
            chain = pool[:total]
        assert len(chain) == total
        for c in chain:
            self.free.remove(c)
        for a, b in zip(chain, chain[1:]):
            self.fat[a] = b
        self.fat[chain[-1]] = 0xfff8 + (idx % 8)
        filler = random.Random(idx)
        for c in chain[:cluster_top]:
            self._put(DATA_FAT_OFF + c * CLUSTER,
                      bytes(filler.randrange(256) for _ in range(64)))
        data = data.ljust(nclus * CLUSTER, b"\xEE")
        for k, c in enumerate(chain[cluster_top:]):
            self._put(DATA_FAT_OFF + c * CLUSTER,
                      data[k * CLUSTER:(k + 1) * CLUSTER])
        self._dir("sample", idx, name, chain[0], total)
        pts = b"".join(struct.pack("<I", (p << 8) | (7 * k + 1))
                       for k, p in enumerate(points))
        rec = (_name(name) + pts + struct.pack(
            "<BBBBHHBBH", loop_mode, 1, 0, 0, cluster_top, total,
            freq_code, 60, 0))
        self._par("sample", idx, rec)

    def tobytes(self):
        ida = struct.pack("<I", 1) + b"S770 MR25A" + bytes(2)
        ida += bytes(15) + bytes(1)
        ida += b"S-770 Hard Disk Ver. 1.00".ljust(31, b"\x00") + bytes(1)
        ida += b"Copyright Roland".ljust(31, b"\x00") + bytes(1)
        ida += bytes(160) + _name("DEMO DISK") + struct.pack(
            "<IHHHHH", 0, self.counts["vol"], self.counts["perf"],
            self.counts["patch"], self.counts["partial"],
            self.counts["sample"])
        self._put(0, ida.ljust(0x200, b"\x00"))
        self._put(FAT_OFF, struct.pack("<65536H", *self.fat))
        return bytes(self.buf)


def expected_pcm(words, points, loop_mode):
    start, s_start, s_end, r_start, r_end = points
    end = r_end if loop_mode in (1, 3) else s_end
    pcm = words[start:end + 1]
    if loop_mode in (5, 6):
        pcm = pcm[::-1]
    return struct.pack("<%dh" % len(pcm), *pcm)


def make_case(seed):
    """Random well-formed image + the set of (relative wav path -> pcm, rate)
    that `export` must produce."""
    rng = random.Random(seed)
    img = S7Image(fat_version=rng.choice([1, 2]))
    n_samples = rng.randint(3, 6)
    sample_info = {}
    for s in range(n_samples):
        sidx = s * 3 + rng.randint(0, 2)
        kind = rng.randrange(4)
        if kind == 0:
            n_words = (CLUSTER // 2) * rng.randint(1, 3)  # fills last cluster
        elif kind == 1:
            n_words = rng.randint(8, 64)
        else:
            n_words = rng.randint(64, CLUSTER + 500)
        words = [rng.randint(-32768, 32767) for _ in range(n_words)]
        start = rng.randint(0, min(5, n_words - 4))
        if kind == 0:
            start = rng.choice([0, start])
        pts = sorted(rng.randint(start, n_words - 1) for _ in range(4))
        s_start, s_end, r_start, r_end = pts
        if kind == 0 or rng.random() < 0.3:
            s_end = r_end = n_words - 1      # window ends on last word
            s_start = min(s_start, s_end)
            r_start = min(r_start, r_end)
        points = (start, s_start, s_end, r_start, r_end)
        mode = (seed + s) % 7
        fcode = (seed // 7 + s) % 6
        top = rng.choice([0, 0, 1, 2])
        name = "SMP%02d" % sidx
        img.sample(sidx, name, words, points, mode, fcode, cluster_top=top,
                   rng=rng)
        sample_info[sidx] = (name, expected_pcm(words, points, mode),
                             FREQS[fcode])
    sidxs = sorted(sample_info)
    # partials
    n_partials = rng.randint(2, 4)
    partials = {}
    for p in range(n_partials):
        pidx = 5 * p + rng.randint(0, 4)
        refs = rng.sample(sidxs, rng.randint(1, min(4, len(sidxs))))
        partials[pidx] = refs
        img.partial(pidx, "PRT%02d" % pidx, refs)
    pidxs = sorted(partials)
    n_patches = rng.randint(2, 3)
    patches = {}
    for q in range(n_patches):
        qidx = 4 * q + rng.randint(0, 3)
        refs = rng.sample(pidxs, rng.randint(1, len(pidxs)))
        patches[qidx] = refs
        img.patch(qidx, "PAT%02d" % qidx, refs)
    qidxs = sorted(patches)
    n_perfs = rng.randint(1, 3)
    perfs = {}
    for r in range(n_perfs):
        ridx = 3 * r + rng.randint(0, 2)
        refs = rng.sample(qidxs, rng.randint(1, len(qidxs)))
        perfs[ridx] = refs
        img.performance(ridx, "PRF%02d" % ridx, refs)
    ridxs = sorted(perfs)
    layout = seed % 3           # 0: all in volumes, 1: some orphan, 2: no vol
    vols = {}
    if layout == 0:
        vols[0] = ridxs
        if len(ridxs) > 1:
            vols[1] = ridxs[:1]                      # shared performance
    elif layout == 1 and len(ridxs) > 1:
        vols[0] = ridxs[:-1]
    elif layout == 1:
        vols[0] = ridxs
    for vidx, refs in vols.items():
        img.volume(vidx, "VOL%02d" % vidx, refs)
    in_vol = set(x for refs in vols.values() for x in refs)
    orphans = [r for r in ridxs if r not in in_vol]
    vol_map = {"VOL%02d" % v: refs for v, refs in vols.items()}
    if orphans:
        vol_map["_Orphan_perf" if vols else "All Performances"] = orphans
    expected = {}
    for vname, refs in vol_map.items():
        for ridx in refs:
            # the exporter lists a sample once per patch that uses it and
            # disambiguates the repeats as "NAME (2)", "NAME (3)", ...
            used = {}
            for qidx in perfs[ridx]:
                in_patch = set()
                for pidx in patches[qidx]:
                    in_patch.update(partials[pidx])
                for sidx in in_patch:
                    used[sidx] = used.get(sidx, 0) + 1
            for sidx, count in used.items():
                name, pcm, rate = sample_info[sidx]
                for k in range(1, count + 1):
                    suffix = "" if k == 1 else " (%d)" % k
                    rel = "%s/PRF%02d/%s%s.wav" % (vname, ridx, name, suffix)
                    expected[rel] = (pcm, rate)
    return img.tobytes(), expected


def run_export(image_bytes):
    """Run the real `export` on the image; return ({relpath: (pcm, rate)},
    sorted stdout lines)."""
    from smpl_extract.actions import export_samples_to_wav
    tmp = tempfile.mkdtemp(prefix="s7demo_")
    try:
        img_path = os.path.join(tmp, "disk.img")
        with open(img_path, "wb") as f:
            f.write(image_bytes)
        dest = os.path.join(tmp, "out")
        os.mkdir(dest)
        out = io.StringIO()
        with contextlib.redirect_stdout(out):
            export_samples_to_wav(img_path, dest)
        got = {}
        for root, _, files in os.walk(dest):
            for fn in files:
                full = os.path.join(root, fn)
                rel = os.path.relpath(full, dest).replace(os.sep, "/")
                with wave.open(full, "rb") as w:
                    assert w.getnchannels() == 1 and w.getsampwidth() == 2
                    got[rel] = (w.readframes(w.getnframes()),
                                w.getframerate())
        return got, sorted(out.getvalue().splitlines())
    finally:
        shutil.rmtree(tmp, ignore_errors=True)


def end_to_end_check(seeds):
    """Returns number of mismatching images."""
    bad = 0
    for seed in seeds:
        image_bytes, expected = make_case(seed)
        got, lines = run_export(image_bytes)
        want_lines = sorted("Exported " + k for k in expected)
        if got != expected or lines != want_lines:
            bad += 1
            print("END-TO-END MISMATCH seed", seed)
            print("  missing:", sorted(set(expected) - set(got)))
            print("  extra  :", sorted(set(got) - set(expected)))
            print("  differ :", sorted(k for k in expected
                                      if k in got and got[k] != expected[k]))
    return bad
# ---------------------------------------------------------------------------


def main():
    bad = differential()
    bad += end_to_end_check(range(42))
    print("end-to-end images checked: 42")
    if bad:
        print("FAIL")
        return 1
    print("OK")
    return 0


if __name__ == "__main__":
    sys.exit(main())
