"""Equivalence demo for r7: smpl_extract.akai.file_entry
(FileEntriesAdapter._parse, the AKAI file-table scan).

Compares the (possibly refactored) adapter against an inline copy of the
ORIGINAL _parse on many generated / random / truncated file tables, and
compares the exact sequence of seek/tell/read calls made on the table
stream.  Exit 0 when everything agrees, 1 otherwise.
"""
from io import BytesIO
from io import SEEK_CUR
from io import SEEK_END
from io import SEEK_SET
import random
import sys
from typing import Iterable
from typing import List
from typing import Union

from construct.core import Construct
from construct.core import ConstructError
from construct.core import Int16ul
from construct.core import Lazy
from construct.core import StreamError
from construct.core import Subconstruct
from construct.expr import this
from construct.lib.containers import Container

from smpl_extract.akai import file_entry as fe_mod
from smpl_extract.akai.data_types import FILE_TABLE_END_FLAG
from smpl_extract.akai.file import FileAdapter
from smpl_extract.akai.file import FileConstruct
from smpl_extract.akai.file_entry import FileEntry
from smpl_extract.akai.file_entry import FileEntryConstruct
from smpl_extract.akai.file_entry import FileEntryContainer
from smpl_extract.util.constructs import pull_child_info
from smpl_extract.util.fat import RequestedInvalidSector
from smpl_extract.util.stream import StreamWrapper


# --------------------------------------------------------------------------
# ORIGINAL implementation (verbatim copy of the class)
# --------------------------------------------------------------------------
class FileEntriesAdapterOriginal(Subconstruct):


    def __init__(self, sat, subcon):
        super().__init__(subcon)  # type: ignore
        self.sat = sat


    def _parse(self, stream, context, path)->Iterable[FileEntry]:


        def is_table_end(stream_inner):
            original_address = stream_inner.tell()

            stream_inner.seek(8, SEEK_CUR)
            try:
                end_flag = Int16ul.parse_stream(stream_inner)
            except (StreamError):
                return True

            stream_inner.seek(original_address, SEEK_SET)

            result = (end_flag == FILE_TABLE_END_FLAG)
            return result


        child_info = pull_child_info(context)
        parent = child_info.parent
        sat = self.sat(context) if callable(self.sat) else self.sat

        # read file entries containers
        stream.seek(0, SEEK_END)
        file_table_size = stream.tell()
        stream.seek(0, SEEK_SET)

        table_entry_size = self.subcon.sizeof()
        max_table_entry_cnt = file_table_size // table_entry_size

        file_entries: List[FileEntry] = []
        for _i in range(max_table_entry_cnt):
            if is_table_end(stream):
                break
            file_entry_container: Union[FileEntryContainer, None] = None
            entry_address = stream.tell()
            try:
                file_entry_container = self.subcon.parse_stream(stream, _=context, sat=sat)
            except (ConstructError, RequestedInvalidSector):
                # skip the bad entry, stay aligned with the table
                stream.seek(entry_address + table_entry_size, SEEK_SET)

            if file_entry_container is not None and file_entry_container.start > 0:
                name = file_entry_container.name
                file_content = Lazy(FileAdapter(
                        this._.sat,
                        FileConstruct
                    )).parse_stream(
                        file_entry_container.file_stream,  # type: ignore
                        _=context,
                        file_type=file_entry_container.file_type,
                        _elem_name=name,
                        _elem_parent=parent,
                        _elem_routines=child_info.routines
                    )

                if file_content is None:
                    raise ConstructError

                file_entry = FileEntry(
                    file_entry_container.name,
                    file_entry_container.file_type,
                    file_content
                )

                file_entries.append(file_entry)

        result = file_entries
        return result


    def _build(self, obj, stream, context, path):
        raise NotImplementedError


# --------------------------------------------------------------------------
# Instrumentation
# --------------------------------------------------------------------------
class LoggedTable:
    """Seekable byte stream logging every call (order of I/O matters)."""

    def __init__(self, data, log, fail_read_at=None):
        self.inner = BytesIO(data)
        self.log = log
        self.fail_read_at = fail_read_at

    def seek(self, offset, whence=SEEK_SET):
        res = self.inner.seek(offset, whence)
        self.log.append(("seek", offset, whence, res))
        return res

    def tell(self):
        res = self.inner.tell()
        self.log.append(("tell", res))
        return res

    def read(self, size=-1):
        pos = self.inner.tell()
        if self.fail_read_at is not None and pos + size > self.fail_read_at:
            self.log.append(("read-fail", size, pos))
            raise OSError("device error")
        res = self.inner.read(size)
        self.log.append(("read", size, pos, res))
        return res


class SegmentStream(BytesIO):
    pass


class FakeSat:
    def __init__(self, log, bad_starts, weird_starts):
        self.log = log
        self.bad_starts = bad_starts
        self.weird_starts = weird_starts

    def get_segment(self, start):
        self.log.append(("get_segment", start))
        if start in self.bad_starts:
            raise RequestedInvalidSector
        if start in self.weird_starts:
            raise KeyError(start)
        return SegmentStream(bytes((start + i) & 0xFF for i in range(64)))


rnd = random.Random(1507)
VALID_NAME_BYTES = list(range(0, 41))
FILE_TYPES = [100, 112, 113, 115, 120, 240, 243]
ENTRY_SIZE = 24
assert FileEntryConstruct.sizeof() == ENTRY_SIZE


def make_entry(kind):
    if kind == "end":
        name = bytearray(rnd.choice(VALID_NAME_BYTES) for _ in range(12))
        name[8:10] = FILE_TABLE_END_FLAG.to_bytes(2, "little")
        return bytes(name) + bytes(rnd.randrange(256) for _ in range(12))
    if kind == "random":
        return bytes(rnd.randrange(256) for _ in range(ENTRY_SIZE))
    name = bytes(rnd.choice(VALID_NAME_BYTES) for _ in range(12))
    file_type = rnd.choice(FILE_TYPES)
    start = rnd.choice([1, 2, 3, 7, 40, 500, 0xFFFF])
    size = rnd.randrange(0, 1 << 24)
    if kind == "bad_name":
        name = name[:3] + bytes([rnd.randrange(41, 256)]) + name[4:]
        if name[8:10] == FILE_TABLE_END_FLAG.to_bytes(2, "little"):
            name = name[:8] + b"\x00\x00" + name[10:]
    elif kind == "bad_type":
        file_type = rnd.choice([0, 1, 99, 114, 255])
    elif kind == "zero_start":
        start = 0
    elif kind == "bad_sector":
        start = rnd.choice([13, 666])
    elif kind == "weird_sector":
        start = 999
    return (
        name + bytes(4) + bytes([file_type]) + size.to_bytes(3, "little")
        + start.to_bytes(2, "little") + bytes(2)
    )


KINDS = ["good", "good", "good", "bad_name", "bad_type", "zero_start",
         "bad_sector", "random", "end", "weird_sector"]


def make_table():
    n = rnd.choice([0, 1, 2, 3, 5, 8, 20])
    weights = rnd.choice([
        [8, 8, 8, 2, 2, 2, 2, 1, 1, 0],
        [1, 1, 1, 1, 1, 1, 1, 1, 0, 0],
        [5, 5, 5, 1, 1, 1, 1, 0, 0, 1],
        [1, 0, 0, 0, 0, 0, 0, 5, 0, 0],
    ])
    entries = [make_entry(rnd.choices(KINDS, weights)[0]) for _ in range(n)]
    data = b"".join(entries)
    cut = rnd.choice(["none", "none", "interior", "tail", "pad"])
    if cut == "interior" and data:
        data = data[:rnd.randrange(0, len(data))]
    elif cut == "tail" and data:
        data = data[:len(data) - rnd.choice([1, 2, 13, 14, 15, 16, 23])]
    elif cut == "pad":
        data = data + bytes(rnd.randrange(256)
                            for _ in range(rnd.randrange(1, 23)))
    return data


def describe_entries(entries):
    out = [type(entries)]
    for e in entries:
        try:
            content = e.file
            realized = ("ok", type(content), repr(content)[:80])
        except BaseException as exc:  # noqa
            realized = ("exc", type(exc))
        out.append((type(e), e.name, e.file_type, realized))
    return out


def run(adapter_cls, data, wrap, fail_read_at, sat_callable):
    log = []
    sat = FakeSat(log, bad_starts={13, 666}, weird_starts={999})
    table = LoggedTable(data, log, fail_read_at)
    stream = StreamWrapper(table, len(data)) if wrap else table
    sat_arg = (lambda ctx: ctx["sat"]) if sat_callable else sat
    adapter = adapter_cls(sat_arg, FileEntryConstruct)
    context = Container(sat=sat, _elem_name="VOL", _elem_routines=[])
    try:
        res = adapter._parse(stream, context, "(demo)")
        out = ("ok", describe_entries(res))
    except BaseException as e:  # noqa
        out = ("exc", type(e), str(e)[:200])
    final_pos = stream.tell()
    return out, final_pos, log


failures = 0
checks = 0
stats = {"ok": 0, "exc": 0, "entries": 0}

for trial in range(3000):
    data = make_table()
    wrap = rnd.random() < 0.5
    fail_read_at = None
    if rnd.random() < 0.1 and data:
        fail_read_at = rnd.randrange(0, len(data) + 1)
    sat_callable = rnd.random() < 0.5
    a = run(FileEntriesAdapterOriginal, data, wrap, fail_read_at,
            sat_callable)
    b = run(fe_mod.FileEntriesAdapter, data, wrap, fail_read_at,
            sat_callable)
    checks += 1
    stats[a[0][0]] += 1
    if a[0][0] == "ok":
        stats["entries"] += len(a[0][1]) - 1
    if a != b:
        failures += 1
        print("MISMATCH trial", trial, "len", len(data), "wrap", wrap)
        print("  original  :", repr(a)[:500])
        print("  refactored:", repr(b)[:500])


# subcon that yields None / odd containers: the `is not None` and
# `start > 0` tests must behave the same
class OddSubcon(Construct):
    def __init__(self, values):
        super().__init__()
        self.values = values
        self.calls = 0

    def _sizeof(self, context, path):
        return ENTRY_SIZE

    def _parse(self, stream, context, path):
        stream.read(ENTRY_SIZE)
        value = self.values[self.calls % len(self.values)]
        self.calls += 1
        if isinstance(value, BaseException):
            raise value
        return value


def run_odd(adapter_cls, values, n_entries):
    log = []
    data = bytes(ENTRY_SIZE * n_entries)
    table = LoggedTable(data, log)
    adapter = adapter_cls(None, OddSubcon(values))
    context = Container(sat=None)
    try:
        res = adapter._parse(table, context, "(odd)")
        out = ("ok", [(e.name, e.file_type) for e in res])
    except BaseException as e:  # noqa
        out = ("exc", type(e), str(e)[:200])
    return out, log


odd_value_sets = [
    [None],
    [None, Container(name="A", file_type=1, start=0, file_stream=BytesIO())],
    [Container(name="B", file_type=2, start=5, file_stream=BytesIO(b"x")),
     None, ConstructError("x"), RequestedInvalidSector()],
    [ConstructError("boom")],
    [ValueError("not caught")],
    [Container(name="C", file_type=3, start=-1, file_stream=BytesIO())],
]
for values in odd_value_sets:
    for n_entries in (0, 1, 2, 5):
        checks += 1
        a = run_odd(FileEntriesAdapterOriginal, values, n_entries)
        b = run_odd(fe_mod.FileEntriesAdapter, values, n_entries)
        if a != b:
            failures += 1
            print("MISMATCH odd", values, n_entries)
            print("  original  :", repr(a)[:500])
            print("  refactored:", repr(b)[:500])

print("checks: %d  failures: %d  (ok runs %d, exc runs %d, entries %d)" % (
    checks, failures, stats["ok"], stats["exc"], stats["entries"]))
sys.exit(1 if failures else 0)
