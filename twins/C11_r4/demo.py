"""Equivalence demo for r4 (transcoder.decode_frame: loop-with-append replaced
by extend() over a generator, `channels += samples` by channels.extend(samples),
local `buffer` renamed `block`).

The live decode_frame is compared with a verbatim inline copy of the ORIGINAL
on many combinations of 1-3 data streams (mono / interleaved, 8/16/32 bit,
signed / unsigned) whose byte streams are StreamOffset / FileStream /
StreamReversed views that share ONE recording file handle, for many block
sizes, called repeatedly until the streams are exhausted.  Compared: the
returned arrays (dtype, shape, strides, bytes, writeable flag), exceptions, the
position of every view and the exact sequence of calls reaching the shared
handle.  The same is done end-to-end through make_transcoder().
"""
import io
import itertools
import random
import sys
from typing import List

import numpy as np

import smpl_extract.transcoder as transcoder
from smpl_extract.data_streams import DataStream
from smpl_extract.data_streams import Endianess
from smpl_extract.data_streams import StreamEncoding
from smpl_extract.transcoder import get_buffer_sizes
from smpl_extract.transcoder import make_transcoder
from smpl_extract.transcoder import resize_buffer
from smpl_extract.util.fat import FileStream
from smpl_extract.util.stream import StreamOffset
from smpl_extract.util.stream import StreamReversed


# ---- verbatim copy of the original decode_frame ----------------------------
def orig_decode_frame(
        streams: List[DataStream],
        buffer_sizes: List[int]
) -> List[np.ndarray]:

    channels: List[np.ndarray] = []

    for stream, size in zip(streams, buffer_sizes):
        dtype = stream.encoding.dtype
        num_channels = max(1, stream.encoding.num_interleaved_channels)
        buffer = stream.stream.read(size)
        buffer = resize_buffer(buffer, stream.frame_size)

        if buffer is None or len(buffer) <= 0:
            for i in range(num_channels):
                channels.append(np.zeros(0, dtype=dtype))
            continue

        samples_interleaved: np.ndarray = np.frombuffer(buffer, dtype=dtype)
        samples = [samples_interleaved]
        if num_channels > 1:
            samples_arr = samples_interleaved.reshape((-1, num_channels)).T
            samples = list(samples_arr)

        channels += samples

    return channels


live_decode_frame = transcoder.decode_frame


class Recorder(io.BytesIO):
    def __init__(self, data):
        super().__init__(data)
        self.log = []

    def tell(self):
        r = super().tell()
        self.log.append(("tell", r))
        return r

    def seek(self, *a):
        r = super().seek(*a)
        self.log.append(("seek", a, r))
        return r

    def read(self, *a):
        r = super().read(*a)
        self.log.append(("read", a, r))
        return r


DATA = bytes((i * 29 + (i >> 6) * 3) & 0xFF for i in range(6000))

ENCODINGS = [
    StreamEncoding(Endianess.LITTLE, 2, 1, True),
    StreamEncoding(Endianess.BIG, 2, 1, True),
    StreamEncoding(Endianess.LITTLE, 1, 1, False),
    StreamEncoding(Endianess.LITTLE, 2, 2, True),
    StreamEncoding(Endianess.LITTLE, 4, 1, True),
    StreamEncoding(Endianess.BIG, 1, 3, True),
    StreamEncoding(Endianess.LITTLE, 3, 1, True),     # width without dtype -> default
    StreamEncoding(Endianess.LITTLE, 2, 0, True),     # degenerate: frame_size 0
]


def make_views(kinds, rng):
    """Byte streams for the samples; all of them share one handle."""
    fh = Recorder(DATA)
    part = StreamOffset(fh, size=5000, offset=128)
    views = []
    for k in kinds:
        if k == "offset":
            views.append(StreamOffset(fh, size=rng.choice([0, 7, 96, 400]),
                                      offset=rng.randrange(0, 3000)))
        elif k == "nested":
            views.append(StreamOffset(part, size=rng.choice([50, 97, 384]),
                                      offset=rng.randrange(0, 2000)))
        elif k == "file":
            secs = [rng.randrange(0, 70) for _ in range(rng.randrange(1, 6))]
            views.append(FileStream(part, sector_size=64, sector_list=secs))
        elif k == "reversed":
            inner = StreamOffset(fh, size=240, offset=rng.randrange(0, 800))
            views.append(StreamReversed(inner, size=240, sample_width=2))
        else:
            raise AssertionError(k)
    return fh, views


def describe(result):
    return [(str(a.dtype), a.shape, a.strides, a.tobytes(), a.flags.writeable,
             a.flags.c_contiguous) for a in result]


def outcome(f):
    try:
        return ("ok", describe(f()))
    except Exception as e:  # noqa: BLE001
        return ("exc", type(e).__name__, str(e))


failures = 0
checked = 0


def check(label, a, b):
    global failures, checked
    checked += 1
    if a != b:
        failures += 1
        if failures < 10:
            print("MISMATCH", label)
            print("  live:", repr(a)[:300])
            print("  orig:", repr(b)[:300])


KINDS = ["offset", "nested", "file", "reversed"]
SIZES = [0, 1, 2, 3, 4, 6, 7, 16, 63, 64, 65, 100, 128, 130, 1000]

case = 0
for n in (1, 2, 3):
    for kinds in itertools.product(KINDS, repeat=n):
        for rep in range(6 if n < 3 else 2):
            case += 1
            rng = random.Random(case)
            encs = [rng.choice(ENCODINGS) for _ in range(n)]
            sizes = [rng.choice(SIZES) for _ in range(n)]
            # sometimes a size list of a different length than the stream list
            if rng.random() < 0.1:
                sizes = sizes[:-1] if rng.random() < 0.5 else sizes + [8]
            seed = rng.random()
            fa, va = make_views(kinds, random.Random(seed))
            fb, vb = make_views(kinds, random.Random(seed))
            sa = [DataStream(v, e) for v, e in zip(va, encs)]
            sb = [DataStream(v, e) for v, e in zip(vb, encs)]
            for call in range(8):
                ra = outcome(lambda: live_decode_frame(sa, sizes))
                rb = outcome(lambda: orig_decode_frame(sb, sizes))
                label = f"case {case} {kinds} sizes {sizes} call {call}"
                check(label, ra, rb)
                check(label + " positions", [v.position for v in va],
                      [v.position for v in vb])
                check(label + " handle log", fa.log, fb.log)
                # other activity on the shared handle between two frames
                if call % 3 == 1:
                    fa.seek(rng.randrange(0, 6000))
                    fb.seek(fa.log[-1][1][0])

# the documented use: buffer sizes from get_buffer_sizes(), left/right stereo pair
for case in range(200):
    rng = random.Random(9000 + case)
    kinds = [rng.choice(KINDS) for _ in range(2)]
    enc = rng.choice(ENCODINGS[:6])
    seed = rng.random()
    fa, va = make_views(kinds, random.Random(seed))
    fb, vb = make_views(kinds, random.Random(seed))
    sa = [DataStream(v, enc) for v in va]
    sb = [DataStream(v, enc) for v in vb]
    sizes = get_buffer_sizes(sa)
    for call in range(4):
        check(f"stereo {case} call {call}",
              outcome(lambda: live_decode_frame(sa, sizes)),
              outcome(lambda: orig_decode_frame(sb, sizes)))
    check(f"stereo {case} log", fa.log, fb.log)

# end to end through make_transcoder (module attribute swapped for the reference run)
def transcode(decode, kinds, encs, dest, seed):
    fh, views = make_views(kinds, random.Random(seed))
    streams = [DataStream(v, e) for v, e in zip(views, encs)]
    transcoder.decode_frame = decode
    try:
        try:
            out = list(make_transcoder(streams, dest))
            res = ("ok", out)
        except Exception as e:  # noqa: BLE001
            res = ("exc", type(e).__name__, str(e))
    finally:
        transcoder.decode_frame = live_decode_frame
    return res, fh.log, [v.position for v in views]


for case in range(150):
    rng = random.Random(20000 + case)
    n = rng.choice([1, 2])
    kinds = [rng.choice(KINDS) for _ in range(n)]
    encs = [rng.choice(ENCODINGS[:6]) for _ in range(n)]
    total = sum(max(1, e.num_interleaved_channels) for e in encs)
    dest = StreamEncoding(rng.choice([Endianess.LITTLE, Endianess.BIG]),
                          rng.choice([1, 2, 4]), total, True)
    seed = rng.random()
    check(f"transcode {case}",
          transcode(live_decode_frame, kinds, encs, dest, seed),
          transcode(orig_decode_frame, kinds, encs, dest, seed))

print(f"{checked} comparisons, {failures} mismatches")
sys.exit(1 if failures else 0)
