"""Equivalence demo for RolandFileAllocationTable.get_file
(smpl_extract/roland/s7xx/fat.py).

The live get_file is compared with an inline copy of the ORIGINAL one on
 * hand-made and random allocation tables (good chains, loops, out-of-range
   links, odd cluster_offset values): type and attributes of the file object,
   exceptions, identity of the shared parent stream;
 * a generated Roland image whose FAT area is parsed with FatAreaParser, so the
   files are views onto the real shared `fat_data_stream` window: bytes read
   per file and the complete seek/read/tell trace on the one file handle for
   exhaustive (2 files x 3 blocks) and random interleavings.
Exit 0 when everything agrees, 1 otherwise.
"""
import io
import itertools
import random
import struct
import sys
import zlib

from smpl_extract.roland.s7xx.data_types import DATA_FAT_OFFSET
from smpl_extract.roland.s7xx.data_types import FAT_AREA_OFFSET
from smpl_extract.roland.s7xx.data_types import FAT_NUM_ENTRIES
from smpl_extract.roland.s7xx.data_types import ROLAND_CLUSTER_SIZE
from smpl_extract.roland.s7xx.fat import FatAreaParser
from smpl_extract.roland.s7xx.fat import RolandFile
from smpl_extract.roland.s7xx.fat import RolandFileAllocationTable
from smpl_extract.util.fat import SectorLink
from smpl_extract.util.stream import StreamOffset
from smpl_extract.util.stream import StreamWrapper


class OrigTable(RolandFileAllocationTable):
    def get_file(self, index, cluster_offset=0):
        """Verbatim copy of the original get_file."""
        sector_list = self.get_path(index)
        if cluster_offset > 0:
            sector_list = sector_list[cluster_offset:]
        result = RolandFile(
            self.parent_stream,
            sector_list
        )
        return result


class TraceIO(io.BytesIO):
    def __init__(self, data):
        super().__init__(data)
        self.trace = []

    def seek(self, off, whence=0):
        r = super().seek(off, whence)
        self.trace.append(("seek", off, whence, r))
        return r

    def read(self, n=-1):
        r = super().read(n)
        self.trace.append(("read", n, len(r), zlib.crc32(r)))
        return r

    def tell(self):
        r = super().tell()
        self.trace.append(("tell", r))
        return r


FAILS = []


def check(label, a, b):
    if a != b:
        FAILS.append(label)
        print("MISMATCH", label)
        print("   live:", repr(a)[:400])
        print("   orig:", repr(b)[:400])


def attempt(f, *a, **k):
    try:
        return ("ok", f(*a, **k))
    except Exception as e:  # noqa
        return ("exc", type(e).__name__, str(e))


def describe(table, res):
    if res[0] != "ok":
        return res
    f = res[1]
    d = dict(f.__dict__)
    parent = d.pop("substream")
    return ("ok", type(f) is RolandFile, parent is table.parent_stream, sorted((k, repr(v)) for k, v in d.items()))


# --------------------------------------------------------- synthetic tables
def tables(links, size=None):
    parent = object()
    size = len(links) if size is None else size
    return [cls(parent, size, list(links)) for cls in (RolandFileAllocationTable, OrigTable)]


def chain(n, order):
    """n entries; `order` lists the clusters of one file in chain order."""
    links = [SectorLink() for _ in range(n)]
    for a, b in zip(order, order[1:]):
        links[a] = SectorLink(next=b, end=False)
    links[order[-1]] = SectorLink(next=0, end=True)
    return links


CLUSTER_OFFSETS = [0, 1, 2, 3, 4, 5, 6, 100, -1, -2, True, False, 1.0, 0.5, 2.5, None, "1", [1]]


def synthetic():
    n = 0
    cases = [
        chain(8, [2, 5, 3, 7, 4]),
        chain(8, [6]),
        chain(3, [0, 1, 2]),
        # loop 2 -> 3 -> 2
        [SectorLink(), SectorLink(), SectorLink(3, False), SectorLink(2, False)],
        # link out of range
        [SectorLink(), SectorLink(9, False), SectorLink()],
        [],
    ]
    for ci, links in enumerate(cases):
        for index in (-1, 0, 1, 2, 3, 6, 7, 8, 50):
            for co in CLUSTER_OFFSETS:
                live, orig = tables(links)
                a = describe(live, attempt(live.get_file, index, co))
                b = describe(orig, attempt(orig.get_file, index, co))
                check(("synthetic", ci, index, repr(co)), a, b)
                a = describe(live, attempt(live.get_file, index, cluster_offset=co))
                b = describe(orig, attempt(orig.get_file, index, cluster_offset=co))
                check(("synthetic-kw", ci, index, repr(co)), a, b)
                n += 2
            live, orig = tables(links)
            check(("synthetic-default", ci, index),
                  describe(live, attempt(live.get_file, index)), describe(orig, attempt(orig.get_file, index)))
            n += 1
        # table size smaller than the chain: InvalidFatDefinition from get_path
        for size in (0, 1, 2):
            live, orig = tables(links, size)
            check(("synthetic-size", ci, size),
                  describe(live, attempt(live.get_file, 2, 1)), describe(orig, attempt(orig.get_file, 2, 1)))
            n += 1
    for seed in range(300):
        rnd = random.Random(seed)
        size = rnd.randrange(2, 40)
        order = rnd.sample(range(size), rnd.randrange(1, size))
        links = chain(size, order)
        for _ in range(6):
            index = rnd.choice(order + [rnd.randrange(size)])
            co = rnd.choice([0, 0, 1, 2, 3, rnd.randrange(-3, size + 3)])
            live, orig = tables(links)
            check(("random-table", seed, index, co),
                  describe(live, attempt(live.get_file, index, co)), describe(orig, attempt(orig.get_file, index, co)))
            n += 1
    return n


def subclass_hooks():
    """get_path is consulted exactly once, before the file is created."""
    rec = []
    for base in (RolandFileAllocationTable, OrigTable):
        log = []

        class Spy(base):
            def get_path(self, starting_sector):
                log.append(("get_path", starting_sector))
                p = super().get_path(starting_sector)
                log.append(("path", list(p)))
                return p

        t = Spy("PARENT", 8, chain(8, [2, 5, 3, 7, 4]))
        out = [describe(t, attempt(t.get_file, 2, 2)), describe(t, attempt(t.get_file, 5)),
               describe(t, attempt(t.get_file, 99, 1)), describe(t, attempt(t.get_file, 3, "x"))]
        rec.append((out, log))
    check("hooks", rec[0], rec[1])


# ------------------------------------------------------------ generated image
NUM_CLUSTERS = 14
FILES = {2: [2, 9, 4, 11], 3: [3, 5], 6: [6, 7, 8, 10, 12], 13: [13]}


def build_image():
    rnd = random.Random(1111)
    img = bytearray(DATA_FAT_OFFSET + NUM_CLUSTERS * ROLAND_CLUSTER_SIZE)
    img[DATA_FAT_OFFSET:] = bytes(rnd.randrange(256) for _ in range(NUM_CLUSTERS * ROLAND_CLUSTER_SIZE))
    fat = [0] * FAT_NUM_ENTRIES
    fat[0] = 0xfffa
    fat[1] = 0
    for order in FILES.values():
        for a, b in zip(order, order[1:]):
            fat[a] = b
        fat[order[-1]] = 0xffff
    fat[-2] = 0xffff
    fat[-1] = 0xffff
    img[FAT_AREA_OFFSET:FAT_AREA_OFFSET + 2 * FAT_NUM_ENTRIES] = struct.pack("<%dH" % FAT_NUM_ENTRIES, *fat)
    return bytes(img)


IMAGE = build_image()


_PARSED = []


def open_fat(original):
    """Parse the FAT area once (64K entries); afterwards only reset the state of
    the handle and of the shared data-area window before each run."""
    if not _PARSED:
        handle = TraceIO(IMAGE)
        handle.seek(FAT_AREA_OFFSET)
        area = FatAreaParser.parse_stream(handle)
        assert type(area.fat) is RolandFileAllocationTable
        window = area.fat.parent_stream
        assert isinstance(window, StreamOffset) and window.substream is handle
        _PARSED.append((handle, area.fat, dict(window.__dict__), handle.tell()))
    handle, fat, window_state, handle_pos = _PARSED[0]
    fat.parent_stream.__dict__.clear()
    fat.parent_stream.__dict__.update(window_state)
    if original:
        fat = OrigTable(fat.parent_stream, fat.size, fat.sector_links)
    io.BytesIO.seek(handle, handle_pos)
    handle.trace.clear()
    return handle, fat


def expected_bytes(first, cluster_offset):
    order = FILES[first][cluster_offset:] if cluster_offset > 0 else FILES[first]
    return b"".join(
        IMAGE[DATA_FAT_OFFSET + c * ROLAND_CLUSTER_SIZE: DATA_FAT_OFFSET + (c + 1) * ROLAND_CLUSTER_SIZE]
        for c in order
    )


def play(original, opens, ops):
    """opens: list of (first cluster, cluster_offset, lazily?) ; ops: (i, kind, arg...)"""
    handle, fat = open_fat(original)
    files = {}
    out = []

    def get(i):
        if i not in files:
            first, co = opens[i]
            files[i] = StreamWrapper(fat.get_file(first, cluster_offset=co), 3 * ROLAND_CLUSTER_SIZE + 77)
        return files[i]

    got = {i: b"" for i in range(len(opens))}
    sequential = {i: True for i in range(len(opens))}
    for op in ops:
        f = get(op[0])
        if op[1] == "read":
            r = attempt(f.read, op[2])
            if r[0] == "ok":
                got[op[0]] += r[1]
                r = ("ok", len(r[1]), zlib.crc32(r[1]))
            out.append(r)
        else:
            sequential[op[0]] = False
            out.append(attempt(f.seek, op[2], op[3]))
    # isolation itself: purely sequential readers see the file's own bytes
    for i, (first, co) in enumerate(opens):
        if sequential[i] and i in files:
            want = expected_bytes(first, co)[:3 * ROLAND_CLUSTER_SIZE + 77]
            if got[i] != want[:len(got[i])]:
                FAILS.append(("isolation", original, opens, i))
                print("ISOLATION BROKEN", original, opens, i)
    return out, {i: zlib.crc32(b) for i, b in got.items()}, list(handle.trace)


def image_runs():
    n = 0
    # exhaustive: 2 files x 3 blocks, every interleaving, several block sizes
    for (fa, ca), (fb, cb) in (((2, 0), (6, 0)), ((2, 1), (6, 3)), ((6, 2), (6, 0)), ((3, 1), (13, 0)), ((2, 9), (3, 0))):
        for block_a, block_b in ((0x1000, 0x1000), (0x2400, 0x900), (0x2401, 5000), (9217, 0x4800)):
            for mask in itertools.combinations(range(6), 3):
                ops = [(0, "read", block_a) if i in mask else (1, "read", block_b) for i in range(6)]
                opens = [(fa, ca), (fb, cb)]
                check(("exhaustive", opens, block_a, block_b, mask), play(False, opens, ops), play(True, opens, ops))
                n += 1
    # random: 2-4 files, reads and seeks, files created lazily in the middle
    for seed in range(120):
        rnd = random.Random(seed)
        k = rnd.randrange(2, 5)
        opens = []
        for _ in range(k):
            first = rnd.choice(list(FILES))
            opens.append((first, rnd.choice([0, 0, 1, 2, len(FILES[first]) - 1, len(FILES[first]), -1])))
        ops = []
        for _ in range(25):
            i = rnd.randrange(k)
            if rnd.random() < 0.25:
                ops.append((i, "seek", rnd.choice([0, 0x23ff, 0x2400, 0x2401, -100, 100, 2 * 0x2400 - 3]), rnd.choice([0, 1, 2])))
            else:
                ops.append((i, "read", rnd.choice([0, 1, 2, 0x800, 0x1000, 0x2400, 0x2401, 0x4800, 12345])))
        check(("random-image", seed), play(False, opens, ops), play(True, opens, ops))
        n += 1
    return n


def main():
    a = synthetic()
    subclass_hooks()
    b = image_runs()
    print("table cases: %d, image schedules: %d, mismatches: %d" % (a, b, len(FAILS)))
    return 1 if FAILS else 0


if __name__ == "__main__":
    sys.exit(main())
